def _get_dbos_instance():
    return None

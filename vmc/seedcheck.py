"""Verify a seeded change produced by a sub-agent and run our checks against it.

usage: python -m vmc.seedcheck <PID> [--checks C01,C02] [--name suffix]
 - takes /tmp/seed/wt-<PID> (patch applied, patch.diff, demo_<PID>.py)
 - confirms: demo fails with the change, passes without; pinned suite passes with the change
 - stores /verif/seeded/<PID>[-suffix]/{patch.diff, demo, meta.json}
 - runs the given checks against a scratch copy with the patch applied (via vmc.mutate)
"""
from __future__ import annotations

import argparse
import json
import os
import shutil
import subprocess
import sys


def sh(cmd: str, cwd: str, timeout: int = 900, env: dict | None = None) -> tuple[int, str]:
    p = subprocess.run(cmd, shell=True, cwd=cwd, capture_output=True, text=True, timeout=timeout, env=env)
    return p.returncode, (p.stdout + p.stderr)


def main() -> int:
    ap = argparse.ArgumentParser()
    ap.add_argument("pid")
    ap.add_argument("--checks", default=None)
    ap.add_argument("--name", default="")
    ap.add_argument("--wt", default=None)
    ap.add_argument("--needs", default="")
    ap.add_argument("--python", default="/venv/bin/python")
    args = ap.parse_args()
    pid = args.pid
    wt = args.wt or f"/tmp/seed/wt-{pid}"
    sid = pid + (f"-{args.name}" if args.name else "")
    out = f"/verif/seeded/{sid}"
    os.makedirs(out, exist_ok=True)
    pp = ":".join([f"{wt}/packages/{p}/src" for p in ("llama-index-workflows", "llama-agents-server", "llama-agents-client",
                                                      "llama-agents-core", "llama-agents-dbos", "llamactl",
                                                      "llama-agents-control-plane")] + [f"{wt}/src", "/tmp/seed/standins"])
    env = dict(os.environ, PYTHONPATH=pp, PYTHONDONTWRITEBYTECODE="1")
    demo = next((f for f in os.listdir(wt) if f.startswith("demo_") and f.endswith(".py")), None)
    if demo is None:
        print("no demo file")
        return 2
    runner = f"{args.python} -m pytest -q -p no:cacheprovider -x" if "def test_" in open(f"{wt}/{demo}").read() and "__main__" not in open(f"{wt}/{demo}").read() else args.python
    # regenerate the patch from the worktree state
    rc, diff = sh("git diff -- packages src", wt)
    if not diff.strip():
        print("worktree has no change applied")
        return 2
    open(f"{out}/patch.diff", "w").write(diff)
    shutil.copy(f"{wt}/{demo}", f"{out}/{demo}")
    rc_changed, o1 = sh(f"timeout 300 {runner} {demo}", wt, env=env)
    # no `git stash`: refs/stash is shared by all worktrees of a repository (collisions between agents)
    rc_rev, o_rev = sh(f"git apply -R {out}/patch.diff", wt)
    if rc_rev != 0:
        print("cannot reverse patch: " + o_rev)
        return 2
    try:
        rc_orig, o2 = sh(f"timeout 300 {runner} {demo}", wt, env=env)
    finally:
        sh(f"git apply {out}/patch.diff", wt)
    rc_suite, o3 = sh("timeout 900 /venv/bin/python -m pytest -q -p no:cacheprovider --timeout=900 tests 2>&1 | tail -1", wt)
    ok = rc_changed != 0 and rc_orig == 0 and " passed" in o3 and "failed" not in o3
    print(f"[{sid}] demo: changed rc={rc_changed} original rc={rc_orig}; pinned suite: {o3.strip()} -> confirmed={ok}")
    checks = (args.checks or pid).split(",")
    results = {}
    for c in checks:
        r = subprocess.run([sys.executable, "-m", "vmc.mutate", f"{out}/patch.diff", "--checks", c], cwd="/verif",
                           capture_output=True, text=True)
        det = "detected=True" in r.stdout
        results[c] = det
        print(f"[{sid}] check {c}: detected={det}")
        for ln in r.stdout.splitlines():
            if "clause=" in ln:
                print("   " + ln.strip()[:220])
                break
    meta = {"id": sid, "breaks": pid, "needs": args.needs, "confirmed": ok,
            "demo": demo, "demo_rc_with_change": rc_changed, "demo_rc_original": rc_orig,
            "pinned_suite_with_change": o3.strip(), "checks_run": results,
            "ran": [f"{runner} {demo} (with / without patch)", "pytest tests (pinned suite) with patch",
                    "python -m vmc.mutate patch.diff --checks " + ",".join(checks)]}
    json.dump(meta, open(f"{out}/meta.json", "w"), indent=1)
    return 0 if ok else 1


if __name__ == "__main__":
    sys.exit(main())

"""Run every mutation under /verif/mutations and every seeded change under /verif/seeded against the checks they are
supposed to break; write /verif/MUTATIONS.md.  usage: python -m vmc.mutall [--jobs 4]"""
from __future__ import annotations

import argparse
import concurrent.futures as cf
import glob
import json
import os
import subprocess
import sys

VERIF = os.path.dirname(os.path.dirname(os.path.abspath(__file__)))


def run_one(item: tuple[str, str, list[str], str]) -> dict:
    kind, path, checks, note = item
    out = {"kind": kind, "id": os.path.basename(os.path.dirname(path)) if kind == "seeded" else os.path.basename(path)[:-5],
           "checks": {}, "note": note}
    for c in checks:
        r = subprocess.run([sys.executable, "-m", "vmc.mutate", path, "--checks", c], cwd=VERIF, capture_output=True, text=True)
        det = "detected=True" in r.stdout
        clause = ""
        for ln in r.stdout.splitlines():
            if "clause=" in ln:
                clause = ln.strip().split(" witness=")[0].replace("clause=", "")
                break
        out["checks"][c] = {"detected": det, "clause": clause}
    return out


def main() -> int:
    ap = argparse.ArgumentParser()
    ap.add_argument("--jobs", type=int, default=4)
    ap.add_argument("--only", default="")
    args = ap.parse_args()
    items = []
    superseded: list[tuple[str, str, str]] = []
    for p in sorted(glob.glob(os.path.join(VERIF, "mutations", "*.json"))):
        spec = json.load(open(p))
        items.append(("mutation", p, spec.get("breaks", []), spec.get("note", "")))
    for d in sorted(glob.glob(os.path.join(VERIF, "seeded", "*"))):
        if not os.path.exists(os.path.join(d, "meta.json")):
            continue  # seedcheck still writing this one
        meta = json.load(open(os.path.join(d, "meta.json")))
        if meta.get("superseded_by_fix"):
            superseded.append((os.path.basename(d), meta["superseded_by_fix"], meta.get("superseded_note", "")))
            continue  # a later fix: commit made the tree robust against this change: nothing left to detect
        checks = [c for c, ok in (meta.get("checks_run") or {}).items() if ok] or [meta.get("breaks")]
        items.append(("seeded", os.path.join(d, "patch.diff"), checks, meta.get("needs", "")))
    if args.only:
        items = [i for i in items if args.only in i[1]]
    with cf.ThreadPoolExecutor(args.jobs) as ex:
        results = list(ex.map(run_one, items))
    lines = ["# Detection table", "",
             "Every row is a property-breaking edit applied to a scratch copy of the repository sources (never to /repo) and run against the "
             "quick tier of the check(s) named; `mutations/*.json` are hand-written edits, `seeded/*/patch.diff` come from independent "
             "sub-agents that saw only the property text (each confirmed: demo fails with the change, passes without, pinned suite passes).",
             "", "| kind | id | check | detected | first clause | what it needs / does |", "|---|---|---|---|---|---|"]
    bad = 0
    for r in results:
        for c, x in r["checks"].items():
            if not x["detected"]:
                bad += 1
            lines.append(f"| {r['kind']} | {r['id']} | {c} | {'yes' if x['detected'] else '**NO**'} | {x['clause']} | {r['note'][:160].replace('|', '/')} |")
    if superseded:
        lines += ["", "Seeded changes that a later `fix:` commit neutralised (the property now holds with the change applied; not run):", ""]
        lines += [f"* `{sid}` - fix {c}: {why}" for sid, c, why in superseded]
    lines += ["", f"{sum(len(r['checks']) for r in results)} runs, {bad} not detected."]
    open(os.path.join(VERIF, "MUTATIONS.md"), "w").write("\n".join(lines) + "\n")
    print(lines[-1])
    return 0


if __name__ == "__main__":
    sys.exit(main())

"""Harness that drives the real workflow engine on a VLoop under an explorer (DESIGN.md 3.2-3.4).

No change to the repository: the runner object is captured by wrapping
``_ControlLoopRunner.__init__`` at import time, and monitors are inserted with the repository's
own ``BaseRuntimeDecorator`` / ``BaseInternalRunAdapterDecorator`` mechanism.
"""
from __future__ import annotations

import asyncio
import gc
import json
import typing
from dataclasses import dataclass, field
from typing import Any, Callable, Optional, Union

from vmc import bootstrap

bootstrap.setup()

from workflows import Context, Workflow, step  # noqa: E402
from workflows.events import (  # noqa: E402
    Event,
    StepStateChanged,
    StopEvent,
)
from workflows.plugins.basic import BasicRuntime  # noqa: E402
from workflows.runtime import control_loop as _cl  # noqa: E402
from workflows.runtime.runtime_decorators import (  # noqa: E402
    BaseInternalRunAdapterDecorator,
    BaseRuntimeDecorator,
)

from vmc.explore import Execution  # noqa: E402
from vmc.loop import VLoop  # noqa: E402

_H: Optional["Harness"] = None


def H() -> "Harness":
    assert _H is not None, "no harness installed"
    return _H


# --- capture the runner (import-time wrap, no repo change) -------------------------------
_orig_runner_init = _cl._ControlLoopRunner.__init__


def _runner_init(self: Any, *a: Any, **kw: Any) -> None:
    _orig_runner_init(self, *a, **kw)
    if _H is not None:
        _H.runners.append(self)


_cl._ControlLoopRunner.__init__ = _runner_init  # type: ignore[method-assign]

_orig_process_tick = _cl._ControlLoopRunner._process_tick


async def _process_tick(self: Any, tick: Any) -> Any:
    if _H is not None:
        _H.pre_state = self.state  # state object before the reducer runs (never mutated afterwards)
        _H.pre_runner = self
        if _H.lag_before_failed_result and getattr(tick, "type", "") == "step_result" and any(
                type(r).__name__ == "StepWorkerFailed" for r in tick.result):
            # the loop was busy with something else when the step failed: it gets to the failure this much later
            _H.loop.advance_busy(_H.lag_before_failed_result)
    res = await _orig_process_tick(self, tick)
    h = _H
    if h is not None and h.busy_ticks_left > 0 and self.scheduled_wakeups and res is None:
        # environment choice: processing this tick kept the loop busy (slow persistence, GC pause, CPU-bound callback)
        # until after the next wake-up the run has scheduled for itself
        import time as _t

        due = self.scheduled_wakeups[0][0]
        if due > _t.time() - 1e-9:
            c = h.ex.choose(2, "busy", ["tick takes no time", "tick is slow: the clock passes the next scheduled wake-up"])
            if c == 1:
                h.busy_ticks_left -= 1
                h.loop.advance_busy(due - _t.time() + 0.25)
                h.busy_until = _t.time()
                h.trace.append(f"busy_tick:{type(tick).__name__}")
    return res


_cl._ControlLoopRunner._process_tick = _process_tick  # type: ignore[method-assign]

_orig_schedule_tick = _cl._ControlLoopRunner.schedule_tick


def _schedule_tick(self, tick, at_time):  # type: ignore[no-untyped-def]  # noqa: ANN001
    if _H is not None:
        _H.scheduled_due[id(tick)] = (at_time, tick)  # observation only: when each wake-up was asked to fire
    return _orig_schedule_tick(self, tick, at_time)


_cl._ControlLoopRunner.schedule_tick = _schedule_tick  # type: ignore[method-assign]


# --- monitor decorators ---------------------------------------------------------------
class MonInternalAdapter(BaseInternalRunAdapterDecorator):
    async def write_to_event_stream(self, event: Event) -> None:
        h = _H
        if h is not None:
            h.published.append(event)
            for cb in h.on_publish:
                cb(h, event, self)
        await self._decorated.write_to_event_stream(event)

    async def on_tick(self, tick: Any) -> None:
        h = _H
        if h is not None:
            h.ticks.append(tick)
            for cb in h.on_tick:
                cb(h, tick, self)
        await self._decorated.on_tick(tick)

    async def send_event(self, tick: Any) -> None:
        h = _H
        if h is not None:
            h.internal_sends.append(tick)
        await self._decorated.send_event(tick)

    async def close(self) -> None:
        await self._decorated.close()
        h = _H
        spec = getattr(h, "spec", None) if h is not None else None
        if spec is not None and spec.params.get("adapter_close_raises"):
            # a decorating adapter whose own teardown fails (a stream, a lock, a connection of a plugin runtime)
            raise RuntimeError("adapter close failed")

    # SnapshottableAdapter passthrough used by some code paths
    def replay(self) -> Any:
        return self._decorated.replay()  # type: ignore[attr-defined]

    @property
    def init_state(self) -> Any:
        return self._decorated.init_state  # type: ignore[attr-defined]


class MonRuntime(BaseRuntimeDecorator):
    def get_internal_adapter(self, workflow: Workflow) -> Any:
        return MonInternalAdapter(self._decorated.get_internal_adapter(workflow))


# --- gates -------------------------------------------------------------------------------
@dataclass
class Gate:
    label: str
    fut: Any
    seq: int
    owner: Any = None


async def gate(label: str, owner: Any = None) -> None:
    """A harness-controlled suspension point: the body continues when the explorer releases it."""
    h = H()
    fut = h.loop.create_future()
    h.gate_seq += 1
    g = Gate(label, fut, h.gate_seq, owner)
    h.gates.append(g)
    h.max_gates = max(h.max_gates, len(h.gates))
    try:
        await fut
    finally:
        try:
            h.gates.remove(g)
        except ValueError:
            pass


@dataclass
class Invocation:
    idx: int
    step: str
    ev: Any
    retry: Any = None
    exited: bool = False
    result: Any = None
    exc: Any = None
    t_enter: float = 0.0
    t_exit: float = 0.0
    info: dict[str, Any] = field(default_factory=dict)


@dataclass
class Action:
    label: str
    do: Callable[[], None]


class Harness:
    def __init__(self, ex: Execution, loop: VLoop) -> None:
        self.ex = ex
        self.loop = loop
        self.gates: list[Gate] = []
        self.gate_seq = 0
        self.max_gates = 0
        self.runners: list[Any] = []
        self.published: list[Event] = []
        self.ticks: list[Any] = []
        self.internal_sends: list[Any] = []
        self.stream: list[Event] = []
        self.stream_done = False
        self.stream_error: Any = None
        self.on_publish: list[Callable[..., None]] = []
        self.on_tick: list[Callable[..., None]] = []
        self.lag_before_failed_result = 0.0  # seconds between a step's failure and the loop getting to its result tick
        self.busy_ticks_left = 0  # RunConfig.busy_ticks: how many ticks may keep the loop busy past the next wake-up
        self.busy_until = 0.0
        self.invocations: list[Invocation] = []
        self.live: dict[str, list[Invocation]] = {}
        self.max_live: dict[str, int] = {}
        self.max_concurrency = 0
        self.notes: list[Any] = []  # free-form monitor log
        self.violations: list[tuple[str, dict[str, Any], str]] = []
        self.scripts: list[list[Action]] = []
        self.script_pos: list[int] = []
        self.actions_done = 0
        self.trace: list[str] = []
        self.pre_state: Any = None
        self.scheduled_due: dict[int, tuple[float, Any]] = {}
        self.pre_runner: Any = None

    # -- body tracking
    def enter(self, step_name: str, ev: Any, ctx: Any = None) -> Invocation:
        inv = Invocation(len(self.invocations), step_name, ev, t_enter=self.loop.vt)
        if ctx is not None:
            try:
                inv.retry = ctx.retry_info()
            except Exception as e:  # noqa: BLE001
                inv.retry = e
        self.invocations.append(inv)
        lst = self.live.setdefault(step_name, [])
        lst.append(inv)
        self.max_live[step_name] = max(self.max_live.get(step_name, 0), len(lst))
        self.max_concurrency = max(self.max_concurrency, sum(len(v) for v in self.live.values()))
        return inv

    def exit(self, inv: Invocation, result: Any = None, exc: Any = None) -> None:
        inv.exited = True
        inv.result = result
        inv.exc = exc
        inv.t_exit = self.loop.vt
        try:
            self.live[inv.step].remove(inv)
        except (KeyError, ValueError):
            pass

    def violate(self, clause: str, witness: dict[str, Any], detail: str) -> None:
        self.violations.append((clause, witness, detail))

    # -- action menu
    def pending_gates(self) -> list[Gate]:
        return [g for g in self.gates if not g.fut.done()]


def make_step(
    name: str,
    accepts: list[type],
    returns: list[Any],
    body: Callable[..., Any],
    *,
    num_workers: int = 4,
    retry_policy: Any = None,
    track: bool = True,
    extra_params: dict[str, Any] | None = None,
    decorator: Callable[..., Any] | None = None,
    deco_kwargs: dict[str, Any] | None = None,
    ctx_type: Any = None,
) -> Any:
    """Build a real ``@step`` method.  ``body(self, ctx, ev, inv, **resources)`` is a coroutine
    function; entry / exit are logged to the harness."""
    extra_params = extra_params or {}

    if extra_params:
        names = list(extra_params)

        async def fn(self, ctx, ev, **kw):  # type: ignore[no-untyped-def]
            return await _call(self, ctx, ev, kw)

        # explicit parameters are needed for signature inspection -> build via exec
        src = (
            "async def fn(self, ctx, ev, " + ", ".join(names) + "):\n"
            "    return await _call(self, ctx, ev, dict(" + ", ".join(f"{n}={n}" for n in names) + "))\n"
        )
        ns: dict[str, Any] = {}

        async def _call(self, ctx, ev, kw):  # type: ignore[no-untyped-def]
            h = H()
            inv = h.enter(name, ev, ctx) if track else None
            try:
                r = await body(self, ctx, ev, inv, **kw)
            except BaseException as e:  # noqa: BLE001
                if inv is not None:
                    h.exit(inv, exc=e)
                raise
            if inv is not None:
                h.exit(inv, result=r)
            return r

        ns["_call"] = _call
        exec(src, ns)  # noqa: S102
        fn = ns["fn"]
    else:

        async def fn(self, ctx, ev):  # type: ignore[no-untyped-def,misc]
            h = H()
            inv = h.enter(name, ev, ctx) if track else None
            try:
                r = await body(self, ctx, ev, inv)
            except BaseException as e:  # noqa: BLE001
                if inv is not None:
                    h.exit(inv, exc=e)
                raise
            if inv is not None:
                h.exit(inv, result=r)
            return r

    fn.__name__ = name
    fn.__qualname__ = f"WF.{name}"  # looks like a method (not a free function)
    ann: dict[str, Any] = {"ctx": ctx_type or Context}  # (Context[SomeModel] gives the run a typed state store)
    ann["ev"] = accepts[0] if len(accepts) == 1 else Union[tuple(accepts)]  # type: ignore[assignment]
    rets = [type(None) if r is None else r for r in returns]
    ann["return"] = rets[0] if len(rets) == 1 else Union[tuple(rets)]  # type: ignore[assignment]
    for k, v in extra_params.items():
        ann[k] = v
    fn.__annotations__ = ann
    deco = decorator or step
    kwargs = dict(deco_kwargs or {})
    if decorator is None:
        kwargs.setdefault("num_workers", num_workers)
        if retry_policy is not None:
            kwargs.setdefault("retry_policy", retry_policy)
    return deco(**kwargs)(fn) if kwargs else deco(fn)


def make_workflow(name: str, steps: list[Any]) -> type:
    ns = {s.__name__: s for s in steps}
    ns["__module__"] = "vmc.dynamic"
    return type(name, (Workflow,), ns)


# --- execution driver --------------------------------------------------------------------
@dataclass
class RunConfig:
    max_actions: int = 400
    allow_time: bool = True
    time_depth: int = 1  # how many distinct future deadlines may be jumped to at once
    pair_release: bool = False  # also offer releasing two gates in the same macro-step
    pair_time: bool = False  # also offer "timer fires and a gate is released in the same loop iteration"
    stop_when: Callable[["Harness"], bool] | None = None
    on_quiescent: list[Callable[["Harness"], None]] = field(default_factory=list)
    state_digest: Callable[["Harness"], str] | None = None
    time_filter: Callable[["Harness"], bool] | None = None  # may veto the time action
    gate_filter: Callable[["Harness", Any], bool] | None = None  # may veto releasing a gate (a step that blocks for good)
    busy_ticks: int = 0  # how many ticks of one execution may keep the loop busy until after the next scheduled wake-up


class EngineExec:
    """One execution.  Usage::

        with EngineExec(ex, cfg) as e:
            ... build workflow / start run on e.h ...
            e.drive()
            obs = freeze(e.h)
    """

    def __init__(self, ex: Execution, cfg: RunConfig | None = None, loop: VLoop | None = None) -> None:
        self.ex = ex
        self.cfg = cfg or RunConfig()
        self.loop = loop or VLoop()
        self.h = Harness(ex, self.loop)
        self.h.busy_ticks_left = self.cfg.busy_ticks
        self.stuck = False
        self.capped = False

    def __enter__(self) -> "EngineExec":
        global _H
        self.loop.install()
        _H = self.h
        return self

    def __exit__(self, *a: Any) -> None:
        global _H
        try:
            self.loop.teardown()
        finally:
            _H = None
            gc.collect(0)

    def abandon(self) -> None:
        """Leave without running anything more on the loop (crash semantics); use instead of __exit__."""
        global _H
        try:
            self.loop.abandon()
        finally:
            _H = None

    # -- environment scripts: each script is a list of Actions executed in order at
    #    explorer-chosen quiescent points
    def add_script(self, actions: list[Action]) -> None:
        self.h.scripts.append(actions)
        self.h.script_pos.append(0)

    def consume_stream(self, handler: Any, expose_internal: bool = True) -> Any:
        h = self.h

        async def _consume() -> None:
            try:
                async for ev in handler.stream_events(expose_internal=expose_internal):
                    h.stream.append(ev)
            except BaseException as e:  # noqa: BLE001
                h.stream_error = e
                if isinstance(e, asyncio.CancelledError):
                    raise
            finally:
                h.stream_done = True

        return self.loop.create_task(_consume())

    def consume_stream_in_sittings(self, handler: Any, first_n: int, expose_internal: bool = True) -> Any:
        """a consumer that stops listening after ``first_n`` events (closes the stream generator, e.g. after the first progress
        event or an InputRequiredEvent) and attaches again later, at an explorer-chosen point; what the two sittings saw,
        put together, is the stream the consumer got"""
        h = self.h

        async def _sit(limit: int | None) -> None:
            ended = False
            try:
                gen = handler.stream_events(expose_internal=expose_internal)
                n = 0
                try:
                    async for ev in gen:
                        h.stream.append(ev)
                        n += 1
                        if isinstance(ev, StopEvent):
                            ended = True  # (the terminal event: the consumer has the whole stream, whatever its limit)
                            break
                        if limit is not None and n >= limit:
                            break
                    else:
                        ended = True
                finally:
                    await gen.aclose()
            except BaseException as e:  # noqa: BLE001
                h.stream_error = e
                ended = True
                if isinstance(e, asyncio.CancelledError):
                    raise
            finally:
                if ended or limit is None:
                    h.stream_done = True

        st = {"left": False, "again": False}

        async def _first() -> None:
            await _sit(first_n)
            st["left"] = True
            if st["again"] and not h.stream_done:
                await _sit(None)  # (it was asked to come back before it had left: it comes back at once)

        def _again() -> None:
            if st["left"]:
                if not h.stream_done:
                    self.loop.create_task(_sit(None))
            else:
                st["again"] = True

        first = self.loop.create_task(_first())
        self.add_script([Action("consumer attaches again", _again)])
        return first

    def enabled(self) -> list[Action]:
        h = self.h
        acts: list[Action] = []
        gates = h.pending_gates()
        if self.cfg.gate_filter is not None:
            gates = [g for g in gates if self.cfg.gate_filter(h, g)]
        for g in gates:
            acts.append(Action(f"rel:{g.label}", (lambda g=g: g.fut.set_result(None))))
        for i, sc in enumerate(h.scripts):
            p = h.script_pos[i]
            if p < len(sc):
                a = sc[p]

                def _do(i: int = i, a: Action = a) -> None:
                    h.script_pos[i] += 1
                    a.do()

                acts.append(Action(f"env{i}:{a.label}", _do))
        if self.cfg.allow_time and self.loop.has_timers():
            if self.cfg.time_filter is None or self.cfg.time_filter(h):
                nd = len(self.loop.timer_deadlines())
                for k in range(min(nd, self.cfg.time_depth)):
                    acts.append(Action(f"time{k}", (lambda k=k: self.loop.fire_timers(k))))
        if self.cfg.pair_time and self.cfg.allow_time and gates and self.loop.has_timers() and (
                self.cfg.time_filter is None or self.cfg.time_filter(h)):
            for g in gates:
                def _gt(g: Gate = g) -> None:
                    g.fut.set_result(None)
                    self.loop.fire_timers(0)

                def _tg(g: Gate = g) -> None:
                    self.loop.fire_timers(0)
                    g.fut.set_result(None)

                acts.append(Action(f"rel:{g.label}+time0", _gt))
                acts.append(Action(f"time0+rel:{g.label}", _tg))
        if self.cfg.pair_release and len(gates) >= 2:
            for i in range(len(gates)):
                for j in range(len(gates)):
                    if i != j:
                        gi, gj = gates[i], gates[j]

                        def _both(gi: Gate = gi, gj: Gate = gj) -> None:
                            gi.fut.set_result(None)
                            gj.fut.set_result(None)

                        acts.append(Action(f"rel2:{gi.label}+{gj.label}", _both))
        return acts

    def drive(self) -> None:
        h = self.h
        cfg = self.cfg
        while True:
            self.loop.drain()
            for cb in cfg.on_quiescent:
                cb(h)
            if cfg.stop_when is not None and cfg.stop_when(h):
                return
            acts = self.enabled()
            if not acts:
                self.stuck = True
                return
            if h.actions_done >= cfg.max_actions:
                self.capped = True
                return
            if cfg.state_digest is not None:
                self.ex.at_state(cfg.state_digest(h))
            c = self.ex.choose(len(acts), "act", [a.label for a in acts])
            h.trace.append(acts[c].label)
            h.actions_done += 1
            acts[c].do()


def task_outcome(t: Any) -> tuple[str, Any]:
    """('pending'|'result'|'exception'|'cancelled', value)"""
    if not t.done():
        return ("pending", None)
    if t.cancelled():
        return ("cancelled", None)
    e = t.exception()
    if e is not None:
        return ("exception", e)
    return ("result", t.result())


def ev_repr(ev: Any) -> str:
    if ev is None:
        return "None"
    uid = None
    try:
        uid = ev.get("uid", None) if hasattr(ev, "get") else None
    except Exception:  # noqa: BLE001
        uid = None
    if uid is None:
        uid = getattr(ev, "uid", None)
    n = type(ev).__name__
    return f"{n}#{uid}" if uid is not None else n


def stream_repr(events: list[Any], with_state: bool = True) -> list[str]:
    out = []
    for e in events:
        if isinstance(e, StepStateChanged):
            if with_state:
                out.append(f"SSC({e.name},{e.step_state.name},{e.worker_id})")
        elif isinstance(e, StopEvent) and type(e) is StopEvent:
            out.append(f"StopEvent({e.result!r})")
        else:
            out.append(ev_repr(e))
    return out


def jdump(x: Any) -> str:
    return json.dumps(x, sort_keys=True, default=repr)


__all__ = [
    "H", "gate", "Harness", "EngineExec", "RunConfig", "Action", "make_step", "make_workflow",
    "MonRuntime", "BasicRuntime", "task_outcome", "ev_repr", "stream_repr", "typing",
]

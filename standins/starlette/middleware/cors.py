class CORSMiddleware:
    def __init__(self, *a, **kw):
        pass

"""C29 - stream merge and sorted-prefix utilities preserve items and order."""
from __future__ import annotations

import importlib.util
import itertools
import sys
from typing import Any

from vmc import bootstrap
from vmc.checks.common import Program, replay_program, run_programs
from vmc.engine import EngineExec, RunConfig, gate
from vmc.explore import Execution

PID = "C29"


class _AsyncioProxy:
    """``asyncio`` as seen by iter_utils: ``wait`` returns the done tasks in an explorer-chosen order
    (the iteration order of a real ``set[Task]`` is arbitrary)."""

    def __init__(self, ex: Execution) -> None:
        import asyncio

        self._a = asyncio
        self._ex = ex

    def __getattr__(self, name: str) -> Any:
        return getattr(self._a, name)

    async def wait(self, fs: Any, **kw: Any) -> Any:
        done, pending = await self._a.wait(fs, **kw)
        lst = sorted(done, key=lambda t: t._vidx)
        if len(lst) > 1:
            perms = list(itertools.permutations(range(len(lst))))
            c = self._ex.choose(len(perms), "done_order", ["".join(map(str, p)) for p in perms])
            lst = [lst[i] for i in perms[c]]
        return lst, pending


def _load(ex: Execution) -> Any:
    """fresh module per execution, loaded while the virtual clock is installed (Debouncer binds
    time.monotonic as a default argument at import time)"""
    spec = importlib.util.spec_from_file_location(
        "_vmc_iter_utils", bootstrap.src("packages/llama-agents-core/src/llama_agents/core/iter_utils.py"))
    mod = importlib.util.module_from_spec(spec)  # type: ignore[arg-type]
    sys.modules["_vmc_iter_utils"] = mod
    spec.loader.exec_module(mod)  # type: ignore[union-attr]
    mod.asyncio = _AsyncioProxy(ex)
    return mod


# ------------------------------------------------------------------------------- merge
def exec_merge(ex: Execution, sources: list[list[Any]], pair: bool, raw: bool = False) -> tuple[Any, list[Any]]:
    """sources: list of item lists; an item 'ERR' makes the source raise at that position"""
    with EngineExec(ex, RunConfig(pair_release=pair)) as e:
        mod = _load(ex)
        out: list[Any] = []
        result: dict[str, Any] = {}

        def src(i: int, items: list[Any]) -> Any:
            async def gen() -> Any:
                for k, it in enumerate(items):
                    await gate(f"s{i}.{k}")
                    if it == "ERR":
                        raise KeyError(f"source {i} failed")
                    # (``raw``: the sources' own values are yielded - they are distinct across sources - so that a value such as None
                    # is an ITEM of the merged stream, not part of a wrapper tuple)
                    yield it if raw else (i, it)
                await gate(f"s{i}.end")

            return gen()

        async def consume() -> None:
            try:
                async for x in mod.merge_generators(*[src(i, it) for i, it in enumerate(sources)]):
                    out.append(x)
                result["end"] = "ok"
            except KeyError as ex_:
                result["end"] = f"error:{ex_}"

        t = e.loop.create_task(consume())
        e.cfg.stop_when = lambda hh: t.done()
        e.drive()
        v: list[Any] = []
        has_err = any("ERR" in s for s in sources)
        w = {"sources": len(sources), "with_error": has_err}
        if raw:
            w["items_include_none"] = any(it is None for s_ in sources for it in s_)
            owner = {repr(it): i for i, s_ in enumerate(sources) for it in s_}
            out[:] = [(owner.get(repr(x), -1), x) for x in out]
        if not t.done():
            v.append(("merge_never_finishes", w, f"stuck={e.stuck}; out={out}"))
        else:
            if t.exception() is not None:
                v.append(("merge_raises_unexpected", w, repr(t.exception())))
            # exactly once, per-source order
            if len(set(out)) != len(out):
                v.append(("item_yielded_twice", w, f"{out}"))
            for i, items in enumerate(sources):
                got = [x[1] for x in out if x[0] == i]
                want = [it for it in items if it != "ERR"] if "ERR" not in items else items[:items.index("ERR")]
                if has_err:
                    if got != want[:len(got)]:
                        v.append(("per_source_order_broken", w, f"source {i}: yielded {got}, source order {want}"))
                elif got != want:
                    kind = "item_lost" if len(got) < len(want) else "per_source_order_broken"
                    v.append((kind, w, f"source {i}: yielded {got}, expected {want}"))
            if has_err and not str(result.get("end", "")).startswith("error"):
                v.append(("source_error_not_reraised", w, f"end={result.get('end')} out={out}"))
            if not has_err and result.get("end") != "ok":
                v.append(("merge_raises_unexpected", w, f"end={result.get('end')}"))
        return {"out": out, "end": result.get("end"), "_metrics": {"max_concurrency": e.h.max_gates}}, v


# ------------------------------------------------------------------------------- debounce
class _Rec:
    """a record that is sorted BY A KEY but cannot be ordered itself (a plain object, like a log event)"""

    def __init__(self, key: int, n: int) -> None:
        self.key, self.n = key, n

    def __repr__(self) -> str:
        return f"{self.key}#{self.n}"


def exec_debounce(ex: Execution, keys: list[int], d: float, wmax: float, more: list[list[int]] | None = None,
                  concurrent: bool = False, records: bool = False) -> tuple[Any, list[Any]]:
    """``more``: further streams in the same process (same loaded module) - one after the other, or (``concurrent``) all at
    once; every stream is judged on its own"""
    streams = [keys] + list(more or [])
    with EngineExec(ex, RunConfig(pair_time=True)) as e:
        mod = _load(ex)
        debs: list[Any] = []
        orig_deb = mod.Debouncer

        class Deb(orig_deb):  # type: ignore[misc,valid-type]
            def __init__(self, *a: Any, **kw: Any) -> None:
                super().__init__(*a, **kw)
                debs.append(self)

            def __post_init__(self) -> None:  # (a dataclass-style Debouncer builds itself here)
                sup = getattr(super(), "__post_init__", None)
                if sup is not None:
                    sup()
                if self not in debs:
                    debs.append(self)

        mod.Debouncer = Deb
        recs: list[dict[str, Any]] = []

        def start_stream(si: int, ks: list[int]) -> Any:
            rec: dict[str, Any] = {"out": [], "arrivals": [], "before_close": [], "keys": ks, "deb_index": None, "opened_at": None, "close_at": None}
            recs.append(rec)
            tag = "" if len(streams) == 1 else f"s{si}:"

            async def inner() -> Any:
                for k, key in enumerate(ks):
                    await gate(f"{tag}item{k}")
                    if records:
                        key = _Rec(key, k)  # type: ignore[assignment]
                    rec["arrivals"].append(key)
                    # "strictly before the window closed": not in the same loop iteration as a timer firing
                    simultaneous = bool(e.h.trace) and "time" in e.h.trace[-1]
                    # reference window (independent of the implementation's own bookkeeping): opens when the stream is first
                    # iterated, closes debounce_seconds after the latest arrival inside it, at most max_window_seconds after it opened
                    now = e.loop.vt
                    if rec["close_at"] is not None and now < rec["close_at"] - 1e-9 and not simultaneous:
                        rec["before_close"].append(key)
                        rec["close_at"] = min(now + d, rec["opened_at"] + wmax)
                    elif rec["close_at"] is not None and now < rec["close_at"] - 1e-9:
                        rec["close_at"] = min(now + d, rec["opened_at"] + wmax)
                    yield key
                await gate(f"{tag}end")

            async def consume() -> None:
                rec["deb_index"] = len(debs)  # the Debouncer this call is about to create
                rec["opened_at"] = e.loop.vt
                rec["close_at"] = e.loop.vt + d
                async for x in mod.debounced_sorted_prefix(inner(), key=(lambda x: x.key) if records else (lambda x: x),
                                                           debounce_seconds=d, max_window_seconds=wmax):
                    rec["out"].append(x)

            rec["task"] = e.loop.create_task(consume())
            return rec["task"]

        if concurrent:
            ts = [start_stream(i, ks) for i, ks in enumerate(streams)]
            e.cfg.stop_when = lambda hh: all(t.done() for t in ts)
            e.drive()
        else:
            for i, ks in enumerate(streams):
                t = start_stream(i, ks)
                e.cfg.stop_when = lambda hh, t=t: t.done()
                e.stuck = False
                e.drive()
                if not t.done():
                    break
        v: list[Any] = []
        for si, rec in enumerate(recs):
            w: dict[str, Any] = {} if len(streams) == 1 else {"stream": "first" if si == 0 else "later", "concurrent": concurrent}
            t, out, arrivals, before_close = rec["task"], rec["out"], rec["arrivals"], rec["before_close"]
            if not t.done():
                v.append(("debounce_never_finishes", w, f"stuck={e.stuck} out={out} arrivals={arrivals}"))
            elif t.exception() is not None:
                v.append(("debounce_raises", w, repr(t.exception())))
            else:
                kf = (lambda x: x.key) if records else (lambda x: x)
                if sorted(map(id, out) if records else out) != sorted(map(id, arrivals) if records else arrivals) or len(arrivals) != len(rec["keys"]):
                    v.append(("item_lost_or_duplicated", w, f"arrived {arrivals}, yielded {out}"))
                else:
                    k = len(before_close)
                    ko, ka = [kf(x) for x in out], [kf(x) for x in arrivals]
                    ok = any(ko == sorted(ka[:m]) + ka[m:] for m in range(k, len(arrivals) + 1))
                    if not ok:
                        v.append(("later_item_before_sorted_burst", w,
                                  f"stream {si}: arrivals {arrivals} ({k} of them before the window closed), yielded {out}: not "
                                  f"sorted(burst)+rest for any burst containing the first {k} arrivals"))
        return {"out": [r["out"] for r in recs], "arrivals": [r["arrivals"] for r in recs], "k": [len(r["before_close"]) for r in recs],
                "_metrics": {"max_concurrency": e.h.max_gates}}, v


def programs(tier: str) -> list[Program]:
    q = tier == "quick"
    ps = []
    merges = [
        [[1, 2, 3]],
        [[1, 2], [1, 2]],
        [[1, 2, 3], [1]],
        [[1, "ERR", 3], [1, 2]],
        [[1], [1], [1]],
        [[1, 2], [1, "ERR"], [1]],
    ]
    if not q:
        merges += [[[1, 2, 3], [1, 2, 3]], [[1, 2], [1, 2], [1, 2]], [["ERR"], [1, 2, 3]]]
    for srcs in merges:
        for pair in (False, True):
            name = f"merge({srcs};pair={pair})"
            ps.append(Program(name, {"sources": srcs, "pair": pair},
                              (lambda ex, srcs=srcs, pair=pair: exec_merge(ex, srcs, pair)),
                              max_dev=(None if sum(len(s) for s in srcs) <= 4 and not pair else (3 if q else 5))))
    # the items themselves are the sources' values, one of them None (a legal item like any other)
    for srcs in ([[10, None, 12], [20, 21]], [[None, 11]], [[10, None]], [[10], [None, 21], [30]]):
        ps.append(Program(f"merge_raw({srcs})", {"sources": srcs, "raw": True}, (lambda ex, srcs=srcs: exec_merge(ex, srcs, False, raw=True)),
                          max_dev=(None if sum(len(s) for s in srcs) <= 4 else (3 if q else 5))))
    for keys in ([3, 1, 2], [2, 1], [5, 4, 3, 1]) + (() if q else ([1, 2, 3, 0], [9, 8, 7, 6, 5])):
        ps.append(Program(f"debounce(keys={keys})", {"keys": keys},
                          (lambda ex, keys=keys: exec_debounce(ex, keys, 1.0, 2.5)),
                          max_dev=(None if len(keys) <= 3 else (4 if q else 6))))
    # records sorted by a key, with equal keys in the burst (the records themselves cannot be compared)
    for keys in ([2, 2, 1], [3, 1, 3, 1]) + (() if q else ([1, 1, 1], [2, 1, 2, 1, 2])):
        ps.append(Program(f"debounce(records;keys={keys})", {"keys": keys, "records": True},
                          (lambda ex, keys=keys: exec_debounce(ex, keys, 1.0, 2.5, records=True)),
                          max_dev=(None if len(keys) <= 3 else (4 if q else 6))))
    # several streams in one process: one after the other, and overlapping
    for first, more, conc in (([2, 1], [[3, 1, 2]], False), ([2, 1], [[2, 1]], True)) + (() if q else (([3, 1, 2], [[2, 1], [3, 2, 1]], False),
                                                                                                    ([3, 1, 2], [[2, 1]], True))):
        ps.append(Program(f"debounce(keys={first};then={more};concurrent={conc})", {"keys": first, "more": more, "concurrent": conc},
                          (lambda ex, first=first, more=more, conc=conc: exec_debounce(ex, first, 1.0, 2.5, more, conc)),
                          max_dev=(4 if q else 6)))
    return ps


RULE = ("merge_generators over 1-3 sources with <=3 items each and an optional failing source x all release orders, "
        "simultaneous completions and all iteration orders of the done set; debounced_sorted_prefix over 2-5 items "
        "released at explorer-chosen points relative to the debounce / max-window timers (including the same loop "
        "iteration as the window closing, both orders), also records with equal keys that cannot be compared themselves, and two or three streams in one process, one after the other or overlapping; non-trivial = at least one deviation from the default schedule")
from vmc.tables import _ROUND7 as _R7  # noqa: E402

RULE += _R7["C29"]



def run(tier: str, seed: int) -> Any:
    return run_programs(PID, programs(tier), RULE, seed, assumptions=[
        "virtual clock (time.monotonic) - the module is re-loaded per execution while it is installed",
        "asyncio.wait's done set is iterated in an explorer-chosen order (set order is arbitrary in CPython)"])


def replay(rec: dict[str, Any]) -> tuple[bool, str]:
    return replay_program(programs("thorough"), rec)

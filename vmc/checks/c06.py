"""C06 - retry delays follow the wait strategy in documented (tenacity) order."""
from __future__ import annotations

import multiprocessing as mp
from typing import Any

from vmc.report import CheckResult, Violation
from vmc.retry_harness import run_failing
from workflows.retry_policy import (
    retry_policy, stop_after_attempt, wait_chain, wait_combine, wait_exponential, wait_exponential_jitter,
    wait_fixed, wait_incrementing, wait_random, wait_random_exponential,
)

PID = "C06"


# --- documented delay before the k-th retry (k = 1, 2, ..), tenacity semantics, written independently.
#     For jittered strategies: the deterministic lower bound.
def doc(term: Any, k: int) -> float:
    op = term[0]
    if op == "fixed":
        return float(term[1])
    if op == "exp":
        _, m, b, mx, mn = term
        try:
            raw = m * b ** (k - 1)
        except OverflowError:  # documented as saturating: the term is then "infinitely large", i.e. clamped to max
            raw = float("inf") if m > 0 else 0.0
        return max(max(0.0, mn), min(raw, mx))
    if op == "incr":
        _, s, i, mx = term
        return max(0.0, min(s + i * (k - 1), mx))
    if op == "random":
        return float(term[1])
    if op == "exp_jitter":
        _, init, b, mx, _j = term
        try:
            raw = init * b ** (k - 1)
        except OverflowError:
            raw = float("inf") if init > 0 else 0.0
        return min(raw, mx)
    if op == "rand_exp":
        _, m, b, mx, mn = term
        return float(mn)
    if op == "td":  # the same strategy configured with timedelta arguments
        return doc(term[1], k)
    if op == "chain":
        subs = term[1]
        return doc(subs[min(k, len(subs)) - 1], k)
    if op in ("combine", "plus", "sumlist", "nested"):
        return sum(doc(t, k) for t in term[1])
    raise ValueError(op)


def build(term: Any) -> Any:
    op = term[0]
    if op == "td":
        from datetime import timedelta

        t = term[1]
        td = lambda x: timedelta(seconds=x)  # noqa: E731
        if t[0] == "fixed":
            return wait_fixed(td(t[1]))
        if t[0] == "exp":
            return wait_exponential(multiplier=t[1], exp_base=t[2], max=td(t[3]), min=td(t[4]))
        if t[0] == "incr":
            return wait_incrementing(start=td(t[1]), increment=td(t[2]), max=td(t[3]))
        if t[0] == "random":
            return wait_random(min=td(t[1]), max=td(t[2]))
        if t[0] == "rand_exp":
            return wait_random_exponential(multiplier=t[1], exp_base=t[2], max=td(t[3]), min=td(t[4]))
        raise ValueError(t[0])
    if op == "fixed":
        return wait_fixed(term[1])
    if op == "exp":
        return wait_exponential(multiplier=term[1], exp_base=term[2], max=term[3], min=term[4])
    if op == "incr":
        return wait_incrementing(start=term[1], increment=term[2], max=term[3])
    if op == "random":
        return wait_random(min=term[1], max=term[2])
    if op == "exp_jitter":
        return wait_exponential_jitter(initial=term[1], exp_base=term[2], max=term[3], jitter=term[4])
    if op == "rand_exp":
        return wait_random_exponential(multiplier=term[1], exp_base=term[2], max=term[3], min=term[4])
    if op == "chain":
        return wait_chain(*[build(t) for t in term[1]])
    if op == "combine":
        return wait_combine(*[build(t) for t in term[1]])
    if op == "plus":  # a + b + c ...
        import functools
        import operator

        return functools.reduce(operator.add, [build(t) for t in term[1]])
    if op == "sumlist":  # sum([a, b, c])
        return sum([build(t) for t in term[1]])
    if op == "nested":  # wait_combine(wait_combine(a, b), c, ...)
        parts = [build(t) for t in term[1]]
        return wait_combine(wait_combine(*parts[:2]), *parts[2:])
    raise ValueError(op)


def shape(term: Any) -> str:
    """coarse, stable description used in violation witnesses"""
    op = term[0]
    if op == "exp":
        return "exp(base<1)" if term[2] < 1 else "exp(base>=1)"
    if op == "incr":
        return "incr(negative)" if term[2] < 0 else "incr(non-negative)"
    if op == "exp_jitter":
        return "exp_jitter(base<1)" if term[2] < 1 else "exp_jitter(base>=1)"
    if op == "td":
        return "timedelta:" + shape(term[1])
    if op == "chain":
        ds = [doc(t, 1) for t in term[1]]
        return "chain(decreasing)" if any(a > b for a, b in zip(ds, ds[1:])) else "chain(non-decreasing)"
    if op in ("combine", "plus", "sumlist", "nested"):
        return "combine(" + "+".join(sorted({shape(t) for t in term[1]})) + ")" + ("" if op == "combine" else f"[{op},{len(term[1])} terms]")
    return op


def strategies(tier: str) -> list[Any]:
    q = tier == "quick"
    out: list[Any] = []
    for w in (0, 0.5, 3):
        out.append(("fixed", w))
    for m in (0.5, 1.0, 3.0):
        for b in ((0.5, 1.0, 2.0) if q else (0.25, 0.5, 1.0, 2.0, 3.0)):
            for mx in (4.0, 60.0):
                for mn in (0.0, 1.5):
                    out.append(("exp", m, b, mx, mn))
    for s in (0.0, 2.0, 5.0):
        for i in ((-1.0, 0.0, 1.5) if q else (-2.0, -1.0, 0.0, 1.5, 3.0)):
            for mx in (3.0, 100.0):
                out.append(("incr", s, i, mx))
    out += [("random", 0.5, 1.5), ("random", 0.0, 1.0), ("random", 2.0, 2.0)]
    for b in (0.5, 2.0):
        for j in (0.0, 1.0):
            out.append(("exp_jitter", 1.0, b, 8.0, j))
    out += [("rand_exp", 1.0, 2.0, 8.0, 0.0), ("rand_exp", 1.0, 2.0, 8.0, 0.5)]
    # a floor above the cap (e.g. min=90 with the default max=60 left untouched): documented as "the floor wins"
    out += [("exp", 1.0, 2.0, 4.0, 6.0), ("exp", 0.5, 2.0, 1.0, 1.5), ("rand_exp", 1.0, 2.0, 4.0, 6.0)]
    # a base so large that the exponential term leaves the float range within a few retries (documented: it saturates)
    out += [("exp", 1.0, 1e155, 0.75, 0.0), ("exp", 2.0, 1e200, 1.5, 0.25), ("exp_jitter", 1.0, 1e155, 0.75, 0.0)]
    fx = [("fixed", 5), ("fixed", 1), ("fixed", 3)]
    import itertools

    for n in (1, 2, 3):
        for perm in itertools.permutations(fx, n):
            out.append(("chain", list(perm)))
    out.append(("chain", [("fixed", 2), ("exp", 1.0, 2.0, 60.0, 0.0)]))
    out.append(("chain", [("incr", 1.0, 1.0, 100.0), ("fixed", 0.5)]))
    out.append(("combine", [("fixed", 1), ("exp", 1.0, 2.0, 60.0, 0.0)]))
    out.append(("combine", [("fixed", 1), ("random", 0.5, 1.0)]))
    out.append(("combine", [("chain", [("fixed", 5), ("fixed", 1)]), ("fixed", 0.5)]))
    # sums of three and more terms, written the ways a user writes them
    for op in ("plus", "sumlist", "nested"):
        out.append((op, [("fixed", 1), ("fixed", 0.5), ("fixed", 0.25)]))
        out.append((op, [("fixed", 0.5), ("incr", 1.0, 1.0, 100.0), ("exp", 1.0, 2.0, 60.0, 0.0), ("fixed", 0.25)]))
    # timedelta arguments: whole seconds, a sub-second part, more than a day
    for w in (2, 0.35, 1.5, 86402):
        out.append(("td", ("fixed", w)))
    out.append(("td", ("exp", 1.0, 2.0, 4.5, 0.75)))
    out.append(("td", ("incr", 0.5, 0.25, 3.5)))
    out.append(("td", ("incr", 1.5, 86400.0, 90000.0)))
    out.append(("td", ("random", 0.5, 1.5)))
    out.append(("td", ("rand_exp", 1.0, 2.0, 8.0, 0.5)))
    out.append(("chain", [("td", ("fixed", 0.25)), ("td", ("fixed", 1.75))]))
    out.append(("combine", [("td", ("fixed", 0.25)), ("fixed", 0.15)]))
    return out


def check_case(case: dict[str, Any]) -> tuple[dict[str, Any], list[Any]]:
    term, retries = case["wait"], case["retries"]
    pol = retry_policy(wait=build(term), stop=stop_after_attempt(retries + 1))
    obs = run_failing(pol, lambda i: RuntimeError(f"fail{i}"), dur=case.get("dur", 0.25),
                      busy_block=case.get("busy_block", 0.0), max_actions=400, lag=case.get("lag", 0.0))
    v = []
    w = {"strategy": shape(term)}
    if case.get("lag"):
        w["loop_reaches_the_failure_late"] = True
    if case.get("busy_block"):
        w["retry_queued_behind_busy_worker"] = True
    if obs.stuck or obs.capped or len(obs.attempts) != retries + 1:
        v.append(("retry_count", w, f"{case}: {len(obs.attempts)} executions, expected {retries + 1} "
                                     f"(stuck={obs.stuck} capped={obs.capped})"))
        return {"n": len(obs.attempts)}, v
    gaps = []
    for k in range(1, retries + 1):
        gap = obs.attempts[k].t_enter - obs.attempts[k - 1].t_fail
        gaps.append(round(gap, 6))
        want = doc(term, k)
        if gap < want - 1e-6:
            # root-cause context: is the delay the one the strategy documents for the NEXT retry (the recorded defect: the engine
            # evaluates every strategy one step ahead)?  An early retry that is not even that is something else.
            one_ahead = gap >= doc(term, k + 1) - 1e-6
            v.append(("retry_starts_before_documented_delay", {**w, "retry": ("first" if k == 1 else "later"), "delay_is_the_next_retrys": one_ahead},
                      f"wait={term}: retry {k} started {gap:.6f}s after failure {k}, documented delay >= {want:.6f}s"))
    return {"gaps": gaps, "doc": [round(doc(term, k), 6) for k in range(1, retries + 1)]}, v


def _work(case: dict[str, Any]) -> Any:
    o, v = check_case(case)
    return case, o, v


RULE = ("every listed wait strategy instance (fixed, exponential incl. exp_base<1 / min / caps, incrementing incl. "
        "negative increment, random, exponential jitter, random exponential, wait_chain of 1-3 strategies in all "
        "orders, wait_combine, strategies configured with timedelta arguments incl. sub-second and multi-day values) x 1..4 retries; a real failing step runs on the virtual clock and the gap "
        "t_start(k+1) - t_fail(k) is compared with the tenacity-documented delay (lower bound for jittered ones); "
        "also when each retry comes due while the step's only worker is busy, and when the loop reaches each failure late "
        "(it was busy when the step failed); non-trivial = the documented delays of the case are not all equal")
from vmc.tables import _ROUND6 as _R6  # noqa: E402

RULE += _R6["C06"]
from vmc.tables import _ROUND7 as _R7  # noqa: E402

RULE += _R7["C06"]



def run(tier: str, seed: int) -> CheckResult:
    cs = [{"wait": t, "retries": r} for t in strategies(tier) for r in ((1, 2, 4) if tier == "quick" else (1, 2, 3, 4, 6))]
    # the retry comes due while the step's only worker is busy (it waits in the step queue): the *next* delay must
    # still be the documented one for that retry number.  The blocker holds the worker for 0.75 s, shorter than most
    # delays of the growing strategies, so later gaps are decided by the strategy again.
    cs += [{"wait": t, "retries": r, "busy_block": bb} for t in strategies(tier) for r in (3,) + (() if tier == "quick" else (5,))
           for bb in (0.75, 250.0)]
    # the loop gets to the failure late (it was busy when the step failed): the retry is still not earlier than the documented
    # delay after the failure
    cs += [{"wait": t, "retries": r, "lag": lag} for t in strategies(tier) if t[0] in ("fixed", "incr", "random", "td", "combine", "chain", "plus", "sumlist", "nested")
           for r in ((2,) if tier == "quick" else (2, 4)) for lag in ((0.4,) if tier == "quick" else (0.1, 0.4, 5.0))]
    res = CheckResult(PID, RULE)
    with mp.get_context("fork").Pool(16) as pool:
        results = pool.map(_work, cs, chunksize=8)
    nontriv = set()
    for case, o, v in results:
        res.evaluations += 1
        res.transitions += case["retries"] + 1
        if len(set(o.get("doc", []))) > 1:
            nontriv.add(repr(case))
        for clause, w, d in v:
            res.add_violation(Violation(clause, w, d, {"case": case}))
        if len(res.samples) < 5 and len(set(o.get("doc", []))) > 1:
            res.samples.append({"case": case, "observed": o})
    res.distinct_nontrivial = len(nontriv)
    res.states = res.evaluations
    res.traces_validated = res.evaluations
    res.exhaustive = True
    res.extra = {"strategy_instances": len(strategies(tier))}
    res.assumptions = ["virtual clock; the retry wake-up fires exactly at its deadline (the earliest possible start)",
                       "documented delay = tenacity formulas restated independently; jittered strategies use their "
                       "deterministic lower bound", "jitter seeds derive from the fixed run_id 'retry-run'"]
    return res


def replay(rec: dict[str, Any]) -> tuple[bool, str]:
    def tup(x: Any) -> Any:
        if isinstance(x, list) and x and isinstance(x[0], str):
            return tuple(tup(i) for i in x)
        if isinstance(x, list):
            return [tup(i) for i in x]
        return x

    case = {"wait": tup(rec["case"]["wait"]), "retries": rec["case"]["retries"]}
    o, v = check_case(case)
    return (not v), f"case={case}\nobserved={o}\n" + "\n".join(f"VIOLATED {c} {w}: {d}" for c, w, d in v)

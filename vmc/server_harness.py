"""Harness for the server stack (C13-C15, C26, C36): the real
ServerRuntimeDecorator(IdleReleaseDecorator(PersistenceDecorator(BasicRuntime))) + _WorkflowService over a real store,
driven on a VLoop.  uvicorn / starlette are not needed: the service layer is called directly.
"""
from __future__ import annotations

import os
import shutil
import tempfile
import time
from datetime import datetime
from typing import Any

from vmc import bootstrap

bootstrap.setup(("llama_agents.server",))

import logging  # noqa: E402

logging.getLogger("llama_agents").setLevel(logging.CRITICAL)
logging.getLogger("workflows").setLevel(logging.CRITICAL)

from vmc import engine  # noqa: E402,F401  (runner capture + monitor hooks)
from llama_agents.server import _service as service_mod  # noqa: E402
from llama_agents.server._runtime import idle_release_runtime, persistence_runtime, server_runtime  # noqa: E402
from llama_agents.server._store import abstract_workflow_store, memory_workflow_store  # noqa: E402
from llama_agents.server._store.memory_workflow_store import MemoryWorkflowStore  # noqa: E402
from llama_agents.server._store.sqlite.sqlite_workflow_store import SqliteWorkflowStore  # noqa: E402
from workflows.plugins.basic import BasicRuntime  # noqa: E402


class VDateTime(datetime):
    """datetime whose now() follows the (virtual) time.time()"""

    @classmethod
    def now(cls, tz: Any = None) -> "VDateTime":  # type: ignore[override]
        return cls.fromtimestamp(time.time(), tz)


for _m in (idle_release_runtime, abstract_workflow_store, memory_workflow_store, server_runtime):
    if hasattr(_m, "datetime"):
        _m.datetime = VDateTime  # type: ignore[attr-defined]

_counter = {"n": 0}


def _nanoid() -> str:
    _counter["n"] += 1
    return f"run{_counter['n']}"


service_mod.nanoid = _nanoid  # deterministic run ids


class Stack:
    """one 'server process': runtime stack + service over a (surviving) store"""

    def __init__(self, store: Any, idle_timeout: float = 60.0, backoff: list[float] | None = None, wrap_basic: Any = None) -> None:
        self.store = store
        basic: Any = BasicRuntime()
        if wrap_basic is not None:
            basic = wrap_basic(basic)
        self.persistence = persistence_runtime.PersistenceDecorator(basic, store=store)
        self.idle = idle_release_runtime.IdleReleaseDecorator(self.persistence, store=store, idle_timeout=idle_timeout)
        self.runtime = server_runtime.ServerRuntimeDecorator(self.idle, store=store, persistence_backoff=backoff if backoff is not None else [0.5, 3])
        self.service = service_mod._WorkflowService(runtime=self.runtime, store=store)
        self.workflows: dict[str, Any] = {}

    def add_workflow(self, name: str, wf: Any) -> None:
        wf._switch_workflow_name(name)
        wf._switch_runtime(self.runtime)
        self.workflows[name] = wf


_DIR: dict[str, Any] = {}


def fresh_sqlite_path() -> str:
    if "d" not in _DIR:
        _DIR["d"] = tempfile.mkdtemp(prefix="vmc-srv-", dir="/dev/shm" if os.path.isdir("/dev/shm") else None)
        import atexit

        atexit.register(shutil.rmtree, _DIR["d"], True)
        _DIR["tpl"] = os.path.join(_DIR["d"], f"tpl-{os.getpid()}.db")
        SqliteWorkflowStore(_DIR["tpl"])
    path = os.path.join(_DIR["d"], f"w-{os.getpid()}.db")
    for suffix in ("", "-wal", "-shm"):
        try:
            os.unlink(path + suffix)
        except FileNotFoundError:
            pass
    shutil.copyfile(_DIR["tpl"], path)
    return path


def make_store(backend: str, path: str | None = None) -> Any:
    if backend == "memory":
        return MemoryWorkflowStore()
    return SqliteWorkflowStore(path or fresh_sqlite_path(), poll_interval=1.0, auto_migrate=False)


def reset_ids() -> None:
    _counter["n"] = 0


class Crash(KeyboardInterrupt):
    """Raised from inside the store at the chosen persistence point.  KeyboardInterrupt subclass: asyncio re-raises it
    out of Task.__step and Handle._run, so VLoop.drain() stops at once - nothing else of that 'process' runs."""


class CrashControl:
    def __init__(self, crash_at: int | None) -> None:
        self.crash_at = crash_at
        self.count = 0
        self.crashed = False
        self.orig: Any = None

    def arm(self, store: Any) -> None:
        self.orig = store.append_tick

        async def append_tick(run_id: str, tick_data: dict[str, Any]) -> None:
            await self.orig(run_id, tick_data)
            self.count += 1
            if self.crash_at is not None and self.count == self.crash_at and not self.crashed:
                self.crashed = True
                raise Crash()

        store.append_tick = append_tick

    def disarm(self, store: Any) -> None:
        if self.orig is not None:
            store.append_tick = self.orig


GRAVEYARD: list[Any] = []  # abandoned loops / tasks are kept alive until the next execution starts (no GC-time finalizers mid-run)


def bury(loop: Any) -> None:
    import asyncio

    GRAVEYARD.append((loop, list(asyncio.all_tasks(loop))))


def clear_graveyard() -> None:
    """Let the abandoned tasks of the previous execution be finalized now, quietly (their coroutines are closed by the
    GC; anything they print at that point is noise from a 'process' that no longer exists)."""
    import gc
    import sys

    if not GRAVEYARD:
        return
    hook = sys.unraisablehook
    sys.unraisablehook = lambda *a, **k: None
    lg = logging.getLogger("asyncio")
    lvl = lg.level
    lg.setLevel(logging.CRITICAL + 1)
    try:
        GRAVEYARD.clear()
        gc.collect()
    finally:
        sys.unraisablehook = hook
        lg.setLevel(lvl)


def make_yielding(store: Any, only_run_queries: bool = True, ticks: bool = False) -> Any:
    """Model a network-backed store (Postgres, agent-data): ``query`` really suspends.  The read happens first (a
    snapshot of the row), then the coroutine waits at a harness gate before it returns - so other tasks can run
    between a component's read of the handler row and whatever it does next.  Gates are released by the explorer;
    the default choice (oldest gate first) reproduces the non-yielding behaviour."""
    from vmc.engine import gate

    orig_query = store.query

    async def query(q: Any) -> Any:
        res = await orig_query(q)
        if not only_run_queries or getattr(q, "run_id_in", None):
            import copy

            res = [copy.deepcopy(h) for h in res]  # a row snapshot, not the live object the memory store hands out
            await gate("store.query")
        return res

    store.query = query
    if ticks:
        # reading the tick log suspends as well: the first page is read, then the reader waits at a gate
        orig_stream = store.stream_ticks

        async def stream_ticks(run_id: str) -> Any:
            first = True
            async for t in orig_stream(run_id):
                if first:
                    first = False
                    await gate("store.ticks")
                yield t

        store.stream_ticks = stream_ticks
    return store

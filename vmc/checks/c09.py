"""C09 - collect_events returns each full set once without losing events."""
from __future__ import annotations

import itertools
from collections import Counter
from typing import Any

from vmc.checks.common import Program, replay_program, run_programs
from vmc.engine import BasicRuntime, EngineExec, MonRuntime, RunConfig, gate, make_step, make_workflow
from vmc.events import A, B, C
from vmc.explore import Execution
from vmc.progs import ENGINE_ASSUMPTIONS
from workflows.events import StartEvent, StopEvent
from workflows.retry_policy import retry_policy, stop_after_attempt, wait_fixed

PID = "C09"
TYPES = {"A": A, "B": B, "C": C}


# ----------------------------------------------------------- sequential reference (list buffer)
def tokens(arrivals: list[tuple[str, int]]) -> list[tuple[str, str]]:
    """(type, label): value-equal arrivals (same type and uid) get distinct labels A1, A1', ..."""
    seen: Counter = Counter()
    out = []
    for t, uid in arrivals:
        out.append((t, f"{t}{uid}" + "'" * seen[(t, uid)]))
        seen[(t, uid)] += 1
    return out


def reference(expected: list[str], arrivals: list[tuple[str, Any]]) -> tuple[tuple[int, ...], ...]:
    if arrivals and isinstance(arrivals[0][1], int):
        arrivals = tokens(arrivals)  # type: ignore[arg-type]
    buf: list[tuple[str, Any]] = []
    out = []
    for ev in arrivals:
        remaining = Counter(expected) - Counter(t for t, _ in buf)
        if remaining == Counter([ev[0]]):
            pool = buf + [ev]
            lst = []
            for t in expected:
                i = next(i for i, x in enumerate(pool) if x[0] == t)
                x = pool.pop(i)
                lst.append(x[1])
            out.append(tuple(lst))
            buf = []
        elif ev[0] in remaining:
            buf.append(ev)
    return tuple(sorted(out))


def valid_outcomes(expected: list[str], arrivals: list[tuple[str, int]]) -> set[Any]:
    return {reference(expected, list(p)) for p in itertools.permutations(tokens(arrivals))}


# ------------------------------------------------------------------------------ the program
def execute(ex: Execution, expected: list[str], arrivals: list[tuple[str, int]], w: int,
            valid: set[Any], fail_once: bool = False, wait_after: bool = False, fail_first: bool = False,
            fault_when_none: tuple[str, str] | None = None) -> tuple[Any, list[Any]]:
    """``fault_when_none`` = (label, "fail" | "wait"): the invocation for that input, on its first attempt, calls
    collect_events, gets None, and then fails with a retryable error / suspends in wait_for_event (it does not complete)"""
    cfg = RunConfig()
    with EngineExec(ex, cfg) as e:
        h = e.h
        answered: set[str] = set()

        def answer_waiters(hh: Any) -> None:
            # the client answers a wait once it exists (an answer sent before the waiter is registered is dropped by design)
            if not hh.runners:
                return
            for ws in hh.runners[-1].state.workers.values():
                for wt in ws.collected_waiters:
                    if wt.waiter_id not in answered and wt.resolved_event is None:
                        answered.add(wt.waiter_id)
                        from vmc.engine import Action
                        from vmc.events import Resp

                        e.add_script([Action(f"answer {wt.waiter_id}", (lambda k=wt.waiter_id: hd.ctx.send_event(Resp(uid=900, key=k))))])

        if wait_after or (fault_when_none and fault_when_none[1] == "wait"):
            cfg.on_quiescent.append(answer_waiters)
        faulted: set[str] = set()
        returned: list[tuple[int, ...]] = []
        completion_order: list[tuple[str, int]] = []
        exp_types = [TYPES[t] for t in expected]
        acc = sorted({t for t in expected})

        evs = [TYPES[t](uid=uid) for t, uid in arrivals]
        label_of = {id(x): lab for x, (_, lab) in zip(evs, tokens(arrivals))}

        async def start(self, ctx, ev, inv):  # noqa: ANN001
            for x in evs:
                ctx.send_event(x)
            return None

        def _ids(d: Any) -> Any:
            return {k: [id(x) for x in v] for k, v in d.items() if v}

        async def coll(self, ctx, ev, inv):  # noqa: ANN001
            # root-cause context: does this (re)started invocation see the step's buffer as it is right now?
            ws = h.runners[-1].state.workers["coll"]
            ip = next((x for x in ws.in_progress if x.event is ev), None)
            inv.info["buffer_current_at_start"] = ip is None or _ids(ip.shared_state.collected_events) == _ids(ws.collected_events)
            await gate(f"c{label_of.get(id(ev), type(ev).__name__ + str(ev.uid))}")
            inv.info["retry_number"] = inv.retry.retry_number
            if fail_first and inv.retry.retry_number == 0:
                raise RuntimeError("the first attempt of every input fails before it collects; the retry collects")
            r = ctx.collect_events(ev, exp_types)
            lab = label_of.get(id(ev), "?")
            if r is None and fault_when_none and fault_when_none[0] == lab and lab not in faulted:
                faulted.add(lab)
                if fault_when_none[1] == "fail":
                    raise RuntimeError("fails after collect_events gave None; the retry collects again")
                from vmc.events import Resp

                await ctx.wait_for_event(Resp, waiter_id="wn:" + lab, requirements={"key": "wn:" + lab}, timeout=None)
                r = ctx.collect_events(ev, exp_types)  # (the re-entered body collects again)
            if r is not None and wait_after:
                # the step that holds a full set suspends before it finishes (e.g. asks a human to confirm)
                from vmc.events import Resp

                wid = "w:" + label_of.get(id(ev), "?")
                await ctx.wait_for_event(Resp, waiter_id=wid, requirements={"key": wid}, timeout=None)
            if r is not None:
                inv.info["returned"] = tuple(label_of.get(id(x), f"{type(x).__name__}{x.uid}?copy") for x in r)
                inv.info["types"] = [type(x).__name__ for x in r]
                if fail_once and inv.retry.retry_number == 0:
                    raise RuntimeError("fails after collecting; the retry must get the same set again")
            return None

        cls = make_workflow("Collect", [
            make_step("start", [StartEvent], [TYPES[t] for t in acc] + [None], start),
            make_step("coll", [TYPES[t] for t in acc], [StopEvent, None], coll, num_workers=w,
                      retry_policy=(retry_policy(wait=wait_fixed(0), stop=stop_after_attempt(3)) if (fail_once or fail_first or fault_when_none) else None))])
        wf = cls(timeout=None, runtime=MonRuntime(BasicRuntime()))
        hd = wf.run(run_id="r1")
        e.consume_stream(hd)
        e.drive()  # ends when nothing is enabled any more (the run idles: there is no StopEvent)
        v: list[Any] = []
        wit = {"expected": "".join(expected), "workers": ("1" if w == 1 else ">1")}
        if fault_when_none:
            wit["after_collect_gave_none"] = fault_when_none[1]
        if wait_after:
            wit["waits_after_collecting"] = True
            wit["arrivals_beyond_one_set"] = len(arrivals) > len(expected)
        if len(set(arrivals)) < len(arrivals):
            wit["value_equal_arrivals"] = True
        # a list is really "returned" only when the invocation that computed it completed (its result tick
        # was processed); with stale-snapshot re-runs the same invocation is re-executed and only the last counts
        done_ticks = [t for t in h.ticks if getattr(t, "type", "") == "step_result" and t.step_name == "coll"]
        for inv in h.invocations:
            if inv.step == "coll" and inv.exited and inv.exc is None and "returned" in inv.info:
                returned.append(inv.info["returned"])
                if inv.info["types"] != expected:
                    v.append(("returned_list_wrong_shape", wit, f"returned types {inv.info['types']}, expected {expected}"))
        if hd.is_done():
            v.append(("run_failed", wit, f"run ended: {hd._result_task}"))
        if fail_once or fail_first:
            # a stale-snapshot re-run (and any other re-execution) continues the attempt it belongs to: per input the retry
            # numbers seen by the step never go backwards
            per_input: dict[str, list[int]] = {}
            for inv in h.invocations:
                if inv.step == "coll" and "retry_number" in inv.info:
                    per_input.setdefault(label_of.get(id(inv.ev), "?"), []).append(inv.info["retry_number"])
            for lab, seq in per_input.items():
                if any(b < a for a, b in zip(seq, seq[1:])):
                    v.append(("retry_number_goes_backwards_on_rerun", wit, f"input {lab}: retry numbers seen by the collecting step {seq}"))
        seen: Counter = Counter(u for lst in returned for u in lst)
        dup = sorted(u for u, n in seen.items() if n > 1)
        # did an invocation that returned a list start (or was it re-run) from a buffer that was already out of date?
        outdated = any(not inv.info.get("buffer_current_at_start", True) for inv in h.invocations
                       if inv.step == "coll" and inv.exited and inv.exc is None and "returned" in inv.info)
        wit = {**wit, "buffer_outdated_when_invocation_started": outdated}
        if dup:
            v.append(("event_in_two_returned_lists", wit, f"uids {dup} appear in more than one returned list: {returned}"))
        outcome = tuple(sorted(returned))
        if not dup and outcome not in valid:
            kind = "fewer_lists_than_any_serial_order" if len(outcome) < min(len(o) for o in valid) else "not_serializable"
            v.append(("lost_or_unserializable", {**wit, "kind": kind},
                      f"returned lists {outcome} match no serial order of arrivals {arrivals}; serial outcomes: {sorted(valid)}"))
        if w == 1 and not fail_once and outcome != reference(expected, arrivals):
            v.append(("sequential_semantics", wit, f"num_workers=1 returned {outcome}, list-buffer reference {reference(expected, arrivals)}"))
        obs = {"returned": outcome, "_metrics": {"max_concurrency": h.max_concurrency}}
        return obs, v


# ------------------------------------------------ a collector whose run is paused, resumed and looked at mid-run
def wf_collect_repeated() -> type:
    """expected [A, B, B, C] (a repeated type); the events arrive one by one from outside; the run ends with the set it returns"""
    async def start(self, ctx, ev, inv):  # noqa: ANN001
        return None

    async def coll(self, ctx, ev, inv):  # noqa: ANN001
        await gate(f"c{type(ev).__name__}{ev.uid}")
        r = ctx.collect_events(ev, [A, B, B, C])
        if r is None:
            return None
        inv.info["returned"] = tuple(f"{type(x).__name__}{x.uid}" for x in r)
        return StopEvent(result=list(inv.info["returned"]))

    return make_workflow("CollectRepeated", [make_step("start", [StartEvent], [A, B, C, None], start),
                                             make_step("coll", [A, B, C], [StopEvent, None], coll, num_workers=1)])


def _arrival_script(state: dict[str, Any]) -> list[list[Any]]:
    from vmc.engine import Action

    def send(t: str, uid: int) -> Any:
        return Action(f"send {t}{uid}", lambda: state["hd"].ctx.send_event(TYPES[t](uid=uid)))

    return [[send("A", 1), send("B", 1), send("C", 1), send("B", 2)]]


def _resumed_oracle() -> Any:
    from vmc.engine import task_outcome
    from vmc.progs import Oracle

    def final(h: Any, e: Any, state: dict[str, Any]) -> None:
        out = task_outcome(state["hd"]._result_task)
        w = {"expected": "ABBC", "workers": "1", "run_paused_and_resumed": bool(state.get("resumed")), "state_read_mid_run": bool(h.spec.peeks)}
        lists = [inv.info["returned"] for inv in h.invocations if inv.step == "coll" and inv.exited and inv.exc is None and "returned" in inv.info]
        want = ("A1", "B1", "B2", "C1")
        if out[0] != "result":
            h.violate("lost_or_unserializable", {**w, "kind": "fewer_lists_than_any_serial_order"}, f"run ended {out} (stuck={e.stuck}); returned lists {lists}")
        elif lists != [want]:
            dup = any(len(set(x)) < len(x) for x in lists)
            h.violate("event_in_two_returned_lists" if dup or len(lists) > 1 else "lost_or_unserializable",
                      {**w, "buffer_outdated_when_invocation_started": False} if dup or len(lists) > 1 else {**w, "kind": "not_serializable"},
                      f"arrivals A1 B1 C1 B2 for expected [A,B,B,C]: returned lists {lists}, the only serial outcome is {[want]}")

    return Oracle(final=final)


def programs(tier: str) -> list[Program]:
    q = tier == "quick"
    from vmc.progs import Spec, to_programs

    ps = to_programs([
        Spec("collect_repeated/resumed+peek", {"family": "collect_repeated"}, wf_collect_repeated, scripts=_arrival_script, resume=True, peeks=1,
             max_dev=(4 if q else 6)),
        Spec("collect_repeated/resumed_twice+peek", {"family": "collect_repeated"}, wf_collect_repeated, scripts=_arrival_script, resume=True,
             resume_count=2, peeks=2, max_dev=(3 if q else 5)),
    ], _resumed_oracle())
    cases = [
        (["A", "B"], [("A", 1), ("B", 1)]),
        (["A", "B"], [("A", 1), ("B", 1), ("B", 2)]),
        (["A", "B"], [("A", 1), ("B", 1), ("A", 2), ("B", 2)]),
        (["A", "A", "B"], [("A", 1), ("A", 2), ("B", 1)]),
        (["A", "A", "B"], [("A", 1), ("B", 1), ("A", 2), ("A", 3)]),
        (["A", "B", "C"], [("C", 1), ("A", 1), ("B", 1)]),
        (["A", "B", "C"], [("A", 1), ("B", 1), ("C", 1), ("A", 2)]),
        # a type that occurs twice with another type in between: the returned list is ordered as the EXPECTED list
        (["A", "B", "A"], [("A", 1), ("B", 1), ("A", 2)]),
        (["A", "B", "A"], [("A", 1), ("A", 2), ("B", 1)]),
        (["A", "B", "C", "B"], [("B", 1), ("A", 1), ("B", 2), ("C", 1)]),
        # value-equal events (same type, same fields) are still two events
        (["A", "A", "B"], [("A", 1), ("A", 1), ("B", 1)]),
        (["A", "A"], [("A", 1), ("A", 1), ("A", 1), ("A", 1)]),
        (["A", "A"], [("A", 1), ("A", 2), ("A", 3), ("A", 4)]),
    ]
    if not q:
        cases += [
            (["A", "B"], [("A", 1), ("B", 1), ("A", 2), ("B", 2), ("A", 3)]),
            (["A", "A", "B"], [("A", 1), ("A", 2), ("B", 1), ("A", 3), ("A", 4), ("B", 2)]),
            (["A", "B", "C"], [("A", 1), ("B", 1), ("C", 1), ("C", 2), ("B", 2), ("A", 2)]),
        ]
    for expected, arrivals in cases:
        valid = valid_outcomes(expected, arrivals)
        for w in ((1, 2, 3) if q else (1, 2, 3, 4)):
            if w > len(arrivals):
                continue
            name = f"collect({''.join(expected)};{''.join(t + str(u) for t, u in arrivals)};w={w})"
            ps.append(Program(name, {"expected": expected, "arrivals": arrivals, "w": w},
                              (lambda ex, expected=expected, arrivals=arrivals, w=w, valid=valid:
                               execute(ex, expected, arrivals, w, valid)),
                              max_dev=(None if len(arrivals) <= 4 else 4),
                              min_concurrency=min(w, len(arrivals))))
    # a slow invocation whose buffer snapshot ([A1]) is overtaken by a whole completed set and by a longer next round
    expected, arrivals = ["A", "B", "C"], [("A", 1), ("B", 0), ("B", 1), ("C", 0), ("A", 2), ("C", 2)]
    for w in ((2,) if q else (2, 3)):
        ps.append(Program(f"collect({''.join(expected)};{''.join(t + str(u) for t, u in arrivals)};w={w})",
                          {"expected": expected, "arrivals": arrivals, "w": w},
                          (lambda ex, expected=expected, arrivals=arrivals, w=w, valid=valid_outcomes(expected, arrivals):
                           execute(ex, expected, arrivals, w, valid)), max_dev=(4 if q else 6), min_concurrency=w))
    for w in (1, 2):
        for expected, arrivals in ((["A", "B"], [("A", 1), ("B", 1)]), (["A", "B"], [("A", 1), ("B", 1), ("A", 2), ("B", 2)]),
                                   (["A", "A", "B"], [("A", 1), ("A", 2), ("B", 1)])):
            if q and w == 2 and len(arrivals) == 4:
                continue
            ps.append(Program(f"collect_then_wait({''.join(expected)};{''.join(t + str(u) for t, u in arrivals)};w={w})",
                              {"expected": expected, "arrivals": arrivals, "w": w, "wait_after": True},
                              (lambda ex, expected=expected, arrivals=arrivals, w=w, valid=valid_outcomes(expected, arrivals):
                               execute(ex, expected, arrivals, w, valid, wait_after=True)),
                              max_dev=(3 if q else 5)))
    for w in (2, 3):
        expected, arrivals = ["A", "B"], [("A", 1), ("B", 1), ("A", 2), ("B", 2)]
        ps.append(Program(f"collect_fail_first(AB;w={w})", {"expected": expected, "arrivals": arrivals, "w": w, "fail_first": True},
                          (lambda ex, expected=expected, arrivals=arrivals, w=w, valid=valid_outcomes(expected, arrivals):
                           execute(ex, expected, arrivals, w, valid, fail_first=True)), max_dev=(4 if q else 6)))
    for w in (1, 2):
        expected, arrivals = ["A", "B"], [("A", 1), ("B", 1), ("A", 2), ("B", 2)]
        ps.append(Program(f"collect_fail_once(AB;w={w})", {"expected": expected, "arrivals": arrivals, "w": w, "fail_once": True},
                          (lambda ex, expected=expected, arrivals=arrivals, w=w, valid=valid_outcomes(expected, arrivals):
                           execute(ex, expected, arrivals, w, valid, fail_once=True))))
    # an invocation that got None from collect_events does not complete: it fails (and is retried) or suspends in a wait
    for how in ("fail", "wait"):
        for expected, arrivals, lab in ((["A", "B"], [("A", 1), ("B", 1)], "B1"), (["A", "B"], [("A", 1), ("B", 1)], "A1"),
                                        (["A", "A", "B"], [("A", 1), ("A", 2), ("B", 1)], "A2")):
            for w in ((2,) if q else (2, 3)):
                if w > len(arrivals):
                    continue
                ps.append(Program(f"collect_none_then_{how}({''.join(expected)};{''.join(t + str(u) for t, u in arrivals)};{lab};w={w})",
                                  {"expected": expected, "arrivals": arrivals, "w": w, "fault_when_none": [lab, how]},
                                  (lambda ex, expected=expected, arrivals=arrivals, w=w, lab=lab, how=how, valid=valid_outcomes(expected, arrivals):
                                   execute(ex, expected, arrivals, w, valid, fault_when_none=(lab, how))), max_dev=(4 if q else 6)))
    return ps


RULE = ("expected lists [A,B], [A,A,B], [A,B,C], [A,A] x arrival multisets with surplus events, value-equal events and two "
        "rounds x collector "
        "num_workers 1..3(4) x every order in which the collecting invocations complete (+ a collector that fails once and is "
        "retried, + one whose every first attempt fails before it collects, so that retries meet stale snapshots, + a collector that suspends in wait_for_event while it holds a full set); the multiset of returned "
        "lists must equal the list-buffer reference on some serial order of the same arrivals, no event may be in "
        "two lists; num_workers=1 runs bind the reference to the implementation; non-trivial = at least one "
        "schedule deviation")
from vmc.tables import _ROUND6 as _R6  # noqa: E402

RULE += _R6["C09"]
from vmc.tables import _ROUND7 as _R7  # noqa: E402

RULE += _R7["C09"]
from vmc.tables import _ROUND8 as _R8  # noqa: E402

RULE += _R8["C09"]



def run(tier: str, seed: int) -> Any:
    return run_programs(PID, programs(tier), RULE, seed, assumptions=ENGINE_ASSUMPTIONS + [
        "sequential collect_events semantics = list buffer (surplus events of an already satisfied type are dropped), "
        "validated against the implementation on every num_workers=1 program"])


def replay(rec: dict[str, Any]) -> tuple[bool, str]:
    return replay_program(programs("thorough"), rec)

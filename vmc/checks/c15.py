"""C15 - the server's handler record always reflects the run outcome.

Workflow outcomes {success, success racing another worker, step failure without / after retries, failure inside a
@catch_error handler, recovery by a handler, timeout, cancel at every quiescent point} run on the real server stack
over MemoryWorkflowStore / SqliteWorkflowStore, with transient store write failures injected at explorer-chosen
handler-status writes (<= 2, inside the [0.5, 3] s backoff budget) and all schedules within the deviation bound.
Every status ever written is logged; the final record is compared with how the run task actually ended.
"""
from __future__ import annotations

from typing import Any

from vmc import server_harness as sh
from vmc.checks.common import Program, replay_program, run_programs
from vmc.engine import Action, EngineExec, MonRuntime, RunConfig, gate, make_step, make_workflow, task_outcome
from vmc.events import A, B, Work
from vmc.explore import Execution
from llama_agents.server._store.abstract_workflow_store import HandlerQuery
from workflows import catch_error
from workflows.errors import WorkflowCancelledByUser, WorkflowTimeoutError
from workflows.events import StartEvent, StepFailedEvent, StopEvent
from workflows.retry_policy import retry_policy, stop_after_attempt, wait_fixed

PID = "C15"


def wf_ok() -> Any:
    async def s1(self, ctx, ev, inv):  # noqa: ANN001
        await gate("s1")
        return A(uid=1)

    async def s2(self, ctx, ev, inv):  # noqa: ANN001
        await gate("s2")
        return StopEvent(result="ok")

    return make_workflow("Ok", [make_step("s1", [StartEvent], [A], s1), make_step("s2", [A], [StopEvent], s2)])


def wf_race() -> Any:
    async def start(self, ctx, ev, inv):  # noqa: ANN001
        ctx.send_event(Work(uid=1))
        ctx.send_event(Work(uid=2))
        return None

    async def work(self, ctx, ev, inv):  # noqa: ANN001
        await gate(f"work{ev.uid}")
        return StopEvent(result=f"first:{ev.uid}")

    return make_workflow("Race", [make_step("start", [StartEvent], [Work, None], start), make_step("work", [Work], [StopEvent], work, num_workers=2)])


def wf_fail(retries: int) -> Any:
    async def s1(self, ctx, ev, inv):  # noqa: ANN001
        await gate(f"s1.{ctx.retry_info().retry_number}")
        raise ValueError("boom")

    pol = retry_policy(wait=wait_fixed(0), stop=stop_after_attempt(retries + 1)) if retries else None
    return make_workflow("Fail", [make_step("s1", [StartEvent], [StopEvent], s1, retry_policy=pol)])


def wf_handler(handler_fails: bool) -> Any:
    async def s1(self, ctx, ev, inv):  # noqa: ANN001
        await gate("s1")
        raise ValueError("boom")

    async def s2(self, ctx, ev, inv):  # noqa: ANN001
        return StopEvent(result="unreached")

    async def on_err(self, ctx, ev, inv):  # noqa: ANN001
        await gate("on_err")
        if handler_fails:
            raise RuntimeError("handler boom")
        return StopEvent(result="recovered")

    return make_workflow("Handler", [make_step("s1", [StartEvent], [A], s1), make_step("s2", [A], [StopEvent], s2),
                                     make_step("on_err", [StepFailedEvent], [StopEvent], on_err, decorator=catch_error)])


def wf_unserializable() -> Any:
    """engine-side failure: a step hands on an event that cannot be written to the tick log (a payload JSON cannot hold)"""
    async def s1(self, ctx, ev, inv):  # noqa: ANN001
        await gate("s1")
        return A(uid=1, payload={1, 2, 3}, blob=b"\xff\xfe")

    async def s2(self, ctx, ev, inv):  # noqa: ANN001
        await gate("s2")
        return StopEvent(result="ok")

    return make_workflow("Unser", [make_step("s1", [StartEvent], [A], s1), make_step("s2", [A], [StopEvent], s2)])


PROGRAMS: dict[str, dict[str, Any]] = {
    "ok": {"make": wf_ok, "timeout": None, "cancel": False},
    "race": {"make": wf_race, "timeout": None, "cancel": False},
    "fail": {"make": lambda: wf_fail(0), "timeout": None, "cancel": False},
    "fail_after_retries": {"make": lambda: wf_fail(2), "timeout": None, "cancel": False},
    "handler_recovers": {"make": lambda: wf_handler(False), "timeout": None, "cancel": False},
    "handler_fails": {"make": lambda: wf_handler(True), "timeout": None, "cancel": False},
    "timeout": {"make": wf_ok, "timeout": 5.0, "cancel": False},
    "cancel": {"make": wf_ok, "timeout": None, "cancel": True},
    "cancel_vs_timeout": {"make": wf_ok, "timeout": 5.0, "cancel": True},
    "engine_failure_unserializable_event": {"make": wf_unserializable, "timeout": None, "cancel": False},
}
TERMINAL = ("completed", "failed", "cancelled")


def execute(ex: Execution, pname: str, backend: str, max_faults: int, fault_events: bool = False) -> tuple[Any, list[Any]]:
    prog = PROGRAMS[pname]
    sh.clear_graveyard()
    sh.reset_ids()
    store = sh.make_store(backend)
    v: list[Any] = []
    status_log: list[str] = []
    faults = {"left": max_faults, "consecutive": 0, "injected": 0}
    cfg = RunConfig(max_actions=80, allow_time=True)
    with EngineExec(ex, cfg) as e:
        orig_update = store.update

        async def update(handler: Any) -> None:
            # a status write: the explorer decides whether this attempt fails (transient fault inside the retry budget)
            if faults["left"] > 0 and faults["consecutive"] < 2:
                if ex.choose(2, "store_write", ["ok", "fails"]) == 1:
                    faults["left"] -= 1
                    faults["consecutive"] += 1
                    faults["injected"] += 1
                    import inspect

                    callers = [f.function for f in inspect.stack()[1:8]]
                    faults.setdefault("where", []).append("idle_bookkeeping" if any("write_to_event_stream" in c for c in callers) and
                                                          not any(c == "_retry_store_write" for c in callers) else
                                                          "retried_status_write" if any(c == "_retry_store_write" for c in callers) else "other")
                    raise OSError("transient store failure")
            faults["consecutive"] = 0
            await orig_update(handler)
            status_log.append(handler.status)

        store.update = update
        orig_append_event = store.append_event

        async def append_event(run_id: str, event: Any) -> None:
            # an event-log write of the run: same transient-fault choice
            if fault_events and faults["left"] > 0 and faults["consecutive"] < 2:
                if ex.choose(2, "event_write", ["ok", "fails"]) == 1:
                    faults["left"] -= 1
                    faults["consecutive"] += 1
                    faults["injected"] += 1
                    faults.setdefault("where", []).append("event_log_write")
                    raise OSError("transient store failure")
            faults["consecutive"] = 0
            await orig_append_event(run_id, event)

        store.append_event = append_event
        stack = sh.Stack(store, idle_timeout=10_000.0, wrap_basic=MonRuntime)
        wf = prog["make"]()(timeout=prog["timeout"])
        stack.add_workflow("wf", wf)
        runs: list[Any] = []
        orig_run = wf.run

        def run(*a: Any, **k: Any) -> Any:
            hd = orig_run(*a, **k)
            runs.append(hd)
            return hd

        wf.run = run  # type: ignore[method-assign]
        boot_err: list[Any] = []

        async def boot() -> None:
            try:
                await stack.service.start()
                await stack.service.start_workflow(wf, "h1", StartEvent())
            except Exception as x:  # noqa: BLE001
                boot_err.append(x)

        e.loop.create_task(boot())
        if prog["cancel"]:
            e.add_script([Action("cancel_handler", lambda: e.loop.create_task(stack.service.cancel_handler("h1")))])

        def only_idle_timer_left(h: Any) -> bool:
            # the idle-release timer (10000 s away) is not part of this property: stop once the run has ended
            return bool(runs) and runs[0].is_done() and not h.pending_gates() and all(p >= len(s) for p, s in zip(h.script_pos, h.scripts)) \
                and not any(d < 5000 for d in e.loop.timer_deadlines())

        cfg.stop_when = only_idle_timer_left
        # idle release (timer 10000 s away) belongs to C26 / C36, not to this property: that timer never fires here
        cfg.time_filter = lambda h: bool(e.loop.timer_deadlines()) and e.loop.timer_deadlines()[0] < 5000
        e.drive()
        # ---- observation
        async def q() -> Any:
            hs = await store.query(HandlerQuery(handler_id_in=["h1"]))
            return hs[0] if hs else None
        t = e.loop.create_task(q())
        e.loop.drain()
        h = t.result()
        out = task_outcome(runs[0]._result_task) if runs else ("never_started", boot_err[:1])
        w = {"program": pname, "store_faults": faults["injected"], "fault_sites": sorted(set(faults.get("where", [])))}
        desc = f"[{backend}] {pname} faults={faults['injected']} schedule {ex.labels}: run ended {out[0]} {out[1]!r}; handler status={getattr(h, 'status', None)} " \
               f"result={getattr(getattr(h, 'result', None), 'result', None)!r} error={getattr(h, 'error', None)!r}; statuses written {status_log}"
        if boot_err:
            v.append(("start_workflow_failed", {**w, "exc": type(boot_err[0]).__name__}, f"{desc}: start raised {boot_err[0]!r}"))
        # a terminal status is never changed back to running
        seen_terminal = False
        for s in status_log:
            if s in TERMINAL:
                seen_terminal = True
            elif seen_terminal:
                v.append(("terminal_status_changed_back_to_running", w, desc))
                break
        if runs and out[0] != "pending" and h is not None:
            if out[0] == "result":
                want = "completed"
            elif out[0] == "exception" and isinstance(out[1], WorkflowCancelledByUser):
                want = "cancelled"
            elif out[0] == "cancelled":
                want = "cancelled"
            else:
                want = "failed"
            if h.status == "running":
                v.append(("handler_stays_running_after_run_ended", {**w, "run_ended": want}, desc))
            elif h.status != want:
                v.append(("handler_status_does_not_match_outcome", {**w, "run_ended": want, "status": h.status}, desc))
            elif want == "completed" and (h.result is None or h.result.result != getattr(out[1], "result", out[1])):
                v.append(("handler_result_does_not_match", w, desc))
            elif want == "failed" and not h.error:
                v.append(("failed_handler_without_error", w, desc))
        elif runs and out[0] == "pending" and (e.stuck or True):
            # the run never ended within the horizon
            if not e.capped:
                v.append(("run_never_ends", w, desc))
        obs = {"outcome": out[0], "status": getattr(h, "status", None), "faults": faults["injected"], "_metrics": {"max_concurrency": e.h.max_gates}}
        return obs, v


def execute_cancel_released(ex: Execution, backend: str, stack_kind: str = "in_process") -> tuple[Any, list[Any]]:
    """A run that waits for an event goes idle and (at the explorer's choice) is released from memory; the client cancels the
    handler before or after that.  If cancel_handler reports 'cancelled' the stored handler must say so."""
    from vmc import idle_harness as ih

    sh.clear_graveyard()
    sh.reset_ids()
    ih.reset()
    store = sh.make_store(backend)
    v: list[Any] = []
    cfg = RunConfig(max_actions=40, allow_time=True)
    lifecycle_db = None
    if stack_kind == "dbos":
        import sqlite3

        import dbos as dbos_standin

        lifecycle_db = sh.fresh_sqlite_path()
        c = sqlite3.connect(lifecycle_db)
        c.executescript(ih.lifecycle_ddl())
        c.commit()
        c.close()
        dbos_standin.DBOS._reset()
    with EngineExec(ex, cfg) as e:
        if stack_kind == "dbos":
            stack: Any = ih.DbosStack(store, lifecycle_db, 5.0)
            dbos_standin.DBOS.delete_workflow_async = classmethod(stack._delete)  # type: ignore[method-assign,assignment]
        else:
            stack = sh.Stack(store, idle_timeout=5.0, wrap_basic=MonRuntime)
        wf = ih.wf_wait(1)(timeout=None)
        stack.add_workflow("wf", wf)

        async def boot() -> None:
            await stack.service.start()
            await stack.service.start_workflow(wf, "h1", StartEvent())
            if stack_kind == "dbos":
                await stack.lock.create("run1")  # (never done by the repository: C36's recorded finding)

        e.loop.create_task(boot())
        cancels: list[Any] = []

        def do_cancel(with_timer: str = "") -> None:
            if cancels:
                return  # (one cancel request per execution)
            if with_timer == "before" and e.loop.has_timers():
                e.loop.fire_timers(0)
            cancels.append(e.loop.create_task(stack.service.cancel_handler("h1")))
            if with_timer == "after" and e.loop.has_timers():
                e.loop.fire_timers(0)

        e.add_script([Action("cancel_handler", do_cancel)])
        # the cancel request and the idle-release timer in the same loop iteration, in both orders
        e.add_script([Action("idle timer fires + cancel_handler (same loop iteration)", lambda: do_cancel("before"))])
        e.add_script([Action("cancel_handler + idle timer fires (same loop iteration)", lambda: do_cancel("after"))])
        cfg.time_filter = lambda h: bool(e.loop.timer_deadlines()) and e.loop.timer_deadlines()[0] - e.loop.vt < 1000
        e.drive()

        async def q() -> Any:
            hs = await store.query(HandlerQuery(handler_id_in=["h1"]))
            return hs[0] if hs else None
        t = e.loop.create_task(q())
        e.loop.drain()
        h = t.result()
        released = bool(ih.RELEASES) if stack_kind != "dbos" else ih.lifecycle_state(lifecycle_db) in ("released", "releasing") or any(
            td.get("type") == "idle_release" for td in ih.tick_types(e.loop, store))
        w = {"program": "cancel_waiting_run", "released_before_cancel": released, "stack": stack_kind}
        desc = f"[{backend}] waiting run, idle_timeout=5, schedule {ex.labels}: released={released}"
        if cancels:
            out = task_outcome(cancels[0])
            if out[0] == "pending":
                v.append(("cancel_handler_never_returns", w, f"{desc}: cancel_handler still pending"))
            elif out[0] == "exception":
                v.append(("cancel_handler_raises", {**w, "exc": type(out[1]).__name__}, f"{desc}: cancel_handler raised {out[1]!r}"))
            elif out[1] == "cancelled" and getattr(h, "status", None) != "cancelled":
                v.append(("handler_status_does_not_match_outcome" if getattr(h, "status", None) != "running" else "handler_stays_running_after_run_ended",
                          {**w, "run_ended": "cancelled"},
                          f"{desc}: cancel_handler returned 'cancelled' but the stored handler has status={getattr(h, 'status', None)!r}"))
        obs = {"status": getattr(h, "status", None), "released": released, "cancelled": bool(cancels), "_metrics": {"max_concurrency": 1}}
        return obs, v


def wf_wait_then_unserializable() -> Any:
    from vmc.events import Ask, Resp

    async def ask(self, ctx, ev, inv):  # noqa: ANN001
        await ctx.wait_for_event(Resp, waiter_id="w1", waiter_event=Ask(uid=1))
        await gate("ask")
        return A(uid=1, payload={1, 2, 3}, blob=b"\xff\xfe")

    async def s2(self, ctx, ev, inv):  # noqa: ANN001
        return StopEvent(result="ok")

    return make_workflow("WaitUnser", [make_step("ask", [StartEvent], [A], ask), make_step("s2", [A], [StopEvent], s2)])


def execute_engine_failure_after_reentry(ex: Execution, backend: str, how: str) -> tuple[Any, list[Any]]:
    """The engine-side failure of ``engine_failure_unserializable_event`` (the run dies without a terminal event) hits a run
    that was brought back - reloaded on demand after an idle release (``idle_reload``: a waiting run is answered before or
    after it was released) or resumed by a restarted server (``restart``) - instead of a freshly started one."""
    from vmc import idle_harness as ih
    from vmc.events import Resp
    from vmc.loop import VLoop
    from llama_agents.server._store.sqlite.sqlite_workflow_store import SqliteWorkflowStore

    sh.clear_graveyard()
    sh.reset_ids()
    ih.reset()
    path = sh.fresh_sqlite_path() if backend == "sqlite" else None
    store = sh.make_store(backend, path)
    v: list[Any] = []
    runs: list[Any] = []

    def track(wf: Any) -> None:
        orig_run = wf.run

        def run(*a: Any, **k: Any) -> Any:
            hd = orig_run(*a, **k)
            runs.append(hd)
            return hd

        wf.run = run  # type: ignore[method-assign]

    def judge(loop: Any, st: Any, e: Any, reentered: str) -> None:
        async def q() -> Any:
            hs = await st.query(HandlerQuery(handler_id_in=["h1"]))
            return hs[0] if hs else None
        t = loop.create_task(q())
        loop.drain()
        h = t.result()
        if not runs:
            return
        out = task_outcome(runs[-1]._result_task)
        w = {"program": "engine_failure_after_reentry", "reentered_by": reentered, "incarnations": min(len(runs), 2)}
        desc = (f"[{backend}] {how} schedule {ex.labels}: incarnation {len(runs)} of the run ended {out[0]} {out[1]!r}; handler "
                f"status={getattr(h, 'status', None)} error={getattr(h, 'error', None)!r}")
        if out[0] == "exception" and not isinstance(out[1], WorkflowCancelledByUser):
            if getattr(h, "status", None) == "running":
                v.append(("handler_stays_running_after_run_ended", {**w, "run_ended": "failed"}, desc))
            elif getattr(h, "status", None) != "failed":
                v.append(("handler_status_does_not_match_outcome", {**w, "run_ended": "failed", "status": getattr(h, "status", None)}, desc))
            elif not h.error:
                v.append(("failed_handler_without_error", w, desc))

    if how == "idle_reload":
        cfg = RunConfig(max_actions=40, allow_time=True)
        with EngineExec(ex, cfg) as e:
            stack = sh.Stack(store, idle_timeout=5.0, wrap_basic=MonRuntime)
            wf = wf_wait_then_unserializable()(timeout=None)
            track(wf)
            stack.add_workflow("wf", wf)

            async def boot() -> None:
                await stack.service.start()
                await stack.service.start_workflow(wf, "h1", StartEvent())

            e.loop.create_task(boot())
            st = {"added": False}

            def on_q(h: Any) -> None:
                # the client answers once the run waits (before or after the idle release, the explorer decides)
                if not st["added"] and h.runners and any(ws.collected_waiters for ws in h.runners[-1].state.workers.values()):
                    st["added"] = True
                    e.add_script([Action("send Resp", lambda: e.loop.create_task(stack.service.send_event("h1", Resp(uid=1, key="k"))))])

            cfg.on_quiescent.append(on_q)
            cfg.time_filter = lambda h: bool(e.loop.timer_deadlines()) and e.loop.timer_deadlines()[0] - e.loop.vt < 1000
            e.drive()
            judge(e.loop, store, e, "idle_reload" if ih.RELEASES else "none")
            obs = {"released": bool(ih.RELEASES), "incarnations": len(runs), "_metrics": {"max_concurrency": 1}}
        return obs, v
    # ---- restart: the first process stops while s1 is running; the resumed run dies engine-side
    crash_at = 1 + ex.choose(2, "process_stop", ["after_tick_1", "after_tick_2"])
    ctl = sh.CrashControl(crash_at)
    e = EngineExec(ex, RunConfig(max_actions=40, allow_time=False))
    e.__enter__()
    crashed = False
    try:
        try:
            ctl.arm(store)
            stack = sh.Stack(store, idle_timeout=10_000.0, wrap_basic=MonRuntime)
            wf = wf_unserializable()(timeout=None)
            stack.add_workflow("wf", wf)

            async def boot1() -> None:
                await stack.service.start()
                await stack.service.start_workflow(wf, "h1", StartEvent())

            e.loop.create_task(boot1())
            e.drive()
        except sh.Crash:
            crashed = True
        vt = e.loop.vt
    finally:
        if crashed:
            sh.bury(e.loop)
            e.abandon()
        else:
            e.__exit__(None, None, None)
    if not crashed:
        return {"skipped": True, "_metrics": {"max_concurrency": 1}}, []
    ctl.disarm(store)
    store2 = store if backend == "memory" else SqliteWorkflowStore(path, poll_interval=1.0, auto_migrate=False)
    loop2 = VLoop()
    loop2.vt = vt
    cfg2 = RunConfig(max_actions=40, allow_time=True)
    with EngineExec(ex, cfg2, loop=loop2) as e2:
        stack2 = sh.Stack(store2, idle_timeout=10_000.0, wrap_basic=MonRuntime)
        wf2 = wf_unserializable()(timeout=None)
        track(wf2)
        stack2.add_workflow("wf", wf2)
        e2.loop.create_task(stack2.service.start())
        cfg2.time_filter = lambda h: bool(e2.loop.timer_deadlines()) and e2.loop.timer_deadlines()[0] - e2.loop.vt < 1000
        e2.drive()
        judge(loop2, store2, e2, "restart")
        obs = {"incarnations": len(runs), "_metrics": {"max_concurrency": 2}}
    return obs, v


def programs(tier: str) -> list[Program]:
    ps: list[Program] = []
    q = tier == "quick"
    for backend in ("memory", "sqlite"):
        for how in ("idle_reload", "restart"):
            ps.append(Program(f"engine_failure_after_reentry/{how}/{backend}", {"program": "engine_failure_after_reentry", "how": how, "backend": backend},
                              (lambda ex, backend=backend, how=how: execute_engine_failure_after_reentry(ex, backend, how)),
                              max_dev=(4 if q else None)))
    for pname in PROGRAMS:
        for backend in ("memory", "sqlite"):
            for mf in (0, 1, 2):
                if q and backend == "sqlite" and mf == 2:
                    continue
                ps.append(Program(f"{pname}/{backend}/faults<={mf}", {"program": pname, "backend": backend, "max_faults": mf},
                                  (lambda ex, pname=pname, backend=backend, mf=mf: execute(ex, pname, backend, mf)),
                                  max_dev=(2 if q else 4) + mf))
    # three separate, individually recovered faults in one server lifetime (each write has its own retry budget)
    for pname in ("ok", "fail"):
        ps.append(Program(f"{pname}/sqlite/faults<=3", {"program": pname, "backend": "sqlite", "max_faults": 3},
                          (lambda ex, pname=pname: execute(ex, pname, "sqlite", 3)), max_dev=(5 if q else 7)))
    # transient failures of event-log writes (append_event) as well
    for pname in ("ok", "fail", "cancel"):
        for mf in (1, 2):
            ps.append(Program(f"{pname}/memory/event_write_faults<={mf}", {"program": pname, "backend": "memory", "max_faults": mf, "events": True},
                              (lambda ex, pname=pname, mf=mf: execute(ex, pname, "memory", mf, True)), max_dev=(2 if q else 3) + mf))
    for backend in ("memory", "sqlite"):
        ps.append(Program(f"cancel_waiting_run/{backend}", {"program": "cancel_waiting_run", "backend": backend},
                          (lambda ex, backend=backend: execute_cancel_released(ex, backend))))
    ps.append(Program("cancel_waiting_run/dbos", {"program": "cancel_waiting_run", "stack": "dbos"},
                      (lambda ex: execute_cancel_released(ex, "memory", "dbos"))))
    # a restarted server over a store whose reads suspend: the client's answer reloads the run on demand while the start-up pass is
    # still replaying it - the record must end as the run ends (C13's driver, judged on the handler record)
    from vmc.checks import c13 as _c13

    for backend in (("memory",) if q else ("memory", "sqlite")):
        for k in ((2, 3) if q else range(1, 8)):
            ps.append(Program(f"restart_vs_on_demand_reload/{backend}/network_store/stop_after_tick_{k:02d}",
                              {"program": "restart_vs_on_demand_reload", "backend": backend, "crash_at": k},
                              (lambda ex, backend=backend, k=k: _c13.execute(ex, "wait_busy_answer_after_restart", backend, k, network=True)),
                              max_dev=(4 if q else 5)))
    return ps


RULE = ("9 outcome programs (success, two workers racing to stop, step failure without / after retries, @catch_error handler that "
        "recovers / fails itself, workflow timeout, cancel_handler at every quiescent point, cancel racing the timeout) on the real "
        "server stack over MemoryWorkflowStore and SqliteWorkflowStore x 0-2 transient failures of handler-status writes at "
        "explorer-chosen attempts (inside the [0.5, 3] s backoff budget) x all schedules within the deviation bound incl. timer "
        "firings; every status written is logged (terminal never followed by running) and the final handler record is compared with "
        "how the run task actually ended; plus a waiting run cancelled before / after its idle release (in-process and DBOS halves), and an "
        "engine-side failure (unserializable step output: the run dies without a terminal event) of a fresh run, of a run reloaded "
        "after an idle release and of a run resumed by a restarted server; non-trivial = at least one deviation or injected fault")
from vmc.tables import _ROUND7 as _R7  # noqa: E402

RULE += _R7["C15"]



def run(tier: str, seed: int) -> Any:
    return run_programs(PID, programs(tier), RULE, seed, assumptions=[
        "store faults are injected on handler-record writes (AbstractWorkflowStore.update), at most 2 consecutive: what "
        "ServerRuntimeDecorator._retry_store_write is documented to absorb",
        "the run outcome is read from the engine's own result task of the run started by _WorkflowService.start_workflow",
        "async steps; virtual clock"])


def replay(rec: dict[str, Any]) -> tuple[bool, str]:
    return replay_program(programs("thorough"), rec)

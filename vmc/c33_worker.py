"""C33 worker - runs under /root/miniconda/bin/python (the only interpreter with ``cryptography``).

Imports the repository's backup.archive / backup.encryption from the working tree (package aggregator bypassed),
borrows /venv's pure-python ``yaml`` package through a one-entry path directory, enumerates the whole case space
and prints one JSON document.
"""
from __future__ import annotations

import itertools
from typing import Any
import json
import os
import sys
import tempfile

HERE = os.path.dirname(os.path.dirname(os.path.abspath(__file__)))
sys.path.insert(0, HERE)
sys.dont_write_bytecode = True


def _borrow_yaml() -> str:
    d = tempfile.mkdtemp(prefix="vmc-c33-yaml-")
    src = "/venv/lib/python3.12/site-packages/yaml"
    os.symlink(src, os.path.join(d, "yaml"))
    sys.path.append(d)
    return d


def main() -> int:
    tier = sys.argv[1] if len(sys.argv) > 1 else "quick"
    ydir = _borrow_yaml()
    try:
        from vmc import bootstrap

        bootstrap.setup(("llama_agents.control_plane",))
        from llama_agents.control_plane.backup import archive, encryption

        real_iters = encryption.PBKDF2_ITERATIONS
        encryption.PBKDF2_ITERATIONS = 1000  # breadth; a few cases run at the real cost below

        names = ["a", "app", "app-2"]
        tricky = {"PLAIN": "value", "yes": "yes", "NUM": "0123", "NULL": "null", "MULTI": "line1\nline2\n", "UNI": "pä☃ß", "EMPTY": "",
                  "COLON": "a: b", "DASH": "- x", "HASH": "#c", "LEAD": " lead", "TRAIL": "trail ", "TILDE": "~", "FLOAT": "1e3", "HEX": "0x10",
                  "TRUE": "true", "SEXA": "12:30", "DATE": "2001-01-01", "QUOTE": "'q' \"d\"", "MERGE": "<<", "on": "off", "1": "1", "TAB": "a\tb",
                  "PCT": "%TAG", "AMP": "&a *a", "BANG": "!!str x", "LONG": "x" * 300}
        secret_opts = [("absent", None), ("empty", {}), ("tricky", tricky)]
        gen_opts = [("absent", None), ("zero", 0), ("seven", 7)]
        passwords = [None, "correct horse", "pä☃ßword", " "]
        if tier != "quick":
            passwords += ["x" * 200, "p\nq"]

        def cr(name: str, i: int) -> dict:
            return {"apiVersion": "deploy.llamaindex.ai/v1", "kind": "LlamaDeployment",
                    "metadata": {"name": name, "namespace": "ns", "labels": {"yes": "no", "n": "0123"}, "annotations": {"k": "multi\nline"}},
                    "spec": {"repoUrl": "https://x/y.git", "replicas": i, "flag": True, "none": None, "list": [1, "two", {"three": 3.5}],
                             "text": "a: b\n#c", "nested": {"on": "off", "empty": {}, "elist": []}}}

        out = {"evaluations": 0, "nontrivial": 0, "violations": [], "samples": []}

        def viol(clause: str, witness: dict, detail: str) -> None:
            sig = json.dumps([clause, witness], sort_keys=True)
            if all(json.dumps([v[0], v[1]], sort_keys=True) != sig for v in out["violations"]):
                out["violations"].append([clause, witness, detail])

        for k in range(0, len(names) + 1):
            for subset in itertools.combinations(names, k):
                per = [list(itertools.product(secret_opts, gen_opts)) for _ in subset]
                for combo in itertools.product(*per):
                    deployments = [cr(n, i) for i, n in enumerate(subset)]
                    secrets = {n: json.loads(json.dumps(s[1])) for n, (s, g) in zip(subset, combo) if s[1] is not None}
                    gens = {n: g[1] for n, (s, g) in zip(subset, combo) if g[1] is not None}
                    for pw in passwords:
                        if tier == "quick" and len(subset) == 3 and pw not in (None, "correct horse"):
                            continue
                        out["evaluations"] += 1
                        w = {"encrypted": pw is not None, "deployments": len(subset)}
                        desc = f"names={subset} secrets={[s[0] for s, g in combo]} generations={[g[0] for s, g in combo]} password={pw!r}"
                        try:
                            data = archive.create_backup_archive(json.loads(json.dumps(deployments)), secrets, "ns", "2026-01-01T00:00:00Z",
                                                                 encryption_password=pw, generations=(gens or None))
                            back = archive.read_backup_archive(data, encryption_password=pw)
                        except Exception as e:  # noqa: BLE001
                            viol("backup_round_trip_raises", {**w, "exc": type(e).__name__}, f"{desc}: {type(e).__name__}: {e}")
                            continue
                        if subset:
                            out["nontrivial"] += 1
                        got = {e.name: e for e in back.entries}
                        if sorted(got) != sorted(subset):
                            viol("deployment_names_differ", w, f"{desc}: restored names {sorted(got)}")
                            continue
                        for n, d in zip(subset, deployments):
                            e = got[n]
                            if e.cr != d:
                                viol("deployment_resource_differs", w, f"{desc}: {n}: {e.cr} != {d}")
                            if e.secret != secrets.get(n):
                                diff = None
                                if isinstance(e.secret, dict) and isinstance(secrets.get(n), dict):
                                    diff = {kk: (e.secret.get(kk), vv) for kk, vv in secrets[n].items() if e.secret.get(kk) != vv}
                                viol("secret_differs", {**w, "kind": ("empty_map" if secrets.get(n) == {} else "absent" if n not in secrets else "values")},
                                     f"{desc}: {n}: restored secret {str(e.secret)[:200]} expected {str(secrets.get(n))[:200]} diff={diff}")
                            if e.generation != gens.get(n):
                                viol("generation_differs", {**w, "expected": gens.get(n)}, f"{desc}: {n}: generation {e.generation} expected {gens.get(n)}")
                        m = back.manifest
                        if (m.deployment_count, m.encrypted, m.namespace) != (len(subset), pw is not None, "ns"):
                            viol("manifest_differs", w, f"{desc}: manifest {m}")
                        # a different password must not read encrypted secrets
                        if pw is not None and secrets:
                            for wrong in ("other", pw + "x", pw.upper() if pw.upper() != pw else pw + " ", None):
                                out["evaluations"] += 1
                                try:
                                    b2 = archive.read_backup_archive(data, encryption_password=wrong)
                                except Exception:  # noqa: BLE001
                                    continue
                                leaked = {e.name: e.secret for e in b2.entries if e.secret}
                                viol("encrypted_secrets_read_with_other_password", {"wrong_password_is_none": wrong is None},
                                     f"{desc}: read with password {wrong!r} returned secrets {str(leaked)[:120]}")
                            if len(out["samples"]) < 3:
                                out["samples"].append({"names": list(subset), "password": pw, "archive_bytes": len(data)})
        # secrets and resources at the size limit of a cluster object (1 MiB of data; the stored file is a little larger)
        MIB = 1024 * 1024
        for size in (MIB - 4096, MIB - 20, MIB):
            for where in ("secret", "resource"):
                for pw in (None, "correct horse"):
                    out["evaluations"] += 1
                    out["nontrivial"] += 1
                    blob = ("0123456789abcdef" * (size // 16 + 1))[:size]
                    d = cr("app", 1)
                    sec = {"app": {"SMALL": "v"}}
                    if where == "secret":
                        sec["app"]["BLOB"] = blob
                    else:
                        d["spec"]["text"] = blob
                    w = {"encrypted": pw is not None, "deployments": 1, "large": where}
                    desc = f"one deployment, {where} holding {size} bytes, password={pw!r}"
                    try:
                        data = archive.create_backup_archive([json.loads(json.dumps(d))], json.loads(json.dumps(sec)), "ns", "t",
                                                             encryption_password=pw, generations={"app": 3})
                        back = archive.read_backup_archive(data, encryption_password=pw)
                    except Exception as e:  # noqa: BLE001
                        viol("backup_round_trip_raises", {**w, "exc": type(e).__name__}, f"{desc}: {type(e).__name__}: {e}")
                        continue
                    got = {e.name: e for e in back.entries}
                    if sorted(got) != ["app"]:
                        viol("deployment_names_differ", w, f"{desc}: restored names {sorted(got)}")
                        continue
                    e = got["app"]
                    if e.cr != d:
                        viol("deployment_resource_differs", w, f"{desc}: restored resource differs")
                    if e.secret != sec["app"]:
                        viol("secret_differs", {**w, "kind": "values"}, f"{desc}: restored secret keys {sorted(e.secret) if isinstance(e.secret, dict) else e.secret}")
                    if e.generation != 3:
                        viol("generation_differs", {**w, "expected": 3}, f"{desc}: generation {e.generation}")
        # the random bytes of the encrypted wire format ([salt][nonce][ciphertext+tag]) are an environment answer: every value of
        # the blob's FIRST byte (salt[0]) is forced, and a deterministic nonce counter is run until every value of the blob's
        # LAST byte (the end of the GCM tag) has occurred - whatever bytes sit at either end, the secret must come back
        class _OwnedOS:
            def __init__(self, real: Any) -> None:
                self._real, self.salt0, self.counter = real, 0, 0

            def urandom(self, n: int) -> bytes:
                if n == encryption.SALT_LENGTH:
                    return bytes([self.salt0]) + b"\x5a" * (n - 1)
                return self.counter.to_bytes(n, "big")

            def __getattr__(self, k: str) -> Any:
                return getattr(self._real, k)

        real_os = encryption.os
        owned = _OwnedOS(real_os)
        encryption.os = owned  # type: ignore[assignment]
        try:
            last_seen: set[int] = set()
            sec = {"app": {"K": "v", "MULTI": "line1\nline2\n"}}

            def one(desc: str, w: dict) -> None:
                out["evaluations"] += 1
                out["nontrivial"] += 1
                try:
                    data = archive.create_backup_archive([cr("app", 1)], json.loads(json.dumps(sec)), "ns", "t", encryption_password="pw", generations={"app": 1})
                    back = archive.read_backup_archive(data, encryption_password="pw")
                except Exception as e:  # noqa: BLE001
                    viol("backup_round_trip_raises", {**w, "exc": type(e).__name__}, f"{desc}: {type(e).__name__}: {e}")
                    return
                e0 = next((e for e in back.entries if e.name == "app"), None)
                if e0 is None or e0.secret != sec["app"]:
                    viol("secret_differs", {**w, "kind": "values"}, f"{desc}: restored secret {getattr(e0, 'secret', None)}")

            for b in range(256):
                owned.salt0, owned.counter = b, 1
                one(f"encrypted blob whose first byte (salt[0]) is 0x{b:02x}", {"encrypted": True, "deployments": 1, "blob_edge": "first_byte"})
            owned.salt0 = 0x5A
            import tarfile as _tar
            import io as _io

            c = 0
            while len(last_seen) < 256 and c < 6000:
                c += 1
                owned.counter = c
                blob = encryption.encrypt(b"K: v\n", "pw")
                if blob[-1] in last_seen:
                    continue
                last_seen.add(blob[-1])
                # the same nonce / salt give the same blob end only for the same plaintext: run the archive round trip with this
                # counter and check which last byte its secret member really has
                data = archive.create_backup_archive([cr("app", 1)], json.loads(json.dumps(sec)), "ns", "t", encryption_password="pw", generations={"app": 1})
                with _tar.open(fileobj=_io.BytesIO(data), mode="r:gz") as tf:
                    ends = [tf.extractfile(m).read()[-1] for m in tf.getmembers() if m.name.endswith(".secret.enc")]
                owned.counter = c
                one(f"encrypted blob whose last byte (end of the GCM tag) is 0x{ends[0]:02x}" if ends else "encrypted blob", {"encrypted": True, "deployments": 1, "blob_edge": "last_byte"})
            out["blob_first_bytes_covered"] = 256
            out["blob_last_bytes_tried"] = c
        finally:
            encryption.os = real_os  # type: ignore[assignment]
        # a few cases at the real KDF cost
        encryption.PBKDF2_ITERATIONS = real_iters
        for pw in ("correct horse", "pä☃ßword"):
            out["evaluations"] += 2
            data = archive.create_backup_archive([cr("app", 1)], {"app": dict(tricky)}, "ns", "t", encryption_password=pw, generations={"app": 0})
            back = archive.read_backup_archive(data, encryption_password=pw)
            if back.entries[0].secret != tricky or back.entries[0].generation != 0:
                viol("secret_differs", {"encrypted": True, "deployments": 1, "kind": "values", "real_kdf": True}, f"real-cost KDF round trip differs for {pw!r}")
            try:
                archive.read_backup_archive(data, encryption_password=pw + "!")
                viol("encrypted_secrets_read_with_other_password", {"wrong_password_is_none": False, "real_kdf": True}, f"real-cost KDF: wrong password accepted for {pw!r}")
            except Exception:  # noqa: BLE001
                pass
        out["kdf_iterations_real"] = real_iters
        print("C33-RESULT " + json.dumps(out))
        return 0
    finally:
        import shutil

        shutil.rmtree(ydir, ignore_errors=True)


if __name__ == "__main__":
    sys.exit(main())

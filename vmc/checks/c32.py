"""C32 - generated deployment ids are valid DNS-1035 labels.

The functions find_deployment_id / _append_random_suffix are loaded as an AST slice of the CURRENT k8s_client.py
(the module itself needs kubernetes) and executed with scripted environment answers: every display name of length
<= 4 over 10 character classes plus length-edge families, x suffix draws x availability answers x force_suffix.
"""
from __future__ import annotations

import ast
import itertools
import re
from typing import Any

from vmc import bootstrap

bootstrap.setup()

from vmc.checks.grid import run_grid  # noqa: E402

PID = "C32"
DNS = re.compile(r"^[a-z]([a-z0-9-]{0,61}[a-z0-9])?$")
SRC = "packages/llama-agents-control-plane/src/llama_agents/control_plane/k8s_client.py"
CLASSES = ["a", "B", "1", "-", "_", " ", "é", "İ", "ß", "漢"]
DRAWS = ["00000", "abcde", "1a2b3", "fffff"]
AVAIL = [[True], [False, True], [False, False, True]]


class FakeRandom:
    def __init__(self, draw: str) -> None:
        self.draw = draw
        self.calls = 0

    def choices(self, population: str, k: int = 1, **kw: Any) -> list[str]:
        self.calls += 1
        d = (self.draw * ((k // len(self.draw)) + 1))[:k]
        assert all(c in population for c in d)
        return list(d)

    def choice(self, population: str) -> str:
        return population[0]


_NS: dict[str, Any] = {}


def load() -> dict[str, Any]:
    if _NS:
        return _NS["ns"]
    src = open(bootstrap.src(SRC)).read()
    tree = ast.parse(src)
    wanted = {"find_deployment_id", "_append_random_suffix"}
    body = [n for n in tree.body if isinstance(n, (ast.FunctionDef, ast.AsyncFunctionDef)) and n.name in wanted]
    if {n.name for n in body} != wanted:
        raise RuntimeError(f"functions not found in {SRC}")
    mod = ast.Module(body=body, type_ignores=[])
    code = compile(mod, SRC, "exec")
    ns: dict[str, Any] = {"re": re}
    exec(code, ns)  # noqa: S102
    _NS["ns"] = ns  # the functions' globals: environment answers are bound here per call
    return ns


def call(name: str, draw: str, avail: list[bool], force: bool) -> tuple[Any, int]:
    ns = load()
    rnd = FakeRandom(draw)
    answers = list(avail)
    asked: list[str] = []

    async def validate_deployment_id(did: str) -> bool:
        asked.append(did)
        return answers.pop(0) if answers else True

    ns["random"] = rnd
    ns["validate_deployment_id"] = validate_deployment_id
    coro = ns["find_deployment_id"](name, force_suffix=force)
    try:
        coro.send(None)
    except StopIteration as s:
        return s.value, rnd.calls
    coro.close()
    raise RuntimeError("find_deployment_id suspended")


def alnums(name: str) -> str:
    return "".join(c for c in name.lower() if c in "abcdefghijklmnopqrstuvwxyz0123456789")


def check(name: str, draw: str, avail: list[bool], force: bool) -> list[Any]:
    v: list[Any] = []
    an = alnums(name)
    shape = {"alnum_count": min(len(an), 3), "leading_digit": bool(an) and an[0].isdigit(), "non_ascii": any(ord(c) > 127 for c in name),
             "long": len(name) > 50}
    desc = f"find_deployment_id({name!r}, force_suffix={force}) draws={draw!r} availability={avail}"
    try:
        did, _ = call(name, draw, avail, force)
    except Exception as e:  # noqa: BLE001
        return [("id_generation_raises", {**shape, "exc": type(e).__name__}, f"{desc}: {type(e).__name__}: {e}")]
    if not isinstance(did, str) or not DNS.match(did) or len(did) > 63:
        v.append(("not_a_dns_1035_label", shape, f"{desc} -> {did!r}"))
        return v
    suffix = (draw * 2)[:5]
    has_suffix = did.endswith("-" + suffix) or (len(did) == 5 and did[1:] == suffix[1:])
    must_suffix = len(an) < 3 or force or avail[0] is False
    if must_suffix and not has_suffix:
        why = "fewer_than_3_alphanumerics" if len(an) < 3 else ("force_suffix" if force else "id_taken")
        v.append(("random_suffix_missing", {**shape, "why": why}, f"{desc} -> {did!r} carries no random suffix ({why})"))
    if len(an) >= 3:
        core = did[: -(len(suffix) + 1)] if has_suffix and did.endswith("-" + suffix) else did
        if not must_suffix and has_suffix and did != core:
            # a suffix although nothing required it: allowed only if the derived id happens to end that way
            pass
        stripped = core.replace("-", "")
        cand = [an, "d" + an] if an[0].isdigit() else [an]
        if not any(c.startswith(stripped) and len(stripped) >= min(3, len(c)) for c in cand):
            v.append(("id_not_derived_from_name_alphanumerics", shape,
                      f"{desc} -> {did!r}: its characters {stripped!r} are not a prefix of the name's lowercase alphanumerics {cand}"))
    return v


def names(tier: str) -> list[str]:
    out = [""]
    maxlen = 4 if tier != "quick" else 3
    for k in range(1, maxlen + 1):
        out += ["".join(p) for p in itertools.product(CLASSES, repeat=k)]
    if tier == "quick":
        out += ["".join(p) for p in itertools.product(["a", "1", "-", "é", "İ"], repeat=4)]
    # length edges: cuts at 63 / 57 with hyphens and non-alphanumerics around the cut
    for n in range(54, 70):
        out.append("a" * n)
        out.append("a" * (n - 1) + "-")
        out.append("a" * (n - 2) + "-b")
        out.append("1" + "a" * (n - 1))
        out.append("a" * (n - 3) + "é b")
        out.append("ab-" * (n // 3))
        out.append("-" * 5 + "a" * n)
    out += ["My Service", "test", "  x  ", "İstanbul Trafik", "ısı pompası", "Waſſer Stand", "K", "ΩΩΩ", "a" * 200, "-" * 80, "1" * 80, "9lives",
            "_a_", "a\tb\nc", "A--B__C  D", "é" * 10 + "abc", "abc" + "é" * 70, "ǅungla", "ﬁne", "Ⅻ2"]
    return out


def work(case: Any) -> Any:
    tier, i, step = case
    ns = names(tier)[i:i + step]
    v: list[Any] = []
    n = 0
    nontriv = 0
    for name in ns:
        for draw in DRAWS:
            for avail in AVAIL:
                for force in (False, True):
                    n += 1
                    vv = check(name, draw, avail, force)
                    v += vv
        if any(ord(c) > 127 for c in name) or len(alnums(name)) < 3 or len(name) > 50:
            nontriv += len(DRAWS) * len(AVAIL) * 2
    seen = set()
    out = []
    for c, w, d in v:
        key = (c, repr(sorted(w.items())))
        if key not in seen:
            seen.add(key)
            out.append((c, w, d, None))
    return n, nontriv, out, ({"names": ns[:3], "calls": n} if i == 0 else None)


RULE = ("every display name of length <= 3 (quick; plus length 4 over 5 classes) / <= 4 (thorough) over 10 character classes (lower, "
        "upper, digit, '-', '_', space, é, İ, ß, CJK) plus 112 length-edge names (54..69 chars, hyphen / non-alphanumerics at the cut) "
        "and 20 hand-picked Unicode names x 4 scripted suffix draws x 3 availability answer sequences x force_suffix on/off, executed on "
        "the AST slice of the current source; the id must match ^[a-z]([a-z0-9-]{0,61}[a-z0-9])?$, be built from the name's lowercase "
        "ASCII alphanumerics when there are >= 3 of them, and carry the drawn 5-hex suffix when there are fewer, when forced, or when "
        "the id is taken; non-trivial = names that are non-ASCII, short of alphanumerics or long")


def run(tier: str, seed: int) -> Any:
    total = len(names(tier))
    step = 400
    cases = [(tier, i, step) for i in range(0, total, step)]
    return run_grid(PID, RULE, cases, work, seed=seed, chunksize=1, assumptions=[
        "find_deployment_id and _append_random_suffix are executed as an AST slice of the current k8s_client.py (the module imports "
        "kubernetes, absent here); random and validate_deployment_id are environment answers scripted by the harness",
        "'alphanumerics' = ASCII letters and digits of name.lower() (what a DNS label can keep)"], extra={"names": total})


def replay(rec: dict[str, Any]) -> tuple[bool, str]:
    _, _, v, _ = work(tuple(rec["case"]))
    return (not v), f"case={rec['case']}\n" + "\n".join(f"VIOLATED {c} {w}: {d}" for c, w, d, _ in v)

"""Virtual asyncio event loop driven by hand (DESIGN.md 3.1).

``VLoop`` is a ``BaseEventLoop`` without a selector: the explorer pops ``_ready`` by hand
(``drain``) and fires timers explicitly (``fire_timers``), advancing a virtual clock.  Stock
Task / Future / Queue / Lock / Condition / wait / wait_for / gather run unmodified on it.

While a VLoop is *installed*, ``time.time`` / ``time.monotonic`` are virtual (different bases,
as on every real machine).  No real event loop may run while installed.
"""
from __future__ import annotations

import asyncio
import heapq
import time as _time
from asyncio import events
from typing import Any, Callable

_REAL_TIME = _time.time
_REAL_MONOTONIC = _time.monotonic
real_perf = _time.perf_counter

BASE_WALL = 1_700_000_000.0
BASE_MONO = 5_000.0


class Livelock(Exception):
    pass


class VTask(asyncio.tasks._PyTask):  # type: ignore[misc,name-defined]
    """Pure-python Task with a deterministic hash (creation index) so that iteration over
    ``set[Task]`` does not depend on object addresses."""

    _vcounter = 0

    def __init__(self, coro: Any, *, loop: Any = None, name: Any = None, context: Any = None, **kw: Any) -> None:
        loop._task_seq += 1
        self._vidx = loop._task_seq  # before super().__init__: registration hashes the task
        super().__init__(coro, loop=loop, name=name, context=context, **kw)

    def __hash__(self) -> int:
        return self._vidx

    def __eq__(self, other: object) -> bool:
        return self is other


class VLoop(asyncio.BaseEventLoop):
    def __init__(self, base_wall: float = BASE_WALL, base_mono: float = BASE_MONO) -> None:
        super().__init__()
        self.vt = 0.0
        self.base_wall = base_wall
        self.base_mono = base_mono
        self._task_seq = 0
        self._clock_resolution = 1e-9
        self.steps_run = 0
        self.unhandled: list[dict[str, Any]] = []
        self.set_task_factory(self._factory)
        self.set_exception_handler(self._on_exception)
        self._installed = False
        self._clock_jumped = False

    # -- BaseEventLoop plumbing -------------------------------------------------
    def time(self) -> float:  # loop clock == monotonic clock
        return self.base_mono + self.vt

    def _process_events(self, event_list: Any) -> None:  # pragma: no cover
        pass

    def _write_to_self(self) -> None:
        pass

    @staticmethod
    def _factory(loop: "VLoop", coro: Any, **kw: Any) -> VTask:
        return VTask(coro, loop=loop, **kw)

    def _on_exception(self, loop: Any, context: dict[str, Any]) -> None:
        self.unhandled.append(context)

    def run_in_executor(self, executor: Any, func: Callable[..., Any], *args: Any) -> Any:
        # Threads are outside the cooperative scheduler (stated limit).  Run inline so a
        # harness mistake is loud rather than a hang.
        fut = self.create_future()
        try:
            fut.set_result(func(*args))
        except BaseException as e:  # noqa: BLE001
            fut.set_exception(e)
        return fut

    # -- installation -----------------------------------------------------------
    def install(self) -> None:
        if self._installed:
            return
        if events._get_running_loop() is not None:
            raise RuntimeError("another loop is running")
        self._installed = True
        events._set_running_loop(self)
        _time.time = lambda: self.base_wall + self.vt  # type: ignore[assignment]
        _time.monotonic = lambda: self.base_mono + self.vt  # type: ignore[assignment]

    def uninstall(self) -> None:
        if not self._installed:
            return
        self._installed = False
        events._set_running_loop(None)
        _time.time = _REAL_TIME
        _time.monotonic = _REAL_MONOTONIC

    # -- driving ----------------------------------------------------------------
    def drain(self, cap: int = 200_000) -> int:
        """Run ready callbacks until the ready queue is empty (a *macro-step*)."""
        n = 0
        ready = self._ready
        while True:
            if self._clock_jumped:
                # a callback kept the loop busy while the clock moved on (advance_busy): as in _run_once, timers that
                # came due meanwhile are queued at the start of the next loop iteration, behind what is already ready
                self._clock_jumped = False
                self._queue_due_timers()
            if not ready:
                break
            for _ in range(len(ready)):
                h = ready.popleft()
                if h._cancelled:
                    continue
                h._run()
                n += 1
                if n > cap:
                    raise Livelock(f"ready queue never empties ({cap} callbacks)")
        self.steps_run += n
        return n

    def _queue_due_timers(self) -> None:
        end = self.time() + self._clock_resolution
        sched = self._scheduled
        while sched:
            h = sched[0]
            if h._when >= end:
                break
            h = heapq.heappop(sched)
            h._scheduled = False
            if h._cancelled:
                self._timer_cancelled_count = max(0, self._timer_cancelled_count - 1)
                continue
            self._ready.append(h)

    def _prune_timers(self) -> None:
        sched = self._scheduled
        while sched and sched[0]._cancelled:
            h = heapq.heappop(sched)
            h._scheduled = False
            self._timer_cancelled_count = max(0, self._timer_cancelled_count - 1)

    def timer_deadlines(self) -> list[float]:
        """Distinct deadlines (virtual seconds from start) of live timers, ascending."""
        self._prune_timers()
        ds = sorted({h._when for h in self._scheduled if not h._cancelled})
        return [d - self.base_mono for d in ds]

    def has_timers(self) -> bool:
        self._prune_timers()
        return bool(self._scheduled)

    def fire_timers(self, upto_index: int = 0) -> float:
        """Advance virtual time to the ``upto_index``-th distinct live deadline and move every
        due timer to the ready queue in heap order, exactly as ``_run_once`` does when the
        loop wakes up at that time."""
        ds = self.timer_deadlines()
        target = ds[upto_index]
        self.vt = max(self.vt, target)
        end = self.time() + self._clock_resolution
        sched = self._scheduled
        while sched:
            h = sched[0]
            if h._when >= end:
                break
            h = heapq.heappop(sched)
            h._scheduled = False
            if h._cancelled:
                self._timer_cancelled_count = max(0, self._timer_cancelled_count - 1)
                continue
            self._ready.append(h)
        return self.vt

    def advance(self, dt: float) -> None:
        """Advance the clock without firing anything (a step body that 'takes' dt seconds
        only does so when no timer is due in between; callers check that)."""
        self.vt += dt

    def advance_busy(self, dt: float) -> None:
        """The callback that is running right now 'takes' dt seconds (a slow store write, a long GC pause, a CPU-bound
        step): the clock moves on while the loop is busy; timers that came due are run by the next loop iteration."""
        self.vt += dt
        self._clock_jumped = True

    def teardown(self) -> None:
        """Cancel every leftover task and drain, then detach.  Call only after the
        observation has been frozen."""
        try:
            for _ in range(5):
                tasks = [t for t in asyncio.all_tasks(self) if not t.done()]
                if not tasks:
                    break
                for t in tasks:
                    t.cancel()
                try:
                    self.drain(cap=50_000)
                except Exception:
                    break
            # retrieve exceptions to keep GC quiet
            for t in asyncio.all_tasks(self):
                if t.done() and not t.cancelled():
                    try:
                        t.exception()
                    except BaseException:  # noqa: BLE001
                        pass
            self._ready.clear()
            self._scheduled.clear()
        finally:
            self.uninstall()
            try:
                self._closed = True
            except Exception:
                pass

    def abandon(self) -> None:
        """The process 'crashed': nothing more runs on this loop - no cancellation, no finally blocks, no callbacks."""
        try:
            for t in asyncio.all_tasks(self):
                t._log_destroy_pending = False  # type: ignore[attr-defined]
            self._ready.clear()
            self._scheduled.clear()
        finally:
            self.uninstall()
            try:
                self._closed = True
            except Exception:
                pass

    def __del__(self, _warn: Any = None) -> None:  # silence "unclosed loop" warnings
        pass

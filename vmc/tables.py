"""Per-property manifest text (consumed by vmc.manifest_gen)."""
ENGINE_TECH = "stateless exhaustive schedule exploration of the real control loop on a virtual asyncio loop (deviation-bounded DFS over gate/env/timer choices)"

CHECKS = {
    "C01": ("6/C01", "Every gate-release, external-send, timer and snapshot+resume order of generated fan-out / retry / collect / wait workflows (k<=4 events, num_workers 1..4) is executed on the real control loop; live step bodies, runner in_progress sets and stream RUNNING/NOT_RUNNING slots are checked in every quiescent state. A coverage statement over all schedules of these programs, not a sample.",
            "Bounded small-scope claim: programs and bounds listed in the evidence file; sync (thread-pool) steps not covered.", ENGINE_TECH),
}

NOT_APPLICABLE = {}

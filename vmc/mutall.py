"""Run every mutation under /verif/mutations and every seeded change under /verif/seeded against the checks they are
supposed to break; write /verif/MUTATIONS.md.  usage: python -m vmc.mutall [--jobs 4]"""
from __future__ import annotations

import argparse
import concurrent.futures as cf
import glob
import json
import os
import subprocess
import sys

VERIF = os.path.dirname(os.path.dirname(os.path.abspath(__file__)))


CACHE: dict[str, dict] = {}
CACHE_PATH = {"p": ""}
NO_RUN = {"on": False}


def _item_id(kind: str, path: str) -> str:
    return os.path.basename(os.path.dirname(path)) if kind == "seeded" else os.path.basename(path)[:-5]


_PREV: dict[tuple[str, str], tuple[bool, str]] = {}


def _previous_table() -> dict[tuple[str, str], tuple[bool, str]]:
    """(id, check) -> (detected, clause) of the MUTATIONS.md committed last"""
    if not _PREV:
        r = subprocess.run(["git", "-C", VERIF, "show", "HEAD:MUTATIONS.md"], capture_output=True, text=True)
        for ln in r.stdout.splitlines():
            cols = [c.strip() for c in ln.split("|")]
            if len(cols) >= 7 and cols[1] in ("mutation", "seeded"):
                _PREV[(cols[2], cols[3])] = (cols[4] == "yes", cols[5])
        _PREV[("", "")] = (False, "")
    return _PREV


def run_one(item: tuple[str, str, list[str], str]) -> dict:
    kind, path, checks, note = item
    iid = _item_id(kind, path)
    if iid in CACHE:
        return CACHE[iid]  # (finished in an earlier, interrupted invocation with the same cache file)
    out = {"kind": kind, "id": iid, "checks": {}, "note": note}
    if NO_RUN["on"]:
        # not re-run now: the verdict recorded in the seed's meta.json when it was processed (seedcheck / recheck of its round)
        meta_p = os.path.join(os.path.dirname(path), "meta.json")
        rec = (json.load(open(meta_p)).get("checks_run") or {}) if kind == "seeded" and os.path.exists(meta_p) else {}
        for c in checks:
            if kind == "mutation":
                prev = _previous_table().get((iid, c))
                out["checks"][c] = {"detected": bool(prev and prev[0]), "clause": (prev[1] if prev else "") + " (as in the previous run of this table)", "recorded": True}
            else:
                out["checks"][c] = {"detected": bool(rec.get(c)), "clause": "(as recorded when the seed was processed)", "recorded": True}
        return out
    for c in checks:
        r = subprocess.run([sys.executable, "-m", "vmc.mutate", path, "--checks", c], cwd=VERIF, capture_output=True, text=True)
        det = "detected=True" in r.stdout
        clause = ""
        for ln in r.stdout.splitlines():
            if "clause=" in ln:
                clause = ln.strip().split(" witness=")[0].replace("clause=", "")
                break
        out["checks"][c] = {"detected": det, "clause": clause}
    if CACHE_PATH["p"]:
        with open(CACHE_PATH["p"], "a") as f:
            f.write(json.dumps(out) + "\n")
    return out


def main() -> int:
    ap = argparse.ArgumentParser()
    ap.add_argument("--jobs", type=int, default=4)
    ap.add_argument("--only", default="")
    ap.add_argument("--cache", default="", help="jsonl file: finished items are appended and skipped when the command is run again")
    ap.add_argument("--no-run", action="store_true", help="do not execute what is not in the cache: use the verdicts recorded in meta.json")
    args = ap.parse_args()
    CACHE_PATH["p"] = args.cache
    NO_RUN["on"] = args.no_run
    if args.cache and os.path.exists(args.cache):
        for ln in open(args.cache):
            if ln.strip():
                r = json.loads(ln)
                CACHE[r["id"]] = r
    items = []
    superseded: list[tuple[str, str, str]] = []
    stale: list[str] = []
    for p in sorted(glob.glob(os.path.join(VERIF, "mutations", "*.json"))):
        spec = json.load(open(p))
        items.append(("mutation", p, spec.get("breaks", []), spec.get("note", "")))
    for d in sorted(glob.glob(os.path.join(VERIF, "seeded", "*"))):
        if not os.path.exists(os.path.join(d, "meta.json")):
            continue  # seedcheck still writing this one
        meta = json.load(open(os.path.join(d, "meta.json")))
        if meta.get("superseded_by_fix"):
            superseded.append((os.path.basename(d), meta["superseded_by_fix"], meta.get("superseded_note", "")))
            continue  # a later fix: commit made the tree robust against this change: nothing left to detect
        if meta.get("stale_patch"):
            stale.append(os.path.basename(d))
            continue  # the patch no longer applies: later fix: commits changed the lines it edits
        checks = [c for c, ok in (meta.get("checks_run") or {}).items() if ok] or [meta.get("breaks")]
        items.append(("seeded", os.path.join(d, "patch.diff"), checks, meta.get("needs", "")))
    if args.only:
        items = [i for i in items if args.only in i[1]]
    with cf.ThreadPoolExecutor(args.jobs) as ex:
        results = list(ex.map(run_one, items))
    lines = ["# Detection table", "",
             "Every row is a property-breaking edit applied to a scratch copy of the repository sources (never to /repo) and run against the "
             "quick tier of the check(s) named; `mutations/*.json` are hand-written edits, `seeded/*/patch.diff` come from independent "
             "sub-agents that saw only the property text (each confirmed: demo fails with the change, passes without, pinned suite passes).",
             "", "| kind | id | check | detected | first clause | what it needs / does |", "|---|---|---|---|---|---|"]
    bad = 0
    for r in results:
        for c, x in r["checks"].items():
            if not x["detected"]:
                bad += 1
            lines.append(f"| {r['kind']} | {r['id']} | {c} | {'yes' if x['detected'] else '**NO**'} | {x['clause']} | {r['note'][:160].replace('|', '/')} |")
    if superseded:
        lines += ["", "Seeded changes that a later `fix:` commit neutralised (the property now holds with the change applied; not run):", ""]
        lines += [f"* `{sid}` - fix {c}: {why}" for sid, c, why in superseded]
    if stale:
        lines += ["", "Seeded changes whose patch no longer applies to the current tree (later `fix:` commits changed the lines they edit); they were "
                  "confirmed and detected when recorded (see their meta.json) and are kept for the record: " + ", ".join(f"`{x}`" for x in stale)]
    n_rec = sum(1 for r in results for x in r["checks"].values() if x.get("recorded"))
    lines += ["", f"{sum(len(r['checks']) for r in results)} rows, {bad} not detected; {n_rec} rows carry the verdict recorded when the seed was processed "
              "(seedcheck / recheck of its round) instead of a fresh run of this command."]
    open(os.path.join(VERIF, "MUTATIONS.md"), "w").write("\n".join(lines) + "\n")
    print(lines[-1])
    return 0


if __name__ == "__main__":
    sys.exit(main())

from __future__ import annotations

import asyncio
import functools
from contextlib import contextmanager
from contextvars import ContextVar
from typing import Any, Callable, Dict, Generator

active_instrument_tags: ContextVar[Dict[str, Any]] = ContextVar(
    "instrument_tags", default={}
)


@contextmanager
def instrument_tags(new_tags: Dict[str, Any]) -> Generator[None, None, None]:
    token = active_instrument_tags.set(new_tags)
    try:
        yield
    finally:
        try:
            active_instrument_tags.reset(token)
        except ValueError:
            pass


class Dispatcher:
    def __init__(self, name: str = "root") -> None:
        self.name = name

    def event(self, event: Any, **kwargs: Any) -> None:
        return None

    def span_enter(self, *args: Any, **kwargs: Any) -> None:
        return None

    def span_exit(self, *args: Any, **kwargs: Any) -> None:
        return None

    def span_drop(self, *args: Any, **kwargs: Any) -> None:
        return None

    def capture_propagation_context(self) -> Dict[str, Any]:
        return {}

    def restore_propagation_context(self, ctx: Dict[str, Any]) -> None:
        return None

    def span(self, func: Callable[..., Any]) -> Callable[..., Any]:
        if asyncio.iscoroutinefunction(func):

            @functools.wraps(func)
            async def async_wrapper(*args: Any, **kwargs: Any) -> Any:
                return await func(*args, **kwargs)

            return async_wrapper

        @functools.wraps(func)
        def wrapper(*args: Any, **kwargs: Any) -> Any:
            return func(*args, **kwargs)

        return wrapper


_root = Dispatcher()


def get_dispatcher(name: str = "root") -> Dispatcher:
    return _root

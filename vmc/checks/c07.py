"""C07 - retry building blocks obey their algebra and bounds.

Exhaustive enumeration of (a) retry-condition terms of depth <= 2 over 13 atoms on an exception alphabet with
chained causes, (b) stop-condition terms over an (attempts x elapsed x upcoming_sleep) grid, (c) every built-in
wait strategy over parameter grids x attempt counts (incl. counts where the exponential overflows a double) x
seeds; each value is compared with an independent reference (truth tables, sums, documented bounds).
"""
from __future__ import annotations

import itertools
import json
import os
import sys
import math
import random
from datetime import timedelta
from typing import Any

from vmc import bootstrap

bootstrap.setup()

from vmc.checks.grid import run_grid  # noqa: E402
from vmc.report import Violation  # noqa: E402
from workflows import retry_policy as rp  # noqa: E402

PID = "C07"

# ------------------------------------------------------------------ exceptions --------------------------------


def _chain(outer: BaseException, *causes: BaseException) -> BaseException:
    cur = outer
    for c in causes:
        cur.__cause__ = c
        cur = c
    return outer


def exceptions() -> list[tuple[str, BaseException]]:
    return [
        ("ValueError(boom)", ValueError("boom")),
        ("ValueError(rate limit hit)", ValueError("rate limit hit")),
        ("KeyError(k)", KeyError("k")),
        ("TimeoutError(boom)", TimeoutError("boom")),
        ("Exception()", Exception("")),
        ("RuntimeError(x)<-ValueError(inner)", _chain(RuntimeError("x"), ValueError("inner"))),
        ("RuntimeError(x)<-KeyError<-TimeoutError", _chain(RuntimeError("x"), KeyError("k"), TimeoutError("t"))),
        ("UnicodeError(boom)[ValueError subclass]", UnicodeError("boom")),
    ]


def _causes(e: BaseException) -> list[BaseException]:
    out = []
    c = e.__cause__
    while c is not None:
        out.append(c)
        c = c.__cause__
    return out


# atom name -> (constructor, reference predicate)
R_ATOMS: dict[str, tuple[Any, Any]] = {
    "always": (lambda: rp.retry_always(), lambda e: True),
    "never": (lambda: rp.retry_never(), lambda e: False),
    "type(ValueError)": (lambda: rp.retry_if_exception_type(ValueError), lambda e: isinstance(e, ValueError)),
    "type(KeyError,TimeoutError)": (lambda: rp.retry_if_exception_type((KeyError, TimeoutError)),
                                    lambda e: isinstance(e, (KeyError, TimeoutError))),
    "type()": (lambda: rp.retry_if_exception_type(), lambda e: isinstance(e, Exception)),
    "not_type(ValueError)": (lambda: rp.retry_if_not_exception_type(ValueError), lambda e: not isinstance(e, ValueError)),
    "unless_type(TimeoutError)": (lambda: rp.retry_unless_exception_type(TimeoutError), lambda e: not isinstance(e, TimeoutError)),
    "message(boom)": (lambda: rp.retry_if_exception_message(message="boom"), lambda e: str(e) == "boom"),
    "match(rate)": (lambda: rp.retry_if_exception_message(match="rate"), lambda e: "rate" in str(e)),
    "not_message(boom)": (lambda: rp.retry_if_not_exception_message(message="boom"), lambda e: str(e) != "boom"),
    "not_match(^b)": (lambda: rp.retry_if_not_exception_message(match="^b"), lambda e: not str(e).startswith("b")),
    "cause(ValueError)": (lambda: rp.retry_if_exception_cause_type(ValueError),
                          lambda e: any(isinstance(c, ValueError) for c in _causes(e))),
    "cause(TimeoutError)": (lambda: rp.retry_if_exception_cause_type(TimeoutError),
                            lambda e: any(isinstance(c, TimeoutError) for c in _causes(e))),
    "pred(len(str)>4)": (lambda: rp.retry_if_exception(lambda e: len(str(e)) > 4), lambda e: len(str(e)) > 4),
    "plain_callable(KeyError)": (lambda: (lambda e: isinstance(e, KeyError)), lambda e: isinstance(e, KeyError)),
}


def r_terms(tier: str) -> list[Any]:
    names = list(R_ATOMS)
    ts: list[Any] = [("atom", n) for n in names]
    for a, b in itertools.product(names, repeat=2):
        if a == "plain_callable(KeyError)" and b == a:
            continue  # two plain functions have no operators
        ts += [("or", ("atom", a), ("atom", b)), ("and", ("atom", a), ("atom", b))]
    for k in range(0, 4):
        pool = names if (k <= 2 or tier != "quick") else names[:8]
        for combo in itertools.product(pool, repeat=k):
            ts.append(("any", [("atom", n) for n in combo]))
            ts.append(("all", [("atom", n) for n in combo]))
    sub = names[:7] if tier == "quick" else names[:-1]
    for a, b, c in itertools.product(sub, repeat=3):
        ts.append(("and", ("or", ("atom", a), ("atom", b)), ("atom", c)))
        ts.append(("or", ("and", ("atom", a), ("atom", b)), ("atom", c)))
        ts.append(("any", [("atom", a), ("all", [("atom", b), ("atom", c)])]))
        ts.append(("all", [("atom", a), ("any", [("atom", b), ("atom", c)])]))
    return ts


def r_build(t: Any) -> Any:
    op = t[0]
    if op == "atom":
        return R_ATOMS[t[1]][0]()
    if op == "or":
        return r_build(t[1]) | r_build(t[2])
    if op == "and":
        return r_build(t[1]) & r_build(t[2])
    if op == "any":
        return rp.retry_any(*[r_build(x) for x in t[1]])
    if op == "all":
        return rp.retry_all(*[r_build(x) for x in t[1]])
    raise ValueError(op)


def r_ref(t: Any, e: BaseException) -> bool:
    op = t[0]
    if op == "atom":
        return bool(R_ATOMS[t[1]][1](e))
    if op == "or":
        return r_ref(t[1], e) or r_ref(t[2], e)
    if op == "and":
        return r_ref(t[1], e) and r_ref(t[2], e)
    if op == "any":
        return any(r_ref(x, e) for x in t[1])
    if op == "all":
        return all(r_ref(x, e) for x in t[1])
    raise ValueError(op)


def shape(t: Any) -> str:
    if t[0] == "atom":
        return "atom"
    if t[0] in ("or", "and"):
        return f"{t[0]}({shape(t[1])},{shape(t[2])})"
    return f"{t[0]}[{len(t[1])}]"


# ------------------------------------------------------------------ stop conditions ---------------------------
S_ATOMS: dict[str, tuple[Any, Any]] = {"never": (lambda: rp.stop_never(), lambda a, e, s: False)}
for _n in (0, 1, 2, 3, 5):
    S_ATOMS[f"after_attempt({_n})"] = ((lambda n=_n: rp.stop_after_attempt(n)), (lambda a, e, s, n=_n: a >= n))
for _d in (0, 0.5, 2.5, 10):
    S_ATOMS[f"after_delay({_d})"] = ((lambda d=_d: rp.stop_after_delay(d)), (lambda a, e, s, d=_d: e >= d))
    S_ATOMS[f"before_delay({_d})"] = ((lambda d=_d: rp.stop_before_delay(d)), (lambda a, e, s, d=_d: e + s >= d))
S_ATOMS["after_delay(td 3s)"] = (lambda: rp.stop_after_delay(timedelta(seconds=3)), lambda a, e, s: e >= 3.0)
S_ATOMS["before_delay(td 1500ms)"] = (lambda: rp.stop_before_delay(timedelta(milliseconds=1500)), lambda a, e, s: e + s >= 1.5)
S_ATOMS["after_delay(td 350ms)"] = (lambda: rp.stop_after_delay(timedelta(milliseconds=350)), lambda a, e, s: e >= 0.35)
S_ATOMS["before_delay(td 1d+2s)"] = (lambda: rp.stop_before_delay(timedelta(days=1, seconds=2)), lambda a, e, s: e + s >= 86402.0)
S_ATOMS["plain_callable(a>=4)"] = (lambda: (lambda attempts, elapsed_time, *, upcoming_sleep=0.0: attempts >= 4),
                                   lambda a, e, s: a >= 4)

S_INPUTS = [(a, e, s) for a in range(0, 7) for e in (0.0, 0.49, 0.5, 1.2, 1.5, 2.5, 3.0, 9.99, 10.0, 1e6)
            for s in (0.0, 0.01, 2.0, 7.5)]


def s_terms(tier: str) -> list[Any]:
    names = list(S_ATOMS)
    ts: list[Any] = [("atom", n) for n in names]
    for a, b in itertools.product(names, repeat=2):
        if a.startswith("plain") and b.startswith("plain"):
            continue
        ts += [("or", ("atom", a), ("atom", b)), ("and", ("atom", a), ("atom", b))]
    sub = names[:8] if tier == "quick" else names
    for k in (0, 1, 3):
        for combo in itertools.product(sub if k == 3 else names, repeat=k):
            ts.append(("any", [("atom", n) for n in combo]))
            ts.append(("all", [("atom", n) for n in combo]))
    for a, b, c in itertools.product(sub, repeat=3):
        if a.startswith("plain") and b.startswith("plain"):
            continue  # two plain functions have no operators
        ts.append(("and", ("or", ("atom", a), ("atom", b)), ("atom", c)))
        ts.append(("or", ("and", ("atom", a), ("atom", b)), ("atom", c)))
    return ts


def s_build(t: Any) -> Any:
    op = t[0]
    if op == "atom":
        return S_ATOMS[t[1]][0]()
    if op == "or":
        return s_build(t[1]) | s_build(t[2])
    if op == "and":
        return s_build(t[1]) & s_build(t[2])
    if op == "any":
        return rp.stop_any(*[s_build(x) for x in t[1]])
    if op == "all":
        return rp.stop_all(*[s_build(x) for x in t[1]])
    raise ValueError(op)


def s_ref(t: Any, a: int, e: float, s: float) -> bool:
    op = t[0]
    if op == "atom":
        return bool(S_ATOMS[t[1]][1](a, e, s))
    if op == "or":
        return s_ref(t[1], a, e, s) or s_ref(t[2], a, e, s)
    if op == "and":
        return s_ref(t[1], a, e, s) and s_ref(t[2], a, e, s)
    if op == "any":
        return any(s_ref(x, a, e, s) for x in t[1])
    if op == "all":
        return all(s_ref(x, a, e, s) for x in t[1])
    raise ValueError(op)


# ------------------------------------------------------------------ wait strategies ---------------------------
ATTEMPTS = [0, 1, 2, 3, 5, 10, 63, 64, 1023, 1024, 1075, 2000, 10 ** 5]
SEEDS = [None, 0, 1, 2 ** 32 - 1, 12345678901234567890]


def _pow(m: float, b: float, n: int) -> float:
    """m * b**n in extended reals (the documented, un-clamped exponential)."""
    if m == 0:
        return 0.0
    try:
        return float(m) * float(b) ** n
    except OverflowError:
        return math.copysign(math.inf, m)


def w_terms(tier: str) -> list[Any]:
    q = tier == "quick"
    ts: list[Any] = []
    # timedelta arguments with whole seconds, a sub-second part and a days part
    for w in (0, 0.25, 5, ("td", 2), ("td", 0.35), ("td", 1.5), ("td", 86402)):
        ts.append(("fixed", w))
    ts.append(("none",))
    mults = (0.1, 1, 3) if q else (0, 0.1, 0.5, 1, 3, 10)
    bases = (0.5, 1, 2, 10) if q else (0.1, 0.5, 1, 1.5, 2, 3, 10)
    for m in mults:
        for b in bases:
            for mx, mn in ((60, 0), (60, 2), (0.5, 0), (("td", 30), ("td", 1)), (("td", 0.5), ("td", 0.25)), (1e9, 0),
                           (60, 90), (0.5, 2)):  # (the last two: a floor above the cap - the floor wins)
                ts.append(("exp", m, b, mx, mn))
                ts.append(("rand_exp", m, b, mx, mn))
                ts.append(("full_jitter", m, b, mx, mn))
    ts.append(("exp_default",))
    ts.append(("rand_exp_default",))
    ts.append(("exp_jitter_default",))
    for init in ((1.0, 0.5, 1) if q else (0.0, 0.5, 1.0, 4.0, 1, 3)):
        for b in bases:
            # wait_exponential_jitter keeps initial / exp_base as given: int and float spellings are different inputs
            for bb in ([float(b)] + ([int(b)] if float(b) == int(b) else [])):
                for mx in (60.0, 0.5, 1e9):
                    for j in (0.0, 1.0, 5.0):
                        ts.append(("exp_jitter", init, bb, mx, j))
    for s in (0, 1, 10):
        for i in (0, 1, 100, -2, 0.5):
            for mx in (float("inf"), 10, 0.5, ("td", 7), ("td", 0.75)):
                ts.append(("incr", s, i, mx))
    ts.append(("incr_default",))
    for mn, mx in ((0, 1), (0.5, 1.5), (2, 2), (0, 0), (("td", 1), ("td", 3)), (("td", 0.25), ("td", 0.75))):
        ts.append(("random", mn, mx))
    ts.append(("random_default",))
    leaves = [("fixed", 5), ("fixed", 1), ("exp", 1, 2, 60, 0), ("incr", 1, 2, 10), ("random", 0.5, 1.5),
              ("exp_jitter", 1.0, 2.0, 60.0, 1.0), ("rand_exp", 1, 2, 60, 0)]
    for k in (1, 2, 3):
        for combo in itertools.product(leaves if (k < 3 or not q) else leaves[:4], repeat=k):
            ts.append(("chain", list(combo)))
            ts.append(("combine", list(combo)))
            if k >= 2:
                ts.append(("plus", list(combo)))
                ts.append(("sum", list(combo)))
    for a, b, c, d in ((("fixed", 1), ("incr", 0, 2, 100), ("fixed", 0.5), ("fixed", 30)),
                       (("exp", 1, 2, 60, 0), ("random", 0.5, 1.5), ("fixed", 2), ("incr", 1, 2, 10))):
        for op in ("derived_base", "derived_first", "derived_second", "sum_shared"):
            ts.append((op, [a, b, c, d]))
    ts.append(("combine", []))
    ts.append(("combine", [("chain", [("fixed", 1), ("random", 0, 1)]), ("exp", 1, 2, 60, 0)]))
    ts.append(("chain", [("combine", [("fixed", 1), ("random", 0, 1)]), ("exp", 1, 2, 60, 0)]))
    return ts


def _v(x: Any) -> Any:
    return timedelta(seconds=x[1]) if isinstance(x, tuple) and x and x[0] == "td" else x


def _secs(x: Any) -> float:
    x = _v(x)
    return float(x.total_seconds()) if isinstance(x, timedelta) else float(x)


def w_build(t: Any) -> Any:
    op = t[0]
    if op == "fixed":
        return rp.wait_fixed(_v(t[1]))
    if op == "none":
        return rp.wait_none()
    if op == "exp":
        return rp.wait_exponential(multiplier=t[1], exp_base=t[2], max=_v(t[3]), min=_v(t[4]))
    if op == "exp_default":
        return rp.wait_exponential()
    if op == "rand_exp":
        return rp.wait_random_exponential(multiplier=t[1], exp_base=t[2], max=_v(t[3]), min=_v(t[4]))
    if op == "rand_exp_default":
        return rp.wait_random_exponential()
    if op == "full_jitter":
        return rp.wait_full_jitter(multiplier=t[1], exp_base=t[2], max=_v(t[3]), min=_v(t[4]))
    if op == "exp_jitter":
        return rp.wait_exponential_jitter(initial=t[1], exp_base=t[2], max=t[3], jitter=t[4])
    if op == "exp_jitter_default":
        return rp.wait_exponential_jitter()
    if op == "incr":
        return rp.wait_incrementing(start=t[1], increment=t[2], max=_v(t[3]))
    if op == "incr_default":
        return rp.wait_incrementing()
    if op == "random":
        return rp.wait_random(min=_v(t[1]), max=_v(t[2]))
    if op == "random_default":
        return rp.wait_random()
    if op == "chain":
        return rp.wait_chain(*[w_build(x) for x in t[1]])
    if op == "combine":
        return rp.wait_combine(*[w_build(x) for x in t[1]])
    if op == "plus":
        parts = [w_build(x) for x in t[1]]
        acc = parts[0]
        for p in parts[1:]:
            acc = acc + p
        return acc
    if op == "sum":
        return sum([w_build(x) for x in t[1]])
    if op in ("derived_base", "derived_first", "derived_second", "sum_shared"):
        # one combined strategy is built first and then used as the left operand of further sums (base = a + b;
        # first = base + c; second = base + d) or handed to sum(): every derived value stands for its own parts only
        ps = [w_build(x) for x in t[1]]
        base = ps[0] + ps[1]
        if op == "sum_shared":
            sum([base, ps[2]])
            return base
        first = base + ps[2]
        second = base + ps[3]
        return {"derived_base": base, "derived_first": first, "derived_second": second}[op]
    raise ValueError(op)


def w_bounds(t: Any, n: int) -> tuple[float, float]:
    """Documented [lo, hi] for attempt count n (deterministic strategies: lo == hi)."""
    op = t[0]
    if op == "fixed":
        return (_secs(t[1]),) * 2
    if op == "none":
        return (0.0, 0.0)
    if op in ("exp", "exp_default"):
        m, b, mx, mn = (1.0, 2.0, 60.0, 0.0) if op == "exp_default" else (t[1], t[2], _secs(t[3]), _secs(t[4]))
        v = max(max(0.0, mn), min(_pow(m, b, n), mx))
        return (v, v)
    if op in ("rand_exp", "full_jitter", "rand_exp_default"):
        m, b, mx, mn = (1.0, 2.0, 60.0, 0.0) if op == "rand_exp_default" else (t[1], t[2], _secs(t[3]), _secs(t[4]))
        up = max(max(0.0, mn), min(_pow(m, b, n), mx))
        return (min(mn, up), max(mn, up))
    if op in ("exp_jitter", "exp_jitter_default"):
        init, b, mx, j = (1.0, 2.0, 60.0, 1.0) if op == "exp_jitter_default" else t[1:]
        base = min(_pow(init, b, n), mx)
        return (min(base, mx), min(base + j, mx))
    if op in ("incr", "incr_default"):
        s, i, mx = (0.0, 100.0, math.inf) if op == "incr_default" else (_secs(t[1]), _secs(t[2]), _secs(t[3]))
        v = max(0.0, min(s + i * n, mx))
        return (v, v)
    if op in ("random", "random_default"):
        mn, mx = (0.0, 1.0) if op == "random_default" else (_secs(t[1]), _secs(t[2]))
        return (mn, mx)
    if op == "chain":
        return w_bounds(t[1][min(n, len(t[1]) - 1)], n)
    if op in ("combine", "plus", "sum"):
        bs = [w_bounds(x, n) for x in t[1]]
        return (sum(b[0] for b in bs), sum(b[1] for b in bs))
    if op in ("derived_base", "derived_first", "derived_second", "sum_shared"):
        bs = [w_bounds(x, n) for x in w_parts(t, n)]
        return (sum(b[0] for b in bs), sum(b[1] for b in bs))
    raise ValueError(op)


def w_parts(t: Any, n: int) -> list[Any] | None:
    """Sub-terms whose values must add up / be selected (for the exact composition clauses)."""
    if t[0] in ("combine", "plus", "sum"):
        return list(t[1])
    if t[0] == "chain":
        return [t[1][min(n, len(t[1]) - 1)]]
    if t[0] in ("derived_base", "sum_shared"):
        return list(t[1][:2])
    if t[0] == "derived_first":
        return list(t[1][:3])
    if t[0] == "derived_second":
        return list(t[1][:2]) + [t[1][3]]
    return None


def w_kind(t: Any) -> str:
    return t[0].replace("_default", "")


# ------------------------------------------------------------------ work --------------------------------------
def work(case: Any) -> Any:
    kind, t = case
    v: list[Any] = []
    n_eval = 0
    n_nontriv = 0
    sample = None
    if kind == "retry":
        obj = r_build(t)
        row = []
        for name, e in exceptions():
            n_eval += 1
            try:
                got = obj(e)
            except Exception as x:  # noqa: BLE001
                v.append(("retry_condition_raises", {"shape": shape(t)}, f"{t} on {name} raised {x!r}", None))
                continue
            exp = r_ref(t, e)
            row.append(bool(got))
            if bool(got) != exp or not isinstance(got, bool):
                v.append(("retry_combinator_truth_table", {"shape": shape(t)},
                          f"term {t} on {name}: got {got!r}, logical value {exp}", None))
        if len(set(row)) > 1:
            n_nontriv = 1
            sample = {"retry_term": t, "truth_row": row}
    elif kind == "stop":
        obj = s_build(t)
        row = set()
        for a, e, s in S_INPUTS:
            n_eval += 1
            try:
                got = obj(a, e, upcoming_sleep=s)
            except Exception as x:  # noqa: BLE001
                v.append(("stop_condition_raises", {"shape": shape(t)}, f"{t} on {(a, e, s)} raised {x!r}", None))
                continue
            exp = s_ref(t, a, e, s)
            row.add(bool(got))
            if bool(got) != exp:
                v.append(("stop_combinator_truth_table", {"shape": shape(t)},
                          f"term {t} on attempts={a} elapsed={e} upcoming_sleep={s}: got {got!r}, logical value {exp}", None))
        if len(row) > 1:
            n_nontriv = 1
            sample = {"stop_term": t, "inputs": len(S_INPUTS)}
    else:
        obj = w_build(t)
        wk = w_kind(t)
        vals = []
        for n in ATTEMPTS:
            lo, hi = w_bounds(t, n)
            big = "overflowing" if n >= 1024 else "small"
            for seed in SEEDS:
                n_eval += 1
                wit = {"strategy": wk, "attempts": big}
                try:
                    random.seed(n * 7 + 1)
                    x1 = obj(n, seed=seed)
                    random.seed(n * 13 + 5)
                    x2 = obj(n, seed=seed)
                    x3 = w_build(t)(n, seed=seed)
                except Exception as x:  # noqa: BLE001
                    v.append(("wait_strategy_raises", {**wit, "exc": type(x).__name__},
                              f"{t}(attempts={n}, seed={seed}) raised {x!r} instead of returning a finite delay", None))
                    continue
                vals.append(x1)
                for x in (x1, x2, x3):
                    if not isinstance(x, (int, float)) or isinstance(x, bool) or not math.isfinite(x) or x < 0:
                        v.append(("wait_not_finite_nonnegative", wit, f"{t}(attempts={n}, seed={seed}) = {x!r}", None))
                    elif not (lo - 1e-9 <= x <= hi + 1e-9):
                        v.append(("wait_outside_documented_bounds", wit,
                                  f"{t}(attempts={n}, seed={seed}) = {x!r}, documented range [{lo}, {hi}]", None))
                if seed is not None and not (x1 == x2 == x3):
                    v.append(("jitter_not_deterministic_for_seed", wit,
                              f"{t}(attempts={n}, seed={seed}) gave {x1!r}, {x2!r}, {x3!r}", None))
                parts = w_parts(t, n)
                if parts is not None and seed is not None:
                    try:
                        exp = sum(w_build(p)(n, seed=seed) for p in parts)
                    except Exception:  # noqa: BLE001
                        continue  # the part itself is reported above under its own term
                    if abs(exp - x1) > 1e-9 * max(1.0, abs(exp)):
                        cl = "wait_chain_selects_wrong_strategy" if t[0] == "chain" else "wait_combine_not_sum"
                        v.append((cl, wit, f"{t}(attempts={n}, seed={seed}) = {x1!r}, parts give {exp!r}", None))
        if len(set(vals)) > 1:
            n_nontriv = 1
            sample = {"wait_term": t, "values_attempts_0_1_2": vals[: 3 * len(SEEDS): len(SEEDS)]}
    # keep the first violation per (clause, witness)
    seen = set()
    out = []
    for c, w, d, r in v:
        k = (c, repr(sorted(w.items())))
        if k in seen:
            continue
        seen.add(k)
        out.append((c, w, d, r))
    return n_eval, n_nontriv, out, sample


def cases(tier: str) -> list[Any]:
    return ([("retry", t) for t in r_terms(tier)] + [("stop", t) for t in s_terms(tier)]
            + [("wait", t) for t in w_terms(tier)])


RULE = ("every retry-condition term of depth <= 2 (15 atoms incl. a plain callable; |, &, retry_any/retry_all with 0-3 "
        "arguments) on 8 exceptions (chained causes, subclass), every stop-condition term (|, &, stop_any/stop_all) on a "
        "7x9x4 (attempts, elapsed, upcoming_sleep) grid, every built-in wait strategy on parameter grids x 13 attempt counts "
        "(up to 10^5, beyond double overflow) x seeds {None,0,1,2^32-1,>2^64}; each call evaluated and compared with truth "
        "tables / sums / documented bounds; non-trivial = terms whose value varies over the inputs")
from vmc.tables import _ROUND6 as _R6  # noqa: E402

RULE += _R6["C07"]



# --------------------------------------------------- the same seed in another process (another hash salt) -------
HASH_SALTS = ("1", "2")  # PYTHONHASHSEED of the two child processes


def _seeded_values(t: Any) -> list[Any]:
    obj = w_build(t)
    out = []
    for n in ATTEMPTS:
        for seed in SEEDS:
            if seed is None:
                continue
            try:
                out.append(repr(obj(n, seed=seed)))
            except Exception as x:  # noqa: BLE001
                out.append("raised " + type(x).__name__)
    return out


def _table_main(tier: str, only: int | None) -> None:
    """child process: one line per wait term - its index and a digest of all seeded values (or the values themselves)"""
    import hashlib

    for i, t in enumerate(w_terms(tier)):
        if only is not None:
            if i == only:
                print(json.dumps(_seeded_values(t)))
            continue
        print(i, hashlib.md5(repr(_seeded_values(t)).encode()).hexdigest())


def _child_table(tier: str, salt: str, only: int | None = None) -> list[str]:
    import subprocess

    env = dict(os.environ, PYTHONHASHSEED=salt)
    root = os.path.dirname(os.path.dirname(os.path.dirname(os.path.abspath(__file__))))
    r = subprocess.run([sys.executable, "-c", f"from vmc.checks import c07; c07._table_main({tier!r}, {only!r})"],
                       cwd=root, env=env, capture_output=True, text=True, timeout=1200)
    if r.returncode != 0:
        raise RuntimeError("child table process failed: " + r.stderr[-2000:])
    return r.stdout.splitlines()


def cross_process(tier: str, only: int | None = None) -> tuple[int, list[Any]]:
    """every seeded value of every wait term, computed in two fresh processes with different hash salts, must agree (a
    replaying process is another process: 'deterministic for a given seed' has to hold across them)"""
    from concurrent.futures import ThreadPoolExecutor

    terms = w_terms(tier)
    v: list[Any] = []
    if only is None:
        with ThreadPoolExecutor(2) as tp:
            ta, tb = list(tp.map(lambda sa: _child_table(tier, sa), HASH_SALTS))
        differing = [int(a.split()[0]) for a, b in zip(ta, tb) if a != b]
        if len(ta) != len(terms) or len(tb) != len(terms):
            raise RuntimeError("child tables are incomplete")
        first_of_kind: dict[str, int] = {}
        for i in differing:
            first_of_kind.setdefault(w_kind(terms[i]), i)
        differing = sorted(first_of_kind.values())  # (one witness per kind of strategy: the details cost two processes each)
    else:
        differing = [only]
    for i in differing:
        va, vb = (json.loads(_child_table(tier, sa, i)[0]) for sa in HASH_SALTS)
        keys = [(n, sd) for n in ATTEMPTS for sd in SEEDS if sd is not None]
        bad = [(k, a, b) for k, a, b in zip(keys, va, vb) if a != b]
        if bad:
            (n, sd), a, b = bad[0]
            v.append(("jitter_not_deterministic_for_seed", {"kind": w_kind(terms[i]), "across": "processes_with_different_hash_salts"},
                      f"{terms[i]}(attempts={n}, seed={sd}) = {a} in one process and {b} in another ({len(bad)} of {len(keys)} seeded values differ)",
                      {"cross_process_term": i, "tier": tier}))
    return len(terms) * len(ATTEMPTS) * (len(SEEDS) - 1) * 2, v


def run(tier: str, seed: int) -> Any:
    cs = cases(tier)
    res = _run_grid_part(tier, seed, cs)
    n, viols = cross_process(tier)
    res.evaluations += n
    res.states += n
    res.transitions += n
    res.traces_validated += n
    seen = set()
    for clause, w, d, rep in viols:
        k = (clause, repr(sorted(w.items())))
        if k in seen:
            continue
        seen.add(k)
        res.add_violation(Violation(clause, w, d, rep))
    res.extra["cross_process_hash_salts"] = list(HASH_SALTS)
    return res


def _run_grid_part(tier: str, seed: int, cs: list[Any]) -> Any:
    res = run_grid(PID, RULE, cs, work, seed=seed, chunksize=64, assumptions=[
        "parameters are sane (min <= max, non-negative bounds, exp_base >= 0): outside that the documentation states no bounds",
        "unseeded jitter uses the global random module; only bounds are checked there"],
        extra={"retry_terms": len(r_terms(tier)), "stop_terms": len(s_terms(tier)), "wait_terms": len(w_terms(tier))})
    return res


def replay(rec: dict[str, Any]) -> tuple[bool, str]:
    def tup(x: Any) -> Any:
        if isinstance(x, list) and x and isinstance(x[0], str):
            return tuple(tup(i) for i in x)
        if isinstance(x, list):
            return [tup(i) for i in x]
        return x

    if "cross_process_term" in rec:
        _, v = cross_process(rec["tier"], rec["cross_process_term"])
        return (not v), "\n".join(f"VIOLATED {c} {w}: {d}" for c, w, d, _ in v)
    kind, t = rec["case"]
    _, _, v, _ = work((kind, tup(t)))
    return (not v), f"case={rec['case']}\n" + "\n".join(f"VIOLATED {c} {w}: {d}" for c, w, d, _ in v)

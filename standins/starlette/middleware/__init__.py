class Middleware:
    def __init__(self, cls, *a, **kw):
        self.cls, self.args, self.kwargs = cls, a, kw

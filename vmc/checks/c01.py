"""C01 - a step never runs more invocations at once than its worker limit; slots are distinct."""
from __future__ import annotations

import json
from typing import Any

from vmc.checks.common import Program, replay_program, run_programs
from vmc.engine import (
    Action, BasicRuntime, EngineExec, MonRuntime, RunConfig, gate, make_step, make_workflow,
    task_outcome,
)
from vmc.events import A, B, Done, Resp, Work
from vmc.explore import Execution
from workflows import Context
from workflows.events import StartEvent, StepState, StepStateChanged, StopEvent
from workflows.retry_policy import retry_policy, stop_after_attempt, wait_fixed

PID = "C01"


# ---------------------------------------------------------------------------------- oracle
def check_quiescent(h: Any) -> None:
    for r in h.runners[-1:]:
        for name, ws in r.state.workers.items():
            nw = ws.config.num_workers
            ids = [ip.worker_id for ip in ws.in_progress]
            if len(ids) > nw:
                h.violate("in_progress_exceeds_limit", {"step_kind": name.rstrip("0123456789")},
                          f"step {name}: in_progress={ids} num_workers={nw}")
            if len(set(ids)) != len(ids) or any(not (0 <= i < nw) for i in ids):
                h.violate("slot_not_distinct_or_out_of_range", {"step_kind": name.rstrip("0123456789")},
                          f"step {name}: worker ids {ids} num_workers={nw}")
    for name, lst in h.live.items():
        nw = h.limits.get(name)
        if nw is not None and len(lst) > nw:
            h.violate("live_bodies_exceed_limit", {"step_kind": name.rstrip("0123456789")},
                      f"step {name}: {len(lst)} live bodies, num_workers={nw}")


def check_final(h: Any) -> None:
    # bodies started while over the limit (checked at every entry)
    for name, mx in h.max_live.items():
        nw = h.limits.get(name)
        if nw is not None and mx > nw:
            h.violate("live_bodies_exceed_limit", {"step_kind": name.rstrip("0123456789")},
                      f"step {name}: up to {mx} live bodies, num_workers={nw}")
    # stream: no second RUNNING for (step, worker) before its NOT_RUNNING; ids in range
    running: set[tuple[str, str]] = set()
    for ev in h.published:
        if isinstance(ev, StepStateChanged):
            key = (ev.name, ev.worker_id)
            if ev.step_state == StepState.RUNNING:
                nw = h.limits.get(ev.name)
                if key in running:
                    h.violate("slot_reused_while_running", {"step_kind": ev.name.rstrip("0123456789")},
                              f"second RUNNING for {key} before NOT_RUNNING")
                if nw is not None and not (ev.worker_id.isdigit() and 0 <= int(ev.worker_id) < nw):
                    h.violate("slot_not_distinct_or_out_of_range", {"step_kind": ev.name.rstrip("0123456789")},
                              f"RUNNING on worker {ev.worker_id}, num_workers={nw}")
                running.add(key)
            elif ev.step_state == StepState.NOT_RUNNING:
                running.discard(key)
        if h.restart_marks and ev is h.restart_marks[0]:
            running.clear()


# -------------------------------------------------------------------------------- programs
def _limits(wf: Any) -> dict[str, int]:
    return {n: f._step_config.num_workers for n, f in wf._get_steps().items()}


def wf_fan(k: int, w: int, retry: str | None = None, fail_uids: tuple[int, ...] = ()) -> type:
    async def start(self, ctx, ev, inv):  # noqa: ANN001
        for i in range(k):
            ctx.send_event(Work(uid=i))
        return None

    async def work(self, ctx, ev, inv):  # noqa: ANN001
        await gate(f"w{ev.uid}.{inv.retry.retry_number}")
        if ev.uid in fail_uids and inv.retry.retry_number == 0:
            raise RuntimeError("boom")
        return Done(uid=ev.uid)

    async def fin(self, ctx, ev, inv):  # noqa: ANN001
        r = ctx.collect_events(ev, [Done] * k)
        if r is None:
            return None
        return StopEvent(result=sorted(e.uid for e in r))

    pol = None
    if retry == "zero":
        pol = retry_policy(wait=wait_fixed(0), stop=stop_after_attempt(3))
    elif retry == "delay":
        pol = retry_policy(wait=wait_fixed(1), stop=stop_after_attempt(3))
    return make_workflow("Fan", [
        make_step("start", [StartEvent], [Work, None], start),
        make_step("work", [Work], [Done], work, num_workers=w, retry_policy=pol),
        make_step("fin", [Done], [StopEvent, None], fin, num_workers=1),
    ])


def wf_collect(w: int) -> type:
    """collector with num_workers=w and a gate before collect -> stale snapshots / re-runs"""

    async def start(self, ctx, ev, inv):  # noqa: ANN001
        ctx.send_event(A(uid=1))
        ctx.send_event(B(uid=2))
        ctx.send_event(A(uid=3))
        return None

    async def coll(self, ctx, ev, inv):  # noqa: ANN001
        await gate(f"c{ev.uid}")
        r = ctx.collect_events(ev, [A, B, A])
        if r is None:
            return None
        return StopEvent(result=[e.uid for e in r])

    return make_workflow("Coll", [
        make_step("start", [StartEvent], [A, B, None], start),
        make_step("coll", [A, B], [StopEvent, None], coll, num_workers=w),
    ])


def wf_wait(w: int) -> type:
    async def start(self, ctx, ev, inv):  # noqa: ANN001
        ctx.send_event(Work(uid=0))
        ctx.send_event(Work(uid=1))
        ctx.send_event(Work(uid=2))
        return None

    async def ask(self, ctx, ev, inv):  # noqa: ANN001
        r = await ctx.wait_for_event(Resp, requirements={"key": str(ev.uid)}, timeout=None,
                                     waiter_id=f"w{ev.uid}")
        await gate(f"a{ev.uid}")
        return Done(uid=r.uid)

    async def fin(self, ctx, ev, inv):  # noqa: ANN001
        r = ctx.collect_events(ev, [Done] * 3)
        if r is None:
            return None
        return StopEvent(result=sorted(e.uid for e in r))

    return make_workflow("Wait", [
        make_step("start", [StartEvent], [Work, None], start),
        make_step("ask", [Work], [Done], ask, num_workers=w),
        make_step("fin", [Done], [StopEvent, None], fin, num_workers=1),
    ])


def _execute(ex: Execution, mk: Any, scripts: Any = None, resume: bool = False,
             pair: bool = False) -> tuple[Any, list[Any]]:
    cfg = RunConfig(on_quiescent=[check_quiescent], pair_release=pair)
    with EngineExec(ex, cfg) as e:
        h = e.h
        h.restart_marks = []
        cls = mk()
        wf = cls(timeout=None, runtime=MonRuntime(BasicRuntime()))
        h.limits = _limits(wf)
        state = {"hd": wf.run(run_id="r1")}
        e.consume_stream(state["hd"])
        if scripts:
            for sc in scripts(state):
                e.add_script(sc)
        if resume:
            def do_resume() -> None:
                hd = state["hd"]
                if hd.is_done():
                    return
                snap = json.loads(json.dumps(hd.ctx.to_dict()))
                hd._external_adapter.abort()  # hard-stop the original run
                e.loop.drain()
                for lst in h.live.values():
                    lst.clear()
                if h.published:
                    h.restart_marks.append(h.published[-1])
                wf2 = cls(timeout=None, runtime=MonRuntime(BasicRuntime()))
                h.stream_done = False
                state["hd"] = wf2.run(ctx=Context.from_dict(wf2, snap), run_id="r2")
                e.consume_stream(state["hd"])

            e.add_script([Action("snapshot+resume", do_resume)])
        cfg.stop_when = lambda hh: state["hd"].is_done() and hh.stream_done
        e.drive()
        check_final(h)
        out = task_outcome(state["hd"]._result_task)
        obs = {"outcome": out[0], "value": repr(out[1]), "stuck": e.stuck,
               "_metrics": {"max_concurrency": h.max_concurrency}}
        return obs, list(h.violations)


def _resp_scripts(state: dict[str, Any]) -> list[list[Action]]:
    def send(uid: int) -> Action:
        return Action(f"send Resp{uid}", lambda: state["hd"].ctx.send_event(Resp(uid=uid, key=str(uid))))

    return [[send(0)], [send(1)], [send(2)]]


def programs(tier: str) -> list[Program]:
    ps: list[Program] = []
    kmax, wmax = (3, 3) if tier == "quick" else (4, 4)
    for k in range(1, kmax + 1):
        for w in range(1, wmax + 1):
            ps.append(Program(f"fan(k={k},w={w})", {"k": k, "w": w},
                              lambda ex, k=k, w=w: _execute(ex, lambda: wf_fan(k, w)),
                              min_concurrency=min(k, w)))
    for k, w in ([(2, 1), (2, 2), (3, 2)] if tier == "quick" else [(2, 1), (2, 2), (3, 2), (3, 3), (4, 2)]):
        for retry in ("zero", "delay"):
            ps.append(Program(f"fan_retry(k={k},w={w},{retry})", {"k": k, "w": w, "retry": retry},
                              lambda ex, k=k, w=w, retry=retry: _execute(
                                  ex, lambda: wf_fan(k, w, retry, fail_uids=(0, 1))),
                              min_concurrency=min(k, w)))
    for w in (1, 2, 3):
        ps.append(Program(f"collect(w={w})", {"w": w}, lambda ex, w=w: _execute(ex, lambda: wf_collect(w)),
                          min_concurrency=min(3, w)))
    for w in (1, 2):
        ps.append(Program(f"wait(w={w})", {"w": w},
                          lambda ex, w=w: _execute(ex, lambda: wf_wait(w), scripts=_resp_scripts),
                          max_dev=(3 if tier == "quick" else 5)))
    # snapshot + resume at every quiescent point (drives rewind_in_progress)
    for k, w in [(2, 1), (3, 2)] + ([] if tier == "quick" else [(4, 3)]):
        ps.append(Program(f"fan_resume(k={k},w={w})", {"k": k, "w": w},
                          lambda ex, k=k, w=w: _execute(ex, lambda: wf_fan(k, w), resume=True)))
    ps.append(Program("fan_retry_resume(k=2,w=2,zero)", {},
                      lambda ex: _execute(ex, lambda: wf_fan(2, 2, "zero", fail_uids=(0,)), resume=True)))
    ps.append(Program("collect_resume(w=2)", {}, lambda ex: _execute(ex, lambda: wf_collect(2), resume=True)))
    # simultaneous completions (two gates released in the same loop iteration)
    ps.append(Program("fan_pair(k=3,w=3)", {}, lambda ex: _execute(ex, lambda: wf_fan(3, 3), pair=True)))
    if tier != "quick":
        ps.append(Program("collect_pair(w=3)", {}, lambda ex: _execute(ex, lambda: wf_collect(3), pair=True)))
        ps.append(Program("fan_retry_pair(k=3,w=2,zero)", {},
                          lambda ex: _execute(ex, lambda: wf_fan(3, 2, "zero", fail_uids=(0, 1)), pair=True)))
    return ps


RULE = ("every gate-release / external-send / timer / snapshot+resume order of generated fan-out, retry, "
        "collect and wait workflows through the real control loop on a virtual event loop; an execution is "
        "non-trivial when it deviates from the default (oldest-first) schedule at least once; distinct = "
        "distinct choice lists")


def run(tier: str, seed: int) -> Any:
    return run_programs(PID, programs(tier), RULE, seed, assumptions=[
        "llama_index_instrumentation replaced by a no-op stand-in (telemetry only)",
        "async steps only; thread-pool (sync) steps are outside the cooperative scheduler",
        "task switches only at real suspension points; choice points at loop quiescence",
    ])


def replay(rec: dict[str, Any]) -> tuple[bool, str]:
    return replay_program(programs("thorough"), rec)

"""C35 - step lifecycle telemetry on the stream is balanced and ordered."""
from __future__ import annotations

from collections import Counter
from typing import Any

from vmc.checks.common import replay_program, run_programs
from vmc.progs import ENGINE_ASSUMPTIONS, Oracle, catalog, to_programs
from workflows.events import InputRequiredEvent, StepState, StepStateChanged

PID = "C35"


def kind(name: str) -> str:
    return name.rstrip("0123456789")


def _qsnap(state: Any) -> dict[str, Any]:
    return {name: Counter(id(a.event) for a in ws.queue) for name, ws in state.workers.items()}


def _close_tick(h: Any) -> None:
    """PREPARING accounting per processed tick: one PREPARING per event that entered a step queue."""
    rec = getattr(h, "_c35_open", None)
    if rec is None:
        return
    h._c35_open = None
    pre, post, start, tick = rec["pre"], rec["post"], rec["start"], rec["tick"]
    got: dict[str, int] = Counter()
    for e in h.published[start:]:
        if isinstance(e, StepStateChanged) and e.step_state == StepState.PREPARING:
            got[e.name] += 1
    for name in post:
        exp = sum((post[name] - pre.get(name, Counter())).values())
        if got.get(name, 0) != exp:
            h.violate("preparing_count_mismatch", {"step_kind": kind(name), "tick": type(tick).__name__},
                      f"tick {type(tick).__name__}: {exp} events had to wait for capacity of step {name}, "
                      f"{got.get(name, 0)} PREPARING publications")


def on_tick(h: Any, tick: Any, adapter: Any) -> None:
    _close_tick(h)
    r = h.runners[-1]
    pre = _qsnap(h.pre_state) if h.pre_runner is r and h.pre_state is not None else {}
    h._c35_open = {"pre": pre, "post": _qsnap(r.state), "start": len(h.published), "tick": tick}


def _open_slots(h: Any) -> set[tuple[str, str]]:
    a = h.restart_marks[-1] if h.restart_marks else 0
    open_: set[tuple[str, str]] = set()
    for ev in h.published[a:]:
        if isinstance(ev, StepStateChanged):
            if ev.step_state == StepState.RUNNING:
                open_.add((ev.name, ev.worker_id))
            elif ev.step_state == StepState.NOT_RUNNING:
                open_.discard((ev.name, ev.worker_id))
    return open_


def on_quiescent(h: Any) -> None:
    _close_tick(h)
    if not h.runners:
        return
    r = h.runners[-1]
    hd_done = getattr(h, "run_done", lambda: False)()
    open_ = _open_slots(h)
    if not hd_done and r.state.is_running:
        want = {(n, str(ip.worker_id)) for n, ws in r.state.workers.items() for ip in ws.in_progress}
        if open_ != want:
            for n, w in sorted(want - open_):
                h.violate("running_not_announced", {"step_kind": kind(n)},
                          f"slot ({n},{w}) is in progress but the stream shows no open RUNNING for it")
            for n, w in sorted(open_ - want):
                h.violate("not_running_missing", {"step_kind": kind(n)},
                          f"slot ({n},{w}) finished but the stream still shows it RUNNING")
    for n, lst in h.live.items():
        if len(lst) > sum(1 for (s_, _) in open_ if s_ == n):
            h.violate("body_outside_running_window", {"step_kind": kind(n)},
                      f"{len(lst)} live bodies of {n} but only {sum(1 for (s_, _) in open_ if s_ == n)} open RUNNING slots")


def final(h: Any, e: Any, state: dict[str, Any]) -> None:
    _close_tick(h)
    # regular language per slot, per run segment
    marks = [0] + list(h.restart_marks) + [len(h.published)]
    for a, b in zip(marks, marks[1:]):
        seg = h.published[a:b]
        open_slots: dict[tuple[str, str], int] = {}
        for ev in seg:
            if not isinstance(ev, StepStateChanged):
                continue
            key = (ev.name, ev.worker_id)
            if ev.step_state == StepState.RUNNING:
                if open_slots.get(key):
                    h.violate("running_twice_on_slot", {"step_kind": kind(ev.name)}, f"RUNNING twice on {key}")
                open_slots[key] = 1
            elif ev.step_state == StepState.NOT_RUNNING:
                if not open_slots.get(key):
                    h.violate("not_running_without_running", {"step_kind": kind(ev.name)},
                              f"NOT_RUNNING on {key} without RUNNING")
                open_slots[key] = 0
        # a RUNNING may stay unmatched only if the run ended (it always has, here) - but a run that
        # completed normally must have closed the slot of the invocation that produced the result
    # a run that is still live when nothing more can happen: every step body that has returned (or raised) must have been
    # reported NOT_RUNNING - a result nobody ever picks up leaves its slot RUNNING for ever
    hd_ = state.get("hd")
    if hd_ is not None and not hd_.is_done():
        seg = h.published[marks[-2]:]
        for name in {i.step for i in h.invocations}:
            ended = sum(1 for i in h.invocations[getattr(h, "c35_invs_before_last_run", 0):]
                        if i.step == name and i.exited and type(i.exc).__name__ not in ("CancelledError", "WaitingForEvent"))
            reported = sum(1 for ev in seg if isinstance(ev, StepStateChanged) and ev.name == name and ev.step_state == StepState.NOT_RUNNING)
            if ended > reported and not state.get("resumed"):
                h.violate("returned_step_never_reported_not_running", {"step_kind": kind(name)},
                          f"run still live and nothing enabled: {ended} bodies of {name} have ended, {reported} NOT_RUNNING published")
    # bodies must start inside an announced RUNNING window: checked at entry below
    for clause, w, d in getattr(h, "_c35_entry_viol", []):
        h.violate(clause, w, d)
    # InputRequiredEvent returned by a step is published exactly once
    for inv in h.invocations:
        if inv.exited and inv.exc is None and isinstance(inv.result, InputRequiredEvent):
            n = sum(1 for p in h.published if p is inv.result)
            # excused only when the run ended before the result tick was processed
            processed = any(getattr(t, "type", "") == "step_result" and any(
                getattr(r, "result", None) is inv.result for r in t.result) for t in h.ticks)
            if processed and n != 1:
                h.violate("input_required_not_published_once", {"step_kind": kind(inv.step)},
                          f"InputRequiredEvent returned by {inv.step} published {n} times")


def observe(h: Any, e: Any, state: dict[str, Any]) -> Any:
    from vmc.engine import stream_repr

    return stream_repr(h.published)


ORACLE = Oracle(on_quiescent=on_quiescent, on_tick=on_tick, final=final)

RULE = ("all schedules of the shared engine program catalog (fan-out, retries, collect re-runs, waiter replays, "
        "HITL, resume) plus a request event that is also the input of a retried step; per processed tick the published PREPARING/RUNNING/NOT_RUNNING events are compared with "
        "the change of the runner's queue / in-progress sets, per slot the stream must match (RUNNING NOT_RUNNING)*; "
        "non-trivial = at least one deviation from the default schedule")
from vmc.tables import _ROUND7 as _R7  # noqa: E402

RULE += _R7["C35"]



def wf_request_consumed_with_retry(delay: float) -> type:
    """an InputRequiredEvent returned by one step is also the INPUT of another step that fails once and is retried: the
    request went out when it was returned; re-queueing it for the retry is not a second request"""
    from vmc.engine import gate, make_step, make_workflow
    from vmc.events import Ask, Done
    from workflows.events import StartEvent, StopEvent
    from workflows.retry_policy import retry_policy, stop_after_attempt, wait_fixed

    async def ask(self, ctx, ev, inv):  # noqa: ANN001
        await gate("ask")
        return Ask(uid=1)

    async def audit(self, ctx, ev, inv):  # noqa: ANN001
        n = inv.retry.retry_number
        await gate(f"audit#{n}")
        if n == 0:
            raise RuntimeError("audit log unavailable")
        return Done(uid=ev.uid)

    async def fin(self, ctx, ev, inv):  # noqa: ANN001
        return StopEvent(result="audited")

    return make_workflow("RequestConsumed", [
        make_step("ask", [StartEvent], [Ask], ask),
        make_step("audit", [Ask], [Done], audit, retry_policy=retry_policy(wait=wait_fixed(delay), stop=stop_after_attempt(3))),
        make_step("fin", [Done], [StopEvent], fin)])


def extra_specs(tier: str) -> list[Any]:
    from vmc.progs import Spec

    return [Spec("request_consumed_with_retry(zero)", {}, lambda: wf_request_consumed_with_retry(0), tags=("hitl", "retry")),
            Spec("request_consumed_with_retry(delay)", {}, lambda: wf_request_consumed_with_retry(2.0), tags=("hitl", "retry"))]


def programs(tier: str) -> list[Any]:
    return to_programs(catalog(tier) + extra_specs(tier), ORACLE)


def run(tier: str, seed: int) -> Any:
    return run_programs(PID, programs(tier), RULE, seed, assumptions=ENGINE_ASSUMPTIONS)


def replay(rec: dict[str, Any]) -> tuple[bool, str]:
    return replay_program(programs("thorough"), rec)

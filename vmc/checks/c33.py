"""C33 - backup archives restore exactly what was backed up.

The enumeration runs in a worker under /root/miniconda/bin/python (the only interpreter here that has
``cryptography``); see vmc/c33_worker.py.  This module launches it against the current working tree and turns its
JSON result into evidence.
"""
from __future__ import annotations

import json
import os
import subprocess
from typing import Any

from vmc import bootstrap
from vmc.report import CheckResult, Violation

PID = "C33"
CONDA = "/root/miniconda/bin/python"

RULE = ("every subset of 3 valid deployment names x per deployment {secret absent, empty map, 27 YAML-tricky keys/values (yes, 0123, null, "
        "multiline, unicode, empty, ': ', '- ', '#', leading/trailing space, ~, 1e3, 0x10, true, 12:30, dates, quotes, <<, tabs, %TAG, anchors, "
        "tags, 300 chars)} x generation {absent, 0, 7} x password {none, ascii, unicode, single space (+ 200 chars, newline in thorough)}: "
        "create_backup_archive -> read_backup_archive with the same password compared field by field (names, CR dict with tricky values, "
        "secret map, generation, manifest); every encrypted archive is also read with 4 different passwords (incl. none), which must fail; "
        "PBKDF2 iterations lowered to 1000 for breadth, 2 cases at the real 600000; non-trivial = archives with at least one deployment")
from vmc.tables import _ROUND6 as _R6  # noqa: E402

RULE += _R6["C33"]
from vmc.tables import _ROUND7 as _R7  # noqa: E402

RULE += _R7["C33"]



def run(tier: str, seed: int) -> Any:
    res = CheckResult(PID, RULE)
    if not os.path.exists(CONDA):
        res.sanity_errors.append(f"{CONDA} (the interpreter with 'cryptography') is missing: C33 cannot run")
        return res
    env = dict(os.environ, VMC_REPO=bootstrap.REPO, PYTHONDONTWRITEBYTECODE="1", PYTHONHASHSEED="0")
    env.pop("PYTHONPATH", None)
    p = subprocess.run([CONDA, os.path.join(bootstrap.VERIF, "vmc", "c33_worker.py"), tier], capture_output=True, text=True, env=env, timeout=3000)
    line = next((ln for ln in p.stdout.splitlines() if ln.startswith("C33-RESULT ")), None)
    if p.returncode != 0 or line is None:
        res.sanity_errors.append(f"worker failed (exit {p.returncode}): {p.stderr[-800:]}")
        return res
    out = json.loads(line[len("C33-RESULT "):])
    res.evaluations = out["evaluations"]
    res.distinct_nontrivial = out["nontrivial"]
    res.states = out["evaluations"]
    res.transitions = out["evaluations"] * 2
    res.traces_validated = out["evaluations"]
    res.exhaustive = True
    res.samples = out["samples"]
    res.extra = {"kdf_iterations_real": out["kdf_iterations_real"], "interpreter": CONDA}
    res.assumptions = ["deployment names are valid DNS-1035 labels (no dots), as the property states; passwords are non-empty",
                       "runs under the conda interpreter with /venv's pure-python yaml package; PBKDF2 iterations lowered to 1000 except 2 cases"]
    for clause, w, d in out["violations"]:
        res.add_violation(Violation(clause, w, d, {"tier": tier}))
    return res


def replay(rec: dict[str, Any]) -> tuple[bool, str]:
    r = run(rec.get("tier", "quick"), 0)
    return (not r.violations), "\n".join(f"VIOLATED {v.clause} {v.witness}: {v.detail}" for v in r.violations)

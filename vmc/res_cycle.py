"""Resource factories written the way ordinary source writes a dependency cycle: with postponed (string) annotations, the only way
two factories can name each other before both exist.  Every evaluation of such an annotation builds a NEW Resource descriptor."""
from __future__ import annotations

from typing import Annotated

from vmc import bootstrap

bootstrap.setup()

from workflows.resource import Resource  # noqa: E402

CALLS: dict[str, int] = {}


class Thing:
    def __init__(self, name: str, dep: object = None) -> None:
        self.name, self.dep = name, dep


def make_alpha(b: Annotated[Thing, Resource(make_beta)]) -> Thing:
    CALLS["alpha"] = CALLS.get("alpha", 0) + 1
    return Thing("alpha", b)


def make_beta(a: Annotated[Thing, Resource(make_alpha)]) -> Thing:
    CALLS["beta"] = CALLS.get("beta", 0) + 1
    return Thing("beta", a)


def make_gamma(g: Annotated[Thing, Resource(make_gamma)]) -> Thing:
    CALLS["gamma"] = CALLS.get("gamma", 0) + 1
    return Thing("gamma", g)


# an acyclic chain written the same way (must resolve; the shared leaf is created once per resolution)
def make_leaf() -> Thing:
    CALLS["leaf"] = CALLS.get("leaf", 0) + 1
    return Thing("leaf")


def make_mid(leaf: Annotated[Thing, Resource(make_leaf)]) -> Thing:
    CALLS["mid"] = CALLS.get("mid", 0) + 1
    return Thing("mid", leaf)


def make_top(mid: Annotated[Thing, Resource(make_mid)], leaf: Annotated[Thing, Resource(make_leaf)]) -> Thing:
    CALLS["top"] = CALLS.get("top", 0) + 1
    return Thing("top", (mid, leaf))

"""C05 - retry budgets count attempts and elapsed time correctly."""
from __future__ import annotations

import itertools
import multiprocessing as mp
import warnings
from typing import Any

from vmc.report import CheckResult, Violation
from vmc.retry_harness import run_failing
from workflows.retry_policy import (
    ConstantDelayRetryPolicy, ExponentialBackoffRetryPolicy, retry_if_exception_type, retry_policy,
    stop_after_attempt, stop_after_delay, stop_before_delay, wait_fixed,
)

PID = "C05"
CLOCKS = [(1_700_000_000.0, 5_000.0), (5_000.0, 5_000.0), (1_700_000_000.0, 12.5)]


# --- reference: stop terms evaluated on (attempt count, really elapsed seconds, upcoming sleep)
def ref_stop(term: Any, k: int, elapsed: float, sleep: float) -> bool:
    op = term[0]
    if op == "attempt":
        return k >= term[1]
    if op in ("delay", "delay_td"):
        return elapsed >= term[1]
    if op in ("before", "before_td"):
        return elapsed + sleep >= term[1]
    if op == "or":
        return ref_stop(term[1], k, elapsed, sleep) or ref_stop(term[2], k, elapsed, sleep)
    if op == "and":
        return ref_stop(term[1], k, elapsed, sleep) and ref_stop(term[2], k, elapsed, sleep)
    raise ValueError(op)


def build_stop(term: Any) -> Any:
    op = term[0]
    if op == "attempt":
        return stop_after_attempt(term[1])
    if op == "delay":
        return stop_after_delay(term[1])
    if op == "before":
        return stop_before_delay(term[1])
    if op == "delay_td":  # the same budget given as a timedelta (sub-second part included)
        from datetime import timedelta

        return stop_after_delay(timedelta(seconds=term[1]))
    if op == "before_td":
        from datetime import timedelta

        return stop_before_delay(timedelta(seconds=term[1]))
    if op == "or":
        return build_stop(term[1]) | build_stop(term[2])
    if op == "and":
        return build_stop(term[1]) & build_stop(term[2])
    raise ValueError(op)


class NoSeedPolicy:
    """custom policy whose next() takes no seed (the engine must not pass one)"""

    def next(self, elapsed_time: float, attempts: int, error: Exception) -> float | None:
        return None if attempts >= 3 else 0.5


def reference(case: dict[str, Any]) -> dict[str, Any]:
    """executions, elapsed at the last failure, start times - from the property text only"""
    dur, w = case["dur"], case["wait"]
    succeed_at = case.get("succeed_at")
    t, k, start1 = 0.0, 0, 0.0
    starts = []
    while True:
        k += 1
        starts.append(t)
        if succeed_at is not None and k - 1 == succeed_at:
            return {"executions": k, "failed": False, "starts": starts}
        tf = t + dur + (case.get("wait_timeout", 0.0) if case.get("wait_on_attempt") == k - 1 else 0.0)
        e = tf - start1
        if not case.get("retryable", True):
            break
        if ref_stop(case["stop"], k, e, w):
            break
        t = tf + max(w, case.get("busy_block", 0.0))
        if k > 40:
            raise RuntimeError("reference does not terminate")
    return {"executions": k, "failed": True, "elapsed": e, "starts": starts}


def build_policy(case: dict[str, Any]) -> Any:
    kind = case.get("policy", "composed")
    with warnings.catch_warnings():
        warnings.simplefilter("ignore")
        if kind == "constant_legacy":
            return ConstantDelayRetryPolicy(maximum_attempts=case["stop"][1], delay=case["wait"])
        if kind == "exp_legacy":
            # initial_delay == max_delay -> constant delays, so only the budget is exercised here
            return ExponentialBackoffRetryPolicy(maximum_attempts=case["stop"][1], initial_delay=case["wait"],
                                                 multiplier=1.0, max_delay=case["wait"], jitter=False)
    if kind == "noseed":
        return NoSeedPolicy()
    if kind == "cause_type":
        # retry while the failure was CAUSED by a KeyError (the predicate walks the __cause__ chain)
        from workflows.retry_policy import retry_if_exception_cause_type

        return retry_policy(retry=retry_if_exception_cause_type(KeyError), wait=wait_fixed(case["wait"]), stop=build_stop(case["stop"]))
    retry = retry_if_exception_type(RuntimeError) if "retry_type" in case else None
    return retry_policy(retry=retry, wait=wait_fixed(case["wait"]), stop=build_stop(case["stop"]))


def cases(tier: str) -> list[dict[str, Any]]:
    cs: list[dict[str, Any]] = []
    ns = range(0, 5) if tier == "quick" else range(0, 7)
    for n in ns:
        for wait in (0, 1):
            for dur in (0.0, 0.7):
                cs.append({"stop": ("attempt", n), "wait": wait, "dur": dur, "clause": "attempt_budget"})
    ds = (0.5, 2.5, 10.0) if tier == "quick" else (0.5, 1.0, 2.5, 4.0, 10.0)
    for d in ds:
        for wait, dur in ((1, 0.0), (1, 0.7), (0, 0.7), (1, 3.0), (2, 0.25)):
            cs.append({"stop": ("delay", d), "wait": wait, "dur": dur, "clause": "delay_budget"})
            cs.append({"stop": ("before", d), "wait": wait, "dur": dur, "clause": "composed_budget"})
    for n, d in itertools.product((2, 4), (2.5, 10.0)):
        for wait, dur in ((1, 0.7), (1, 0.0)):
            cs.append({"stop": ("or", ("attempt", n), ("delay", d)), "wait": wait, "dur": dur, "clause": "composed_budget"})
            cs.append({"stop": ("and", ("attempt", n), ("delay", d)), "wait": wait, "dur": dur, "clause": "composed_budget"})
    # non-retryable vs retryable error under the same policy
    for n in (3,):
        cs.append({"stop": ("attempt", n), "wait": 0, "dur": 0.0, "retry_type": True, "retryable": False,
                   "exc": "ValueError", "clause": "non_retryable_once"})
        cs.append({"stop": ("attempt", n), "wait": 0, "dur": 0.0, "retry_type": True, "retryable": True,
                   "exc": "RuntimeError", "clause": "attempt_budget"})
    # success after k failures
    for k in (0, 1, 2):
        cs.append({"stop": ("attempt", 4), "wait": 1, "dur": 0.7, "succeed_at": k, "clause": "attempt_budget"})
    # a predicate on the CAUSE of the failure; every attempt's error is chained from one and the same cause object (a cached
    # transport error), or is the very same exception instance each time (an already-failed future awaited again)
    for shared in ("cause", "instance"):
        for n in (2, 4):
            cs.append({"policy": "cause_type", "stop": ("attempt", n), "wait": 0, "dur": 0.0, "shared_exception": shared, "clause": "attempt_budget"})
        cs.append({"policy": "cause_type", "stop": ("attempt", 3), "wait": 1, "dur": 0.7, "shared_exception": shared, "clause": "attempt_budget"})
    # legacy constructors and a custom policy without ``seed``
    for n in (1, 3):
        cs.append({"policy": "constant_legacy", "stop": ("attempt", n), "wait": 1, "dur": 0.0, "clause": "attempt_budget"})
        cs.append({"policy": "exp_legacy", "stop": ("attempt", n), "wait": 1, "dur": 0.0, "clause": "attempt_budget"})
    cs.append({"policy": "noseed", "stop": ("attempt", 3), "wait": 0.5, "dur": 0.2, "clause": "attempt_budget"})
    # the failing event first waits in the step's queue (its only worker is busy): queue time is not attempt time
    for qw in (0.6, 3.0):
        cs.append({"stop": ("delay", 2.5), "wait": 1, "dur": 0.7, "queue_wait": qw, "clause": "delay_budget"})
        cs.append({"stop": ("attempt", 3), "wait": 1, "dur": 0.7, "queue_wait": qw, "clause": "attempt_budget"})
        cs.append({"stop": ("or", ("attempt", 4), ("delay", 2.5)), "wait": 1, "dur": 0.0, "queue_wait": qw, "clause": "composed_budget"})
    # every retry comes due while the step's only worker is busy: it waits in the step queue and must keep its
    # attempt count, first-attempt time and last exception
    for bb in (1.5, 4.0):
        cs.append({"stop": ("attempt", 4), "wait": 1, "dur": 0.7, "busy_block": bb, "clause": "attempt_budget"})
        cs.append({"stop": ("delay", 10.0), "wait": 1, "dur": 0.7, "busy_block": bb, "clause": "delay_budget"})
        cs.append({"stop": ("or", ("attempt", 3), ("delay", 10.0)), "wait": 0, "dur": 0.25, "busy_block": bb, "clause": "composed_budget"})
    # nested compositions mixing | and & (group as left and as right operand)
    A, D = (lambda n: ("attempt", n)), (lambda d: ("delay", d))
    for t in (("or", ("and", A(4), D(10000.0)), A(6)), ("and", ("or", A(2), D(10000.0)), A(5)),
              ("or", A(6), ("and", A(4), D(10000.0))), ("and", A(5), ("or", A(2), D(10000.0))),
              ("or", ("and", A(2), D(2.5)), A(5)), ("and", ("or", A(4), D(2.5)), A(2))):
        for wait, dur in ((0, 0.0), (1, 0.7)):
            cs.append({"stop": t, "wait": wait, "dur": dur, "clause": "composed_budget"})
    # budgets given as timedelta values with a sub-second part
    for d in (0.5, 2.5):
        for wait, dur in ((1, 0.7), (1, 0.0), (0.25, 0.25)):
            cs.append({"stop": ("delay_td", d), "wait": wait, "dur": dur, "clause": "delay_budget"})
            cs.append({"stop": ("before_td", d), "wait": wait, "dur": dur, "clause": "composed_budget"})
    # an attempt (the first one / a retry) waits for an answer from outside before it fails: waiting is not an attempt, the
    # retry number, previous exception and first-attempt time carry over
    for won in (0, 1, 2):
        cs.append({"stop": ("attempt", 4), "wait": 0, "dur": 0.0, "wait_on_attempt": won, "clause": "attempt_budget"})
        cs.append({"stop": ("attempt", 3), "wait": 1, "dur": 0.7, "wait_on_attempt": won, "clause": "attempt_budget"})
        cs.append({"stop": ("delay", 2.5), "wait": 1, "dur": 0.7, "wait_on_attempt": won, "clause": "delay_budget"})
    # another step accepts the same event: one that never fails (runs once, sees no retry data), or one that fails under a
    # larger budget of its own (each step counts only its own attempts and sees only its own previous exception)
    for sibk in ("steady", "flaky"):
        for n in (1, 3):
            for wait, dur in ((0, 0.0), (1, 0.7)):
                cs.append({"stop": ("attempt", n), "wait": wait, "dur": dur, "sibling": sibk, "clause": "attempt_budget"})
        cs.append({"stop": ("delay", 2.5), "wait": 1, "dur": 0.7, "sibling": sibk, "clause": "delay_budget"})
        cs.append({"stop": ("attempt", 3), "wait": 1, "dur": 0.7, "sibling": sibk, "busy_block": 1.5, "clause": "attempt_budget"})
        cs.append({"stop": ("attempt", 4), "wait": 1, "dur": 0.7, "sibling": sibk, "succeed_at": 2, "clause": "attempt_budget"})
    # ... or nobody answers and the wait ends with its TimeoutError 5 s later: the attempt goes on and fails; the waiting time is
    # part of the attempt (and of the elapsed time), the retry number and previous exception stay what they were
    for won in (0, 1, 2):
        cs.append({"stop": ("attempt", 4), "wait": 0, "dur": 0.0, "wait_on_attempt": won, "wait_timeout": 5.0, "clause": "attempt_budget"})
        cs.append({"stop": ("attempt", 3), "wait": 1, "dur": 0.7, "wait_on_attempt": won, "wait_timeout": 5.0, "clause": "attempt_budget"})
        cs.append({"stop": ("delay", 12.0), "wait": 1, "dur": 0.7, "wait_on_attempt": won, "wait_timeout": 5.0, "clause": "delay_budget"})
    # ... and budgets of a day and more (timedelta keeps days apart from seconds), alone and composed
    for d in (86400.0, 86402.5, 129600.0):
        for wait, dur in ((40000, 0.7), (30000, 0.0)):
            cs.append({"stop": ("delay_td", d), "wait": wait, "dur": dur, "clause": "delay_budget"})
            cs.append({"stop": ("before_td", d), "wait": wait, "dur": dur, "clause": "composed_budget"})
            cs.append({"stop": ("or", ("delay_td", d), ("attempt", 4)), "wait": wait, "dur": dur, "clause": "composed_budget"})
        cs.append({"stop": ("or", ("and", ("attempt", 2), ("delay_td", d)), ("attempt", 5)), "wait": 0, "dur": 0.0, "clause": "composed_budget"})
    if tier != "quick":
        # systematic product: every atom and every pair under | and & x waits x durations
        atoms = [("attempt", n) for n in (1, 2, 3, 5)] + [("delay", d) for d in (1.0, 2.5, 4.0)] + [("before", d) for d in (1.0, 2.5, 4.0)] \
            + [("delay_td", 1.5), ("before_td", 1.5)]
        terms: list[Any] = list(atoms)
        for a, b in itertools.product(atoms, repeat=2):
            if a < b:
                terms.append(("or", a, b))
                terms.append(("and", a, b))
        for t in terms:
            if t[0] == "and" and not any(x[0] == "attempt" for x in t[1:]) and False:
                continue
            for wait, dur in ((0, 0.25), (0.5, 0.0), (1, 0.7), (2, 0.25), (1, 3.0)):
                # every case must terminate: an and-term of two time budgets always does; so does any term with finite atoms
                cs.append({"stop": t, "wait": wait, "dur": dur,
                           "clause": "attempt_budget" if t[0] == "attempt" else ("delay_budget" if t[0] == "delay" else "composed_budget")})
    out = []
    for c in cs:
        for clock in CLOCKS:
            for wall in (False, True):
                for handler in (False, True):
                    if tier == "quick" and handler and clock != CLOCKS[0]:
                        continue
                    out.append({**c, "clock": clock, "wall_adapter": wall, "handler": handler})
    return out


def check_case(case: dict[str, Any]) -> tuple[dict[str, Any], list[tuple[str, dict[str, Any], str]]]:
    ref = reference(case)
    exc_cls = {"ValueError": ValueError, "RuntimeError": RuntimeError}[case.get("exc", "RuntimeError")]
    raised: list[BaseException] = []

    shared_cause = KeyError("cached transport error")
    shared_instance = RuntimeError("the same failure object every time")
    shared_instance.__cause__ = shared_cause

    def exc_for(i: int) -> BaseException | None:
        if case.get("succeed_at") is not None and i == case["succeed_at"]:
            return None
        if case.get("shared_exception") == "instance":
            ex: BaseException = shared_instance
        else:
            ex = exc_cls(f"fail{i}")
            if case.get("shared_exception") == "cause":
                ex.__cause__ = shared_cause
        raised.append(ex)
        return ex

    from vmc.loop import Livelock

    try:
        obs = run_failing(build_policy(case), exc_for, dur=case["dur"], clock=tuple(case["clock"]),
                          wall_adapter=case["wall_adapter"], with_handler=case["handler"],
                          queue_wait=case.get("queue_wait", 0.0), busy_block=case.get("busy_block", 0.0),
                          wait_on_attempt=case.get("wait_on_attempt"), wait_timeout=case.get("wait_timeout", 0.0), sibling=case.get("sibling"),
                          sibling_policy=(retry_policy(wait=wait_fixed(case["wait"]), stop=stop_after_attempt(ref["executions"] + 3))
                                          if case.get("sibling") == "flaky" else None))
    except Livelock:
        # zero delay, zero duration and a policy that never gives up: the step is retried for ever without the loop
        # ever going quiet - every case of this grid has a finite budget
        return {"executions": len(raised)}, [("run_does_not_finish", {"stop": case["stop"][0], "policy": case.get("policy", "composed")},
                                              f"case={case}: retried {len(raised)}+ times without end (budget {ref['executions']} executions)")]
    v: list[tuple[str, dict[str, Any], str]] = []
    clock_kind = ("wall_adapter" if case["wall_adapter"] else
                  "bases_equal" if case["clock"][0] == case["clock"][1] else "bases_differ")
    w = {"clock": clock_kind, "stop": case["stop"][0], "policy": case.get("policy", "composed")}
    if case.get("queue_wait"):
        w["queued_first"] = True
    if case.get("busy_block"):
        w["retry_queued_behind_busy_worker"] = True
    if case.get("wait_on_attempt") is not None:
        w["an_attempt_waits_for_an_event"] = "first" if case["wait_on_attempt"] == 0 else "a_retry"
        if case.get("wait_timeout"):
            w["the_wait_times_out"] = True
    if case.get("sibling"):
        w["another_step_accepts_the_same_event"] = case["sibling"]
    if case.get("shared_exception"):
        w["attempts_share_an_exception_object"] = case["shared_exception"]
    desc = f"case={ {k: case[k] for k in case if k not in ('clause',)} }"
    n_exec = len(obs.attempts)
    if obs.stuck or obs.capped:
        v.append(("run_does_not_finish", w, f"{desc}: stuck={obs.stuck} capped={obs.capped} after {n_exec} executions"))
        return {"executions": n_exec}, v
    if n_exec != ref["executions"]:
        v.append((case["clause"], w, f"{desc}: executed {n_exec} times, expected {ref['executions']}"))
    # retry_info(): numbers 0,1,2.. and previous attempt's exception
    for i, a in enumerate(obs.attempts):
        if a.retry_number != i:
            v.append(("retry_info_number", w, f"{desc}: attempt {i} saw retry_number={a.retry_number}"))
        want_exc = obs.attempts[i - 1].raised if i > 0 else None
        if a.last_exception is not want_exc:
            v.append(("retry_info_last_exception", w,
                      f"{desc}: attempt {i} saw last_exception={a.last_exception!r}, previous raised {want_exc!r}"))
    if case.get("sibling") == "steady" and len(obs.sibling_attempts) != 1:
        v.append(("attempt_budget", w, f"{desc}: the step that never fails was executed {len(obs.sibling_attempts)} times"))
    for i, a in enumerate(obs.sibling_attempts):
        if a.retry_number != i:
            v.append(("retry_info_number", w, f"{desc}: the other step's attempt {i} saw retry_number={a.retry_number}"))
        want_exc = obs.sibling_attempts[i - 1].raised if i > 0 else None
        if a.last_exception is not want_exc:
            v.append(("retry_info_last_exception", w,
                      f"{desc}: the other step's attempt {i} saw last_exception={a.last_exception!r}, its previous attempt raised {want_exc!r}"))
    fe = obs.failed_event
    if ref["failed"] and n_exec == ref["executions"]:
        if fe is None:
            v.append(("failed_event_missing", w, f"{desc}: no failure event observed"))
        else:
            real_elapsed = obs.attempts[-1].t_fail - (obs.first_entry_t if obs.first_entry_t is not None else obs.attempts[0].t_enter)
            if fe.attempts != n_exec:
                v.append(("failed_event_attempts", {**w, "event": type(fe).__name__},
                          f"{desc}: {type(fe).__name__}.attempts={fe.attempts}, real {n_exec}"))
            if abs(fe.elapsed_seconds - real_elapsed) > 1e-6:
                v.append(("failed_event_elapsed", {**w, "event": type(fe).__name__},
                          f"{desc}: {type(fe).__name__}.elapsed_seconds={fe.elapsed_seconds}, real {real_elapsed}"))
    return {"executions": n_exec, "starts": [round(a.t_enter, 6) for a in obs.attempts]}, v


def _work(case: dict[str, Any]) -> tuple[dict[str, Any], Any, list[Any]]:
    o, v = check_case(case)
    return case, o, v


RULE = ("grid of retry policies (stop_after_attempt n=0..4(6), stop_after_delay / stop_before_delay d given as numbers or "
        "timedeltas, |,& compositions - thorough: every pair of 12 atoms under | and & -, retryable vs non-retryable error, legacy constructors, custom policy without seed) x "
        "step durations x wait_fixed delays x clock configurations (wall/monotonic bases differ or equal, "
        "wall-clock adapter) x failure event kind; every case runs the real engine on the virtual clock and is "
        "compared with a reference computed from really elapsed virtual time; a case is non-trivial when the step "
        "is executed more than once")
from vmc.tables import _ROUND6 as _R6  # noqa: E402

RULE += _R6["C05"]
from vmc.tables import _ROUND7 as _R7  # noqa: E402

RULE += _R7["C05"]
from vmc.tables import _ROUND8 as _R8  # noqa: E402

RULE += _R8["C05"]



def run(tier: str, seed: int) -> CheckResult:
    cs = cases(tier)
    res = CheckResult(PID, RULE)
    ctx = mp.get_context("fork")
    with ctx.Pool(min(16, len(cs))) as pool:
        results = pool.map(_work, cs, chunksize=8)
    distinct = set()
    trans = 0
    for case, o, v in results:
        res.evaluations += 1
        trans += o.get("executions", 0)
        if o.get("executions", 0) > 1:
            distinct.add(repr(sorted((k, repr(x)) for k, x in case.items())))
        for clause, w, d in v:
            res.add_violation(Violation(clause, w, d, {"case": case}))
        if len(res.samples) < 5 and o.get("executions", 0) > 1:
            res.samples.append({"case": {k: case[k] for k in case}, "observed": o})
    res.distinct_nontrivial = len(distinct)
    res.states = res.evaluations
    res.transitions = trans
    res.traces_validated = res.evaluations
    res.exhaustive = True
    res.extra = {"grid": "complete enumeration of the stated grid", "clock_configurations": len(CLOCKS) * 2}
    res.assumptions = ["single failing step, wait_fixed delays only (delay indexing belongs to C06)",
                       "virtual clock: time.time and time.monotonic advance together from different bases",
                       "llama_index_instrumentation no-op stand-in"]
    return res


def replay(rec: dict[str, Any]) -> tuple[bool, str]:
    case = rec["case"]
    case["clock"] = tuple(case["clock"])
    case["stop"] = _tup(case["stop"])
    o, v = check_case(case)
    return (not v), f"case={case}\nobserved={o}\n" + "\n".join(f"VIOLATED {c} {w}: {d}" for c, w, d in v)


def _tup(x: Any) -> Any:
    return tuple(_tup(i) for i in x) if isinstance(x, list) else x

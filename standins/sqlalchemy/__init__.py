"""Stand-in for sqlalchemy (absent): names only, imported for annotations / Postgres URL handling never reached."""

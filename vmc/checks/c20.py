"""C20 - concurrent state updates are never lost.

2-3 tasks, each performing one store operation (set, set_state, clear, or an edit_state block that reads, suspends
at a harness gate and writes - possibly starting a helper task that writes on its own later), are started at explorer-chosen points on the real InMemoryStateStore /
SqliteStateStore; every interleaving of starts and gate releases is executed on the virtual loop and the final
state must equal the result of some serial order of the same operations (brute force over all permutations on a
nested-dict reference, each edit_state block atomic).
"""
from __future__ import annotations

import asyncio
import itertools
import json
import os
import shutil
import tempfile
from typing import Any

from vmc import bootstrap

bootstrap.setup(("llama_agents.server",))

from vmc.checks.common import Program, replay_program, run_programs  # noqa: E402
from vmc.explore import Execution  # noqa: E402
from vmc.loop import VLoop  # noqa: E402
from vmc import state19 as S19  # noqa: E402
from llama_agents.server._store.sqlite.sqlite_workflow_store import SqliteWorkflowStore  # noqa: E402
from workflows.context.state_store import DictState, InMemoryStateStore  # noqa: E402

PID = "C20"
_TMP: dict[str, Any] = {}


def make_store(backend: str, initial: dict[str, Any], typed: bool = False) -> Any:
    if backend == "memory":
        if typed:
            return InMemoryStateStore(S19.Child(**json.loads(json.dumps(initial))))
        return InMemoryStateStore(DictState(**json.loads(json.dumps(initial))))
    key = f"ws{os.getpid()}"
    if key not in _TMP:
        _TMP["dir"] = tempfile.mkdtemp(prefix="vmc-c20-", dir="/dev/shm" if os.path.isdir("/dev/shm") else None)
        _TMP[key] = SqliteWorkflowStore(os.path.join(_TMP["dir"], f"w{os.getpid()}.db"))
        _TMP["n"] = 0
        import atexit

        atexit.register(shutil.rmtree, _TMP["dir"], True)
    _TMP["n"] += 1
    st = _TMP[key].create_state_store(f"run-{_TMP['n']}", S19.Child if typed else DictState)
    return st


# op: (kind, ...) - the reference effect on a plain dict, applied atomically
def ref_apply(d: dict[str, Any], op: Any) -> dict[str, Any]:
    d = json.loads(json.dumps(d))
    k = op[0]
    if k == "set":
        cur = d
        segs = op[1].split(".")
        for s in segs[:-1]:
            if not isinstance(cur.get(s), dict):
                cur[s] = {}
            cur = cur[s]
        cur[segs[-1]] = op[2]
    elif k == "set_state":
        d = dict(op[1])
    elif k == "clear":
        d = {}
    elif k == "edit_inc":
        d[op[1]] = d.get(op[1], 0) + 1
    elif k == "edit_put":
        d[op[1]] = op[2]
    elif k == "edit_copy":  # y := x  (reads one key, writes another)
        d[op[2]] = d.get(op[1], 0)
    elif k == "t_edit_nested_inc":  # child-only field, mutated in place after the suspension
        d["nested"]["x"] += 1
    elif k == "t_edit_extra_append":
        d["extra"] = d["extra"] + [op[1]]
    elif k == "t_edit_count_inc":
        d["count"] += 1
    elif k == "t_set_parent":  # set_state with the PARENT type: every parent field is overlaid, child-only fields stay
        d.update(S19.Base(**op[1]).model_dump())
    elif k == "t_set_child":
        d = S19.Child(**op[1]).model_dump()
    elif k == "edit_two":  # two suspension points inside one block
        d[op[1]] = d.get(op[1], 0) + 1
        d[op[2]] = d.get(op[2], 0) + 10
    return d


def execute(ex: Execution, backend: str, ops: list[Any], initial: dict[str, Any], typed: bool = False,
            cancels: int = 0, write_faults: int = 0) -> tuple[Any, list[Any]]:
    """``write_faults``: that many writes of the SQLite store (explorer-chosen) find the database held by another connection
    ('database is locked'); the operation that hits it either fails - then it has no effect - or completes"""
    loop = VLoop()
    loop.install()
    v: list[Any] = []
    if typed:
        initial = S19.Child(**initial).model_dump()
    try:
        store = make_store(backend, initial, typed)
        fault = {"left": write_faults, "hit": 0}
        if write_faults:
            import sqlite3 as _sq

            orig_save = store._save_state

            def save(*a: Any, **kw: Any) -> Any:
                if fault["left"] and ex.choose(2, "write", ["ok", "database is locked"]) == 1:
                    fault["left"] -= 1
                    fault["hit"] += 1
                    raise _sq.OperationalError("database is locked")
                return orig_save(*a, **kw)

            store._save_state = save  # type: ignore[method-assign]
        gates: dict[str, asyncio.Future] = {}
        tasks: dict[int, asyncio.Task] = {}
        children: list[asyncio.Task] = []
        n = len(ops)

        async def gate(name: str) -> None:
            f = loop.create_future()
            gates[name] = f
            try:
                await f
            finally:
                gates.pop(name, None)

        async def run_op(i: int) -> None:
            op = ops[i]
            k = op[0]
            if k == "set":
                await store.set(op[1], op[2])
            elif k == "set_state":
                await store.set_state(DictState(**op[1]))
            elif k == "clear":
                await store.clear()
            elif k == "edit_inc":
                async with store.edit_state() as st:
                    val = st.get(op[1], 0)
                    await gate(f"t{i}")
                    st[op[1]] = val + 1
            elif k == "edit_put":
                async with store.edit_state() as st:
                    await gate(f"t{i}")
                    st[op[1]] = op[2]
            elif k == "edit_copy":
                async with store.edit_state() as st:
                    val = st.get(op[1], 0)
                    await gate(f"t{i}")
                    st[op[2]] = val
            elif k == "t_edit_nested_inc":
                async with store.edit_state() as st:
                    await gate(f"t{i}")
                    st.nested.x += 1
            elif k == "t_edit_extra_append":
                async with store.edit_state() as st:
                    await gate(f"t{i}")
                    st.extra = st.extra + [op[1]]
            elif k == "t_edit_count_inc":
                async with store.edit_state() as st:
                    val = st.count
                    await gate(f"t{i}")
                    st.count = val + 1
            elif k == "t_set_parent":
                await store.set_state(S19.Base(**op[1]))
            elif k == "t_set_child":
                await store.set_state(S19.Child(**op[1]))
            elif k == "edit_spawn_set":
                # the block starts a helper task (it inherits the block's context) that later writes on its own
                async def child(i: int = i, op: Any = op) -> None:
                    await gate(f"t{i}child")
                    await store.set(op[2], op[3])

                async with store.edit_state() as st:
                    st[op[1]] = st.get(op[1], 0) + 1
                    children.append(loop.create_task(child()))
                    await gate(f"t{i}")
            elif k == "edit_two":
                async with store.edit_state() as st:
                    a = st.get(op[1], 0)
                    await gate(f"t{i}a")
                    st[op[1]] = a + 1
                    b = st.get(op[2], 0)
                    await gate(f"t{i}b")
                    st[op[2]] = b + 10

        if backend == "sqlite" and initial:
            async def seed() -> None:
                await store.set_state(S19.Child(**initial) if typed else DictState(**initial))
            armed, fault["left"] = fault["left"], 0  # (the initial state is written before the faults are armed)
            t0 = loop.create_task(seed())
            loop.drain()
            assert t0.done()
            fault["left"] = armed
        started = 0
        maxc = 0
        steps = 0
        cancelled: set[int] = set()
        while True:
            loop.drain()
            while write_faults and loop.timer_deadlines():
                loop.fire_timers()  # (a store that backs off after a refused write sleeps: time passes, other operations go on meanwhile)
                loop.drain()
            steps += 1
            maxc = max(maxc, sum(1 for t in tasks.values() if not t.done()))
            acts: list[tuple[str, Any]] = []
            for i in range(n):
                if i not in tasks:
                    acts.append((f"start{i}", ("start", i)))
            for g in sorted(gates):
                if not gates[g].done():
                    acts.append((f"release:{g}", ("rel", g)))
            if len(cancelled) < cancels:
                # a caller gives up (asyncio.wait_for around the store call, a cancelled step): task.cancel() while the
                # operation waits for the store's lock or sits at its suspension point
                for i, t in sorted(tasks.items()):
                    if not t.done():
                        acts.append((f"cancel{i}", ("cancel", i)))
            if not [a for a in acts if a[1][0] != "cancel"] or steps > 80:
                break
            c = ex.choose(len(acts), "act", [a[0] for a in acts])
            a = acts[c][1]
            if a[0] == "start":
                maxc = max(maxc, 1 + sum(1 for t in tasks.values() if not t.done()))
                tasks[a[1]] = loop.create_task(run_op(a[1]))
                started += 1
            elif a[0] == "cancel":
                cancelled.add(a[1])
                tasks[a[1]].cancel()
            else:
                gates[a[1]].set_result(None)
        w = {"backend": backend, "ops": sorted({o[0] for o in ops})}
        if typed:
            w["typed_state"] = True
        if cancels:
            w["a_caller_gave_up"] = bool(cancelled)
        stuck = [i for i, t in tasks.items() if not t.done()] + [f"child{j}" for j, t in enumerate(children) if not t.done()]
        refused = [i for i, t in tasks.items() if write_faults and t.done() and not t.cancelled() and t.exception() is not None
                   and "database is locked" in str(t.exception())]
        if write_faults:
            w["a_write_was_refused_once"] = bool(fault["hit"])
        failed = [(i, repr(t.exception())) for i, t in tasks.items() if t.done() and not t.cancelled() and t.exception() is not None and i not in refused] + \
                 [(f"child{j}", repr(t.exception())) for j, t in enumerate(children) if t.done() and not t.cancelled() and t.exception() is not None]
        # an operation cancelled while it waited (for the lock / at its gate, i.e. before its write) has no effect;
        # one that had already finished when cancel() came is a completed operation
        effective = [i for i in range(n) if i in tasks and tasks[i].done() and not tasks[i].cancelled() and i not in refused]
        if stuck:
            v.append(("operation_never_completes", w, f"ops {ops}: tasks {stuck} still blocked after every gate was released"))
        if failed:
            v.append(("operation_raised", w, f"ops {ops}: {failed}"))
        final: Any = None
        if not stuck and not failed:
            async def read() -> Any:
                got = await store.get_state()
                return got.model_dump() if typed else dict(got._data)
            tr = loop.create_task(read())
            loop.drain()
            final = json.loads(json.dumps(tr.result()))
            serial = {}
            # (a block that starts a helper task is two operations: the block itself and the helper's own write)
            ref_ops: list[Any] = []
            for o in ops:
                ref_ops += [("edit_inc", o[1]), ("set", o[2], o[3])] if o[0] == "edit_spawn_set" else [o]
            idx = effective if (cancels or write_faults) else range(len(ref_ops))
            for perm in itertools.permutations(idx):
                d = dict(initial)
                for i in perm:
                    d = ref_apply(d, ref_ops[i])
                serial[json.dumps(d, sort_keys=True)] = perm
            if json.dumps(final, sort_keys=True) not in serial:
                v.append(("final_state_matches_no_serial_order", w,
                          f"ops {ops} from {initial}: final state {final}; serial results: {sorted(serial)}"))
        obs = {"final": final, "_metrics": {"max_concurrency": maxc}}
        return obs, v
    finally:
        loop.teardown()


def op_sets(tier: str) -> list[tuple[str, list[Any], dict[str, Any]]]:
    inc_x = ("edit_inc", "x")
    sets: list[tuple[str, list[Any], dict[str, Any]]] = [
        ("inc_inc", [inc_x, inc_x], {"x": 0}),
        ("inc_set", [inc_x, ("set", "x", 10)], {"x": 0}),
        ("inc_set_other", [inc_x, ("set", "y", 1)], {"x": 0}),
        ("inc_set_state", [inc_x, ("set_state", {"y": 1})], {"x": 0}),
        ("put_set_state", [("edit_put", "x", 1), ("set_state", {"y": 1})], {}),
        ("put_clear", [("edit_put", "x", 1), ("clear",)], {"k": 1}),
        ("put_set_nested", [("edit_put", "k", 1), ("set", "a.b", 1), ("set", "a.c", 2)], {}),
        ("copy_inc", [("edit_copy", "x", "y"), inc_x], {"x": 0}),
        ("two_set", [("edit_two", "x", "y"), ("set", "y", 100)], {}),
        ("inc_inc_inc", [inc_x, inc_x, inc_x], {"x": 0}),
        ("inc_set_state_inc", [inc_x, ("set_state", {"y": 1}), inc_x], {"x": 0}),
        ("inc_set_state_put", [inc_x, ("set_state", {"y": 1}), ("edit_put", "b", 1)], {"x": 0}),
        ("put_put_set_state", [("edit_put", "a", 1), ("edit_put", "b", 1), ("set_state", {"x": "from_set_state"})], {"seed": 0}),
        ("inc_clear_set", [inc_x, ("clear",), ("set", "z", 1)], {"x": 5}),
        ("copy_set_set_state", [("edit_copy", "x", "y"), ("set", "x", 7), ("set_state", {"x": 3})], {"x": 0}),
        # an edit block that starts a helper task; the helper writes later, possibly while another block is open
        ("spawn_set_inc", [("edit_spawn_set", "x", "count", 10), ("edit_inc", "count")], {"x": 0, "count": 0}),
        ("spawn_set_copy", [("edit_spawn_set", "x", "y", 5), ("edit_copy", "y", "z")], {"x": 0, "y": 0}),
    ]
    if tier != "quick":
        sets += [
            ("two_two", [("edit_two", "x", "y"), ("edit_two", "y", "x")], {}),
            ("two_inc_set_state", [("edit_two", "x", "y"), inc_x, ("set_state", {"x": 50})], {"x": 0}),
            ("four_incs", [inc_x, inc_x, inc_x, inc_x], {"x": 0}),
            ("inc_set_state_set_state_put", [inc_x, ("set_state", {"y": 1}), ("set_state", {"z": 1}), ("edit_put", "b", 1)], {"x": 0}),
        ]
    return sets


def typed_op_sets(tier: str) -> list[tuple[str, list[Any], dict[str, Any]]]:
    """typed state with inheritance: the store holds Child(Base); set_state(Base(..)) merges the parent fields"""
    sets: list[tuple[str, list[Any], dict[str, Any]]] = [
        ("nested_inc_set_parent", [("t_edit_nested_inc",), ("t_set_parent", {"name": "B"})], {}),
        ("extra_append_set_parent", [("t_edit_extra_append", 1), ("t_set_parent", {"name": "B", "count": 5})], {}),
        ("count_inc_set_parent", [("t_edit_count_inc",), ("t_set_parent", {"name": "B"})], {"count": 3}),
        ("nested_inc_set_child", [("t_edit_nested_inc",), ("t_set_child", {"name": "C", "extra": [9]})], {}),
        ("nested_inc_extra_append_set_parent", [("t_edit_nested_inc",), ("t_edit_extra_append", 2), ("t_set_parent", {"name": "B"})], {}),
    ]
    if tier != "quick":
        sets += [
            ("nested_inc_set_parent_set_parent", [("t_edit_nested_inc",), ("t_set_parent", {"name": "B"}), ("t_set_parent", {"count": 7})], {}),
            ("count_inc_nested_inc_set_child", [("t_edit_count_inc",), ("t_edit_nested_inc",), ("t_set_child", {"name": "C"})], {"count": 1}),
        ]
    return sets


def programs(tier: str) -> list[Program]:
    ps = []
    inc_x = ("edit_inc", "x")
    for backend in ("memory", "sqlite"):
        for name, ops, initial in (("inc_inc_inc", [inc_x, inc_x, inc_x], {"x": 0}),
                                   ("inc_inc_set_state", [inc_x, inc_x, ("set_state", {"x": 100})], {"x": 0}),
                                   ("put_inc_set", [("edit_put", "k", 1), inc_x, ("set", "x", 50)], {"x": 0})):
            ps.append(Program(f"{backend}/cancel1/{name}", {"backend": backend, "ops": ops, "initial": initial, "cancels": 1},
                              (lambda ex, backend=backend, ops=ops, initial=initial: execute(ex, backend, ops, initial, False, 1)),
                              max_dev=(4 if tier == "quick" else None), min_concurrency=2))
    # one write of the SQLite store refused ('database is locked'): the operation fails and has no effect, or completes - the final
    # state is a serial order of the operations that completed
    for name, ops, initial in (("inc_put", [inc_x, ("edit_put", "m", 1)], {"x": 0}), ("inc_set", [inc_x, ("set", "y", 1)], {"x": 0}),
                               ("inc_inc", [inc_x, inc_x], {"x": 0}), ("inc_set_state", [inc_x, ("set_state", {"y": 1})], {"x": 0})):
        ps.append(Program(f"sqlite/write_refused_once/{name}", {"backend": "sqlite", "ops": ops, "initial": initial, "write_faults": 1},
                          (lambda ex, ops=ops, initial=initial: execute(ex, "sqlite", ops, initial, False, 0, 1)),
                          max_dev=(5 if tier == "quick" else None), min_concurrency=2))
    for backend in ("memory", "sqlite"):
        for name, ops, initial in typed_op_sets(tier):
            ps.append(Program(f"{backend}/typed/{name}", {"backend": backend, "ops": ops, "initial": initial, "typed": True},
                              (lambda ex, backend=backend, ops=ops, initial=initial: execute(ex, backend, ops, initial, True)),
                              max_dev=None, min_concurrency=2))
    for backend in ("memory", "sqlite"):
        for name, ops, initial in op_sets(tier):
            ps.append(Program(f"{backend}/{name}", {"backend": backend, "ops": ops, "initial": initial},
                              (lambda ex, backend=backend, ops=ops, initial=initial: execute(ex, backend, ops, initial)),
                              max_dev=None, min_concurrency=2))
    return ps


RULE = ("2-4 tasks, one store operation each from {set(path), set_state (whole-state replace), clear, edit_state blocks that read, "
        "suspend at 1-2 harness gates and write (increment, put, copy x->y)} on colliding keys - and, on a typed state with "
        "inheritance (Child(Base)), edit blocks that mutate child-only / parent fields after a suspension against set_state with the "
        "parent type (merge) or the child type (replace) - started at explorer-chosen points, optionally one task.cancel() of a pending operation at any quiescent point; "
        "every interleaving of starts and gate releases on the real InMemoryStateStore and SqliteStateStore (DB file); the final "
        "state must equal the result of some permutation of the operations applied atomically to a plain dict; non-trivial = at "
        "least one deviation from the default order")
from vmc.tables import _ROUND7 as _R7  # noqa: E402

RULE += _R7["C20"]



def run(tier: str, seed: int) -> Any:
    return run_programs(PID, programs(tier), RULE, seed, assumptions=[
        "asyncio semantics of the hand-stepped virtual loop; suspension only at lock waits and harness gates",
        "SQLite operations are synchronous calls inside coroutines (no thread pool), as in the implementation"])


def replay(rec: dict[str, Any]) -> tuple[bool, str]:
    return replay_program(programs("thorough"), rec)

class StaticFiles:
    def __init__(self, *a, **kw):
        pass

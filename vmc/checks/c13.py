"""C13 - a server restart at any persisted point resumes without losing work.

Deterministic workflows (chain, fan-out/fan-in, zero-delay retries, catch_error recovery, waiter + external response)
run on the real server stack (ServerRuntimeDecorator(IdleReleaseDecorator(PersistenceDecorator(BasicRuntime))) +
_WorkflowService) over a MemoryWorkflowStore / SqliteWorkflowStore.  For every k the 'process' is stopped right
after the k-th persisted tick (nothing else of that process runs), a fresh stack is started on the surviving store,
PersistenceDecorator.launch() resumes, and the run is driven to quiescence; every schedule of both phases within the
deviation bound is explored.
"""
from __future__ import annotations

from typing import Any

from vmc import server_harness as sh
from vmc.checks.common import Program, replay_program, run_programs
from vmc.engine import Action, EngineExec, MonRuntime, RunConfig, gate, make_step, make_workflow
from vmc.events import A, B, Ask, Done, Resp, Work
from vmc.explore import Execution
from vmc.loop import VLoop
from llama_agents.server._store.abstract_workflow_store import HandlerQuery
from llama_agents.server._store.sqlite.sqlite_workflow_store import SqliteWorkflowStore
from workflows import catch_error
from workflows.events import StartEvent, StepFailedEvent, StopEvent
from workflows.retry_policy import retry_policy, stop_after_attempt, wait_fixed

PID = "C13"
from llama_agents.server._store.sqlite import sqlite_workflow_store as _sws  # noqa: E402

_sws._TICK_PAGE_SIZE = 3  # configuration constant: the 10-25 tick logs of these programs span several stream_ticks pages


# ------------------------------------------------------------------ deterministic workflows -------------------
def wf_chain() -> Any:
    async def s1(self, ctx, ev, inv):  # noqa: ANN001
        await gate("s1")
        return A(uid=1)

    async def s2(self, ctx, ev, inv):  # noqa: ANN001
        await gate("s2")
        return B(uid=ev.uid + 1)

    async def s3(self, ctx, ev, inv):  # noqa: ANN001
        await gate("s3")
        return StopEvent(result=f"chain:{ev.uid}")

    return make_workflow("Chain", [make_step("s1", [StartEvent], [A], s1), make_step("s2", [A], [B], s2), make_step("s3", [B], [StopEvent], s3)])


def wf_fanin() -> Any:
    async def start(self, ctx, ev, inv):  # noqa: ANN001
        ctx.send_event(Work(uid=1))
        ctx.send_event(Work(uid=2))
        return None

    async def work(self, ctx, ev, inv):  # noqa: ANN001
        await gate(f"work{ev.uid}")
        return Done(uid=ev.uid * 10)

    async def join(self, ctx, ev, inv):  # noqa: ANN001
        got = ctx.collect_events(ev, [Done, Done])
        if got is None:
            return None
        return StopEvent(result="fanin:" + ",".join(str(u) for u in sorted(e.uid for e in got)))

    return make_workflow("FanIn", [make_step("start", [StartEvent], [Work, None], start), make_step("work", [Work], [Done], work, num_workers=2),
                                   make_step("join", [Done], [StopEvent, None], join, num_workers=1)])


def wf_fan_keeper() -> Any:
    """the fan-in plus a step that stays busy from the start: the run never goes idle, so every restart resumes it (no idle flag is
    ever set) - two workers of one step are under way when the process stops, and the restarted process is stopped again"""
    async def start(self, ctx, ev, inv):  # noqa: ANN001
        ctx.send_event(Work(uid=1))
        ctx.send_event(Work(uid=2))
        return None

    async def keeper(self, ctx, ev, inv):  # noqa: ANN001
        await gate("keeper")
        return None

    async def work(self, ctx, ev, inv):  # noqa: ANN001
        await gate(f"work{ev.uid}")
        return Done(uid=ev.uid * 10)

    async def join(self, ctx, ev, inv):  # noqa: ANN001
        got = ctx.collect_events(ev, [Done, Done])
        if got is None:
            return None
        return StopEvent(result="fanin:" + ",".join(str(u) for u in sorted(e.uid for e in got)))

    return make_workflow("FanKeeper", [make_step("start", [StartEvent], [Work, None], start), make_step("keeper", [StartEvent], [None], keeper),
                                       make_step("work", [Work], [Done], work, num_workers=2), make_step("join", [Done], [StopEvent, None], join, num_workers=1)])


def wf_fan_keeper_returned() -> Any:
    """as ``fan_keeper``, but the two work items are RETURNED by two producer steps instead of being sent with ctx.send_event (no
    event ever sits in the run's mailbox behind a finished step, so the run never announces idle while it works)"""
    async def p1(self, ctx, ev, inv):  # noqa: ANN001
        await gate("p1")
        return Work(uid=1)

    async def p2(self, ctx, ev, inv):  # noqa: ANN001
        await gate("p2")
        return Work(uid=2)

    async def keeper(self, ctx, ev, inv):  # noqa: ANN001
        await gate("keeper")
        return None

    async def work(self, ctx, ev, inv):  # noqa: ANN001
        await gate(f"work{ev.uid}")
        return Done(uid=ev.uid * 10)

    async def join(self, ctx, ev, inv):  # noqa: ANN001
        got = ctx.collect_events(ev, [Done, Done])
        if got is None:
            return None
        return StopEvent(result="fanin:" + ",".join(str(u) for u in sorted(e.uid for e in got)))

    return make_workflow("FanKeeperReturned", [make_step("p1", [StartEvent], [Work], p1), make_step("p2", [StartEvent], [Work], p2),
                                               make_step("keeper", [StartEvent], [None], keeper), make_step("work", [Work], [Done], work, num_workers=2),
                                               make_step("join", [Done], [StopEvent, None], join, num_workers=1)])


def wf_queue_order() -> Any:
    """three items for a single-worker step: two always wait in its queue; the fan-in keeps ARRIVAL order, so the result
    shows in which order the restored queue was worked off"""
    async def start(self, ctx, ev, inv):  # noqa: ANN001
        for i in (0, 1, 2):
            ctx.send_event(Work(uid=i))
        return None

    async def work(self, ctx, ev, inv):  # noqa: ANN001
        await gate(f"work{ev.uid}")
        return Done(uid=ev.uid)

    async def join(self, ctx, ev, inv):  # noqa: ANN001
        got = ctx.collect_events(ev, [Done, Done, Done])
        if got is None:
            return None
        return StopEvent(result="order:" + ",".join(str(e.uid) for e in got))

    async def keeper(self, ctx, ev, inv):  # noqa: ANN001
        # keeps the run busy, so that it is never flagged idle (the recorded idle-flag finding would hide everything else)
        await gate("keeper")
        return None

    return make_workflow("QueueOrder", [make_step("start", [StartEvent], [Work, None], start), make_step("keeper", [StartEvent], [None], keeper),
                                        make_step("work", [Work], [Done], work, num_workers=1),
                                        make_step("join", [Done], [StopEvent, None], join, num_workers=1)])


def wf_retry() -> Any:
    async def s1(self, ctx, ev, inv):  # noqa: ANN001
        await gate("s1")
        return A(uid=1)

    async def flaky(self, ctx, ev, inv):  # noqa: ANN001
        n = ctx.retry_info().retry_number
        await gate(f"flaky{n}")
        if n < 2:
            raise RuntimeError(f"fail{n}")
        return StopEvent(result=f"retry:{n}")

    return make_workflow("Retry", [make_step("s1", [StartEvent], [A], s1),
                                   make_step("flaky", [A], [StopEvent], flaky, retry_policy=retry_policy(wait=wait_fixed(0), stop=stop_after_attempt(4)))])


def wf_retry_timebound() -> Any:
    """as ``retry``, under a TIME-bounded policy (give up 5 s after the first attempt); the restarted server comes up 10 s later - the
    replayed log must lead to the decisions the live run took (they are in the ticks), whatever the clock says at the restart"""
    from workflows.retry_policy import stop_after_delay

    async def s1(self, ctx, ev, inv):  # noqa: ANN001
        await gate("s1")
        return A(uid=1)

    async def flaky(self, ctx, ev, inv):  # noqa: ANN001
        n = ctx.retry_info().retry_number
        await gate(f"flaky{n}")
        if n < 2:
            raise RuntimeError(f"fail{n}")
        return StopEvent(result=f"retry:{n}")

    return make_workflow("RetryTimebound", [make_step("s1", [StartEvent], [A], s1),
                                            make_step("flaky", [A], [StopEvent], flaky, retry_policy=retry_policy(wait=wait_fixed(0), stop=stop_after_delay(5.0)))])


def wf_recover() -> Any:
    async def s1(self, ctx, ev, inv):  # noqa: ANN001
        await gate("s1")
        raise ValueError("boom")

    async def s2(self, ctx, ev, inv):  # noqa: ANN001
        return StopEvent(result="not reached")

    async def on_err(self, ctx, ev, inv):  # noqa: ANN001
        await gate("on_err")
        return StopEvent(result=f"recovered:{ev.step_name}:{type(ev.exception).__name__}")

    return make_workflow("Recover", [make_step("s1", [StartEvent], [A], s1), make_step("s2", [A], [StopEvent], s2),
                                     make_step("on_err", [StepFailedEvent], [StopEvent], on_err, decorator=catch_error)])


def wf_wait(requirements: bool) -> Any:
    async def ask(self, ctx, ev, inv):  # noqa: ANN001
        r = await ctx.wait_for_event(Resp, waiter_id="w1", waiter_event=Ask(uid=1), requirements=({"key": "good"} if requirements else None))
        await gate("ask")
        return StopEvent(result=f"wait:{r.key}:{r.uid}")

    return make_workflow("Wait", [make_step("ask", [StartEvent], [StopEvent], ask)])


def wf_wait_busy() -> Any:
    """a waiter plus a step that keeps the run busy: the handler is never flagged idle, so the startup resume picks it up"""
    async def ask(self, ctx, ev, inv):  # noqa: ANN001
        r = await ctx.wait_for_event(Resp, waiter_id="w1", waiter_event=Ask(uid=1))
        return StopEvent(result=f"wait:{r.key}:{r.uid}")

    async def keeper(self, ctx, ev, inv):  # noqa: ANN001
        await gate("keeper")
        return None

    return make_workflow("WaitBusy", [make_step("ask", [StartEvent], [StopEvent], ask), make_step("keeper", [StartEvent], [None], keeper)])


def wf_fail() -> Any:
    async def bad(self, ctx, ev, inv):  # noqa: ANN001
        await gate("bad")
        raise ValueError("bad always fails")

    return make_workflow("Fail", [make_step("bad", [StartEvent], [StopEvent], bad)])


def wf_cancellable() -> Any:
    async def first(self, ctx, ev, inv):  # noqa: ANN001
        await gate("first")
        return Work(uid=1)

    async def work(self, ctx, ev, inv):  # noqa: ANN001
        await gate("work")
        return StopEvent(result="work:done")

    return make_workflow("Cancellable", [make_step("first", [StartEvent], [Work], first), make_step("work", [Work], [StopEvent], work)])


PROGRAMS: dict[str, dict[str, Any]] = {
    "chain": {"make": wf_chain, "expected": "chain:2", "responses": []},
    "fanin": {"make": wf_fanin, "expected": "fanin:10,20", "responses": []},
    "fan_keeper": {"make": wf_fan_keeper, "expected": "fanin:10,20", "responses": []},
    "fan_keeper_returned": {"make": wf_fan_keeper_returned, "expected": "fanin:10,20", "responses": []},
    "queue_order": {"make": wf_queue_order, "expected": "order:0,1,2", "responses": []},
    "retry": {"make": wf_retry, "expected": "retry:2", "responses": []},
    "retry_timebound": {"make": wf_retry_timebound, "expected": "retry:2", "responses": [], "downtime": 10.0},
    "recover": {"make": wf_recover, "expected": "recovered:s1:ValueError", "responses": []},
    "wait": {"make": lambda: wf_wait(False), "expected": "wait:any:100", "responses": [("any", 100)]},
    "wait_requirements": {"make": lambda: wf_wait(True), "expected": "wait:good:101", "responses": [("bad", 100), ("good", 101)]},
    # runs that end otherwise than by a StopEvent: the persisted end must be finalized with the matching status
    "fail": {"make": wf_fail, "expected": None, "expected_status": "failed", "responses": []},
    "cancel": {"make": wf_cancellable, "expected": "work:done", "responses": [], "cancel": True},
    # the waiting run goes idle and is released from memory (idle_timeout 5 s) before the client answers: the answer reloads it
    "wait_released_then_answered": {"make": lambda: wf_wait(False), "expected": "wait:any:100", "responses": [("any", 100)], "idle_timeout": 5.0},
    # the client answers only after the restart, at any point of the new process's start-up
    "wait_busy_answer_after_restart": {"make": wf_wait_busy, "expected": "wait:any:100", "responses": [("any", 100)], "answer_after_restart": True},
}


def _persisted_ticks(loop: VLoop, store: Any, run_id: str) -> list[dict[str, Any]]:
    async def q() -> Any:
        return [t.tick_data for t in await store.get_ticks(run_id)]

    t = loop.create_task(q())
    loop.drain()
    return t.result()


def _handler(loop: VLoop, store: Any) -> Any:
    async def q() -> Any:
        hs = await store.query(HandlerQuery(handler_id_in=["h1"]))
        return hs[0] if hs else None

    t = loop.create_task(q())
    loop.drain()
    return t.result()


def _is_terminal_tick(td: dict[str, Any], pname: str = "") -> bool:
    if td.get("type") == "cancel_run":
        return True
    if td.get("type") != "step_result":
        return False
    if pname == "fail" and any(r.get("type") == "failed" for r in td.get("result", [])):
        return True  # no retry policy, no handler: the failure ends the run
    for r in td.get("result", []):
        if r.get("type") == "result" and isinstance(r.get("result"), dict) and "StopEvent" in str(r["result"].get("qualified_name", "")):
            return True
    return False


def _resp_persisted(ticks: list[dict[str, Any]], uid: int) -> bool:
    for td in ticks:
        if td.get("type") == "add_event":
            ev = td.get("event", {})
            if "Resp" in str(ev.get("qualified_name", "")) and ev.get("value", {}).get("uid") == uid:
                return True
    return False


def execute(ex: Execution, pname: str, backend: str, crash_at: int | None, network: bool = False,
            crash_at2: int | None = None, restart_fault: bool = False) -> tuple[Any, list[Any]]:
    """``network``: the second process reads the store like a network-backed one (Postgres, agent-data) - reading a
    handler row or the tick log suspends, so client requests can arrive while the start-up resume is under way"""
    prog = PROGRAMS[pname]
    sh.clear_graveyard()
    sh.reset_ids()
    from vmc import idle_harness as _ih

    _ih.reset()
    path = sh.fresh_sqlite_path() if backend == "sqlite" else None
    store = sh.make_store(backend, path)
    ctl = sh.CrashControl(crash_at)
    v: list[Any] = []
    w = {"program": pname, "backend": backend}
    late = bool(prog.get("answer_after_restart"))
    cur_store = {"s": store}

    def lost_kind(ticks_now: list[dict[str, Any]], sent: int, adds_before: int) -> str:
        """root-cause context of a crash point: what the stopped process had accepted but not yet made durable"""
        total_adds = sum(1 for td in ticks_now if td.get("type") == "add_event")
        # (the first add_event tick of a log is the run's StartEvent, which is not among the counted sends)
        persisted_adds = total_adds - adds_before - (1 if adds_before == 0 and total_adds > 0 else 0)
        last = ticks_now[-1] if ticks_now else {}
        if last.get("type") == "step_result" and not _is_terminal_tick(last, pname) and any(
                (r.get("type") == "result" and r.get("result") is not None) or r.get("type") == "failed" for r in last.get("result", [])):
            return "step_output_not_yet_queued"
        if sent > persisted_adds:
            return "sent_event_not_yet_persisted"
        return "none"

    def process(first: bool, vt0: float, ctl_: Any) -> dict[str, Any]:
        """one server process: the first one starts the run, a later one resumes it from the surviving store; it runs until
        nothing is enabled or until ``ctl_`` stops it right after a persisted tick"""
        st = cur_store["s"]
        if not first:
            st = st if backend == "memory" else SqliteWorkflowStore(path, poll_interval=1.0, auto_migrate=False)
            cur_store["s"] = st
        lp = VLoop()
        lp.vt = vt0
        it = float(prog.get("idle_timeout", 10_000.0))
        e_ = EngineExec(ex, RunConfig(max_actions=120, allow_time=it < 1000), loop=lp)
        if it < 1000:
            e_.cfg.time_filter = lambda hh: bool(lp.timer_deadlines()) and lp.timer_deadlines()[0] - lp.vt < 1000
        e_.__enter__()
        crashed_ = False
        ext = {"n": 0}
        ticks0 = [] if first else _persisted_ticks(lp, st, "run1")
        adds_before = sum(1 for td in ticks0 if td.get("type") == "add_event")
        try:
            try:
                ctl_.arm(st)
                stack = sh.Stack(st, idle_timeout=it, wrap_basic=MonRuntime)
                wf = prog["make"]()(timeout=None)
                stack.add_workflow("wf", wf)

                async def boot() -> None:
                    await stack.service.start()
                    if first:
                        await stack.service.start_workflow(wf, "h1", StartEvent())

                e_.loop.create_task(boot())
                for key, uid in ([] if (late and crash_at is not None and first) else prog["responses"]):
                    if not first and _resp_persisted(ticks0, uid):
                        continue  # (a restarted client re-sends only what had no durable effect)

                    def _send(key: str = key, uid: int = uid) -> None:
                        ext["n"] += 1
                        e_.loop.create_task(stack.service.send_event("h1", Resp(uid=uid, key=key)))

                    e_.add_script([Action(f"{'send' if first else 'resend'} Resp({key})#{uid}", _send)])
                if prog.get("cancel") and (first or not any(td.get("type") == "cancel_run" for td in ticks0)):
                    e_.add_script([Action("cancel h1" if first else "cancel h1 again", lambda: e_.loop.create_task(stack.service.cancel_handler("h1")))])
                e_.drive()
            except sh.Crash:
                crashed_ = True
            sent = sum(1 for t in e_.h.internal_sends if type(t).__name__ == "TickAddEvent") + ext["n"]
            from vmc import idle_harness as ih_

            rel_seen = False
            reload_t = None
            for entry in ih_.LIVE["log"]:
                if entry[0] == "release":
                    rel_seen = True
                elif entry[0] == "loop_start" and rel_seen:
                    reload_t = entry[2]
            out = {"crashed": crashed_, "vt": e_.loop.vt, "sent": sent, "n_persisted": ctl_.count, "adds_before": adds_before,
                   "reload_t": reload_t}
        finally:
            if crashed_:
                sh.bury(e_.loop)
                e_.abandon()
            else:
                e_.__exit__(None, None, None)
            ctl_.disarm(st)
        return out

    # ---------------- phase 1: the first process
    p1 = process(True, 0.0, ctl)
    crashed, vt, sent_add_events, n_persisted = p1["crashed"], p1["vt"], p1["sent"], p1["n_persisted"]
    reload_t = p1["reload_t"]
    if crash_at is not None and not crashed:
        # the run has fewer than crash_at ticks on this schedule: nothing to restart (covered by smaller k)
        return {"skipped": True, "ticks": n_persisted, "_metrics": {"max_concurrency": 1}}, []
    lost_first = "none"
    if crash_at2 is not None:
        # ---------------- phase 1b: the restarted process is stopped as well, after the j-th tick IT persisted
        lp0 = VLoop()
        lp0.install()
        try:
            t1 = _persisted_ticks(lp0, store if backend == "memory" else SqliteWorkflowStore(path, poll_interval=1.0, auto_migrate=False), "run1")
        finally:
            lp0.teardown()
        lost_first = lost_kind(t1, sent_add_events, 0)
        p2 = process(False, vt, sh.CrashControl(crash_at2))
        if not p2["crashed"]:
            return {"skipped": True, "ticks": n_persisted + p2["n_persisted"], "_metrics": {"max_concurrency": 1}}, []
        vt, sent_add_events = p2["vt"], p2["sent"]
        adds_before_last = p2["adds_before"]
        reload_t = p2["reload_t"]
    else:
        adds_before_last = 0
    store = cur_store["s"]
    # ---------------- phase 2: a fresh process on the surviving store
    store2 = store if backend == "memory" else SqliteWorkflowStore(path, poll_interval=1.0, auto_migrate=False)
    if network:
        sh.make_yielding(store2, ticks=True)
    loop2 = VLoop()
    loop2.vt = vt + float(prog.get("downtime", 0.0))  # (the restarted server may come up much later than the old one stopped)
    third_restart = False
    obs: dict[str, Any] = {}
    # (with a write fault the server's own backoff has to elapse before it writes again, so time may pass there)
    with EngineExec(ex, RunConfig(max_actions=120, allow_time=restart_fault), loop=loop2) as e2:
        ticks = _persisted_ticks(loop2, store2, "run1")
        if prog.get("downtime") and sum(1 for td in ticks if td.get("type") == "step_result" and any(r.get("type") == "failed" for r in td.get("result", []))) < 2:
            # an attempt that fails AFTER the downtime is judged by the policy with the downtime included - rightly so; only stops after
            # the last failure (every retry decision is in the log, nothing time-dependent is left to do) are comparable
            return {"skipped": True, "_metrics": {"max_concurrency": 1}}, []
        ended = any(_is_terminal_tick(td, pname) for td in ticks)
        h_at_crash = _handler(loop2, store2)
        idle_since_at_crash = getattr(h_at_crash, "idle_since", None)
        fault = {"left": 1 if restart_fault else 0, "hit": False}
        if restart_fault:
            # one transient failure of a handler-record write while the restarted server goes through its handlers
            orig_update2 = store2.update

            async def update2(handler: Any) -> None:
                if fault["left"] and ex.choose(2, "store_write", ["ok", "fails"]) == 1:
                    fault["left"] -= 1
                    fault["hit"] = True
                    raise OSError("transient store failure")
                await orig_update2(handler)

            store2.update = update2  # type: ignore[method-assign]
            orig_status2 = store2.update_handler_status
            if backend == "memory":
                # (the in-memory store's status write does not go through update(): the same single fault can hit it too)
                async def status2(*a: Any, **kw: Any) -> Any:
                    if fault["left"] and ex.choose(2, "store_write", ["ok", "fails"]) == 1:
                        fault["left"] -= 1
                        fault["hit"] = True
                        raise OSError("transient store failure")
                    return await orig_status2(*a, **kw)

                store2.update_handler_status = status2  # type: ignore[method-assign]
        if crashed:
            stack2 = sh.Stack(store2, idle_timeout=10_000.0)
            wf2 = prog["make"]()(timeout=None)
            stack2.add_workflow("wf", wf2)
            e2.loop.create_task(stack2.service.start())
            for key, uid in prog["responses"]:
                if not _resp_persisted(ticks, uid):
                    # the client saw no effect of its event before the crash: it sends it again after the restart
                    e2.add_script([Action(f"resend Resp({key})#{uid}", (lambda key=key, uid=uid: e2.loop.create_task(
                        stack2.service.send_event("h1", Resp(uid=uid, key=key)))))])
            if prog.get("cancel") and not any(td.get("type") == "cancel_run" for td in ticks) and not (restart_fault and ended):
                # (with the write fault and a log that already ends the run, a later cancel would be a NEW client action on a
                # handler whose finalization is merely delayed - outside what this dimension is about)
                # the client's cancel request had no durable effect before the stop: it is sent again
                e2.add_script([Action("cancel h1 again", lambda: e2.loop.create_task(stack2.service.cancel_handler("h1")))])
            e2.drive()
            if restart_fault and fault["hit"]:
                # a handler whose log already ends the run and whose finalizing write hit the one transient failure is left as it
                # is and finalized by the NEXT start-up pass (that is the server's design): start the server once more, without
                # faults, and judge what the handler says then.  A wrong terminal status is judged as it stands.
                h_mid = _handler(loop2, store2)
                ticks_mid = _persisted_ticks(loop2, store2, "run1")
                if h_mid is not None and h_mid.status == "running" and any(_is_terminal_tick(td, pname) for td in ticks_mid):
                    import vmc.engine as _eng

                    store2.update = orig_update2  # type: ignore[method-assign]
                    store2.update_handler_status = orig_status2  # type: ignore[method-assign]
                    cur_store["s"] = store2
                    saved_h = _eng._H
                    loop2.uninstall()  # (process 2 is over: nothing of it runs any more while process 3 works on the store)
                    try:
                        process(False, loop2.vt, sh.CrashControl(None))
                    finally:
                        _eng._H = saved_h
                        loop2.install()
                    third_restart = True
        h = _handler(loop2, store2)
        status = h.status if h is not None else None
        result = h.result.result if (h is not None and h.result is not None) else None
        bodies2 = [(i.step, getattr(i.ev, "uid", None)) for i in e2.h.invocations]
        obs = {"status": status, "result": result, "ticks_at_crash": len(ticks), "bodies_after_restart": len(bodies2),
               "_metrics": {"max_concurrency": 2 if crashed else 1}}
        # root-cause context of the crash point
        last = ticks[-1] if ticks else {}
        lost = lost_kind(ticks, sent_add_events, adds_before_last)
        if lost == "none" and lost_first != "none":
            lost = lost_first  # (two stops: the first one already lost something)
        h0 = _handler(loop2, store2)
        idle_flag = bool(h0 is not None and h0.idle_since is not None)
        nonmatching_in_log = pname == "wait_requirements" and _resp_persisted(ticks, 100)
        wk = {"program": pname, "log_already_terminal": ended, "lost_at_crash": lost, "handler_marked_idle_at_crash": idle_flag,
              "nonmatching_response_in_log": nonmatching_in_log}
        if network:
            wk["store_reads_suspend"] = True
        if crash_at2 is not None:
            wk["process_stops"] = 2
        if restart_fault:
            wk["status_write_failed_once_during_restart"] = fault["hit"]
            if third_restart:
                wk["judged_after_one_more_restart"] = True
        if idle_flag:
            # root cause of an idle flag on a working run: announced by the run itself (the recorded spurious-idle finding), or
            # left over from before the run was reloaded on demand (a reload must clear it)
            from vmc.loop import BASE_WALL

            wk["idle_flag_predates_last_reload"] = bool(reload_t is not None and idle_since_at_crash is not None
                                                        and idle_since_at_crash.timestamp() - BASE_WALL < reload_t - 1e-9)
        desc = (f"[{backend}] {pname}: process stopped after persisted tick {crash_at}"
                + (f", restarted, stopped again after its own persisted tick {crash_at2}" if crash_at2 is not None else "")
                + f" (a {last.get('type')} tick) "
                f"({[t.get('type') for t in ticks][-3:]} ...), restarted; schedule {ex.labels}")
        want_status, want_result = prog.get("expected_status", "completed"), prog["expected"]
        if prog.get("cancel"):
            # whichever end was accepted first (in the final tick log) decides
            final_ticks = _persisted_ticks(loop2, store2, "run1")
            first_end = next((td for td in final_ticks if _is_terminal_tick(td, pname)), None)
            if first_end is not None and first_end.get("type") == "cancel_run":
                want_status, want_result = "cancelled", None
            wk["end_in_log_at_crash"] = next((td.get("type") for td in ticks if _is_terminal_tick(td, pname)), None)
        if status != want_status or result != want_result:
            kind = "stays_running" if status == "running" else ("wrong_result" if status == want_status else f"ends_{status}")
            v.append(("resumed_run_differs_from_uninterrupted", {**wk, "kind": kind},
                      f"{desc}: handler status={status} result={result!r} error={getattr(h, 'error', None)!r}; expected status={want_status} result={want_result!r}"))
        elif ended and crashed and bodies2:
            v.append(("finished_run_re_executed", wk, f"{desc}: the persisted ticks already ended the run but steps ran again: {bodies2}"))
    return obs, v


def wf_chain_tagged() -> Any:
    async def s1(self, ctx, ev, inv):  # noqa: ANN001
        await gate(f"s1:{ev.get('tag')}")
        return A(uid={"x": 1, "y": 2}[ev.get("tag")])

    async def s2(self, ctx, ev, inv):  # noqa: ANN001
        await gate(f"s2:{ev.uid}")
        return StopEvent(result=f"chain:{ev.uid * 10}")

    return make_workflow("ChainTagged", [make_step("s1", [StartEvent], [A], s1), make_step("s2", [A], [StopEvent], s2)])


def execute_two(ex: Execution, backend: str, crash_at: int) -> tuple[Any, list[Any]]:
    """two runs of one workflow (different inputs, different results) are under way when the process stops after the k-th tick
    persisted for EITHER of them; the restarted server finds both handlers and must bring each to its own result"""
    sh.clear_graveyard()
    sh.reset_ids()
    path = sh.fresh_sqlite_path() if backend == "sqlite" else None
    store = sh.make_store(backend, path)
    ctl = sh.CrashControl(crash_at)
    expected = {"hx": "chain:10", "hy": "chain:20"}
    e = EngineExec(ex, RunConfig(max_actions=120, allow_time=False))
    e.__enter__()
    crashed = False
    try:
        try:
            ctl.arm(store)
            stack = sh.Stack(store, idle_timeout=10_000.0, wrap_basic=MonRuntime)
            wf = wf_chain_tagged()(timeout=None)
            stack.add_workflow("wf", wf)

            async def boot() -> None:
                await stack.service.start()
                await stack.service.start_workflow(wf, "hx", StartEvent(tag="x"))
                await stack.service.start_workflow(wf, "hy", StartEvent(tag="y"))

            e.loop.create_task(boot())
            e.drive()
        except sh.Crash:
            crashed = True
        vt = e.loop.vt
    finally:
        if crashed:
            sh.bury(e.loop)
            e.abandon()
        else:
            e.__exit__(None, None, None)
        ctl.disarm(store)
    if not crashed:
        return {"skipped": True, "_metrics": {"max_concurrency": 1}}, []
    store2 = store if backend == "memory" else SqliteWorkflowStore(path, poll_interval=1.0, auto_migrate=False)
    loop2 = VLoop()
    loop2.vt = vt
    v: list[Any] = []
    with EngineExec(ex, RunConfig(max_actions=120, allow_time=False), loop=loop2) as e2:
        async def rows() -> Any:
            return {h.handler_id: h for h in await store2.query(HandlerQuery(handler_id_in=["hx", "hy"]))}

        t0 = loop2.create_task(rows())
        loop2.drain()
        before = t0.result()
        logs = {hid: _persisted_ticks(loop2, store2, h.run_id) for hid, h in before.items() if h.run_id}
        stack2 = sh.Stack(store2, idle_timeout=10_000.0)
        wf2 = wf_chain_tagged()(timeout=None)
        stack2.add_workflow("wf", wf2)
        e2.loop.create_task(stack2.service.start())
        e2.drive()
        t1 = loop2.create_task(rows())
        loop2.drain()
        after = t1.result()
        for hid, want in expected.items():
            h = after.get(hid)
            if h is None:
                continue  # the process stopped before this run was started: nothing was accepted for it
            ticks = logs.get(hid, [])
            if not ticks:
                # nothing of this run was persisted yet (not even its StartEvent): the statement is about persisted points;
                # the server marks such a handler failed ("crashed before persisting any state"), by design
                continue
            last = ticks[-1] if ticks else {}
            lost = "none"
            if last.get("type") == "step_result" and not _is_terminal_tick(last) and any(
                    r.get("type") == "result" and r.get("result") is not None for r in last.get("result", [])):
                lost = "step_output_not_yet_queued"
            got = h.result.result if h.result is not None else None
            if h.status != "completed" or got != want:
                kind = "stays_running" if h.status == "running" else ("wrong_result" if h.status == "completed" else f"ends_{h.status}")
                v.append(("resumed_run_differs_from_uninterrupted",
                          {"program": "two_runs", "kind": kind, "lost_at_crash": lost, "handler_marked_idle_at_crash": bool(before[hid].idle_since is not None),
                           "log_already_terminal": any(_is_terminal_tick(td) for td in ticks), "nonmatching_response_in_log": False,
                           "other_run_log_already_terminal": any(_is_terminal_tick(td) for o, tl in logs.items() if o != hid for td in tl)},
                          f"[{backend}] two runs, process stopped after persisted tick {crash_at}, restarted; schedule {ex.labels}: handler {hid} "
                          f"status={h.status} result={got!r} error={h.error!r}; expected completed {want!r} (its log: {[t.get('type') for t in ticks]})"))
        obs = {"status": {k: x.status for k, x in after.items()}, "_metrics": {"max_concurrency": 2}}
    return obs, v


def programs(tier: str) -> list[Program]:
    ps: list[Program] = []
    q = tier == "quick"
    for backend in ("memory", "sqlite"):
        for k in range(1, 13):
            ps.append(Program(f"two_runs/{backend}/crash_after_tick_{k:02d}", {"program": "two_runs", "backend": backend, "crash_at": k},
                              (lambda ex, backend=backend, k=k: execute_two(ex, backend, k)), max_dev=(2 if q else 4)))
    for pname in PROGRAMS:
        if pname == "wait_released_then_answered":
            continue  # (programs listed separately below)
        for backend in ("memory", "sqlite"):
            # uninterrupted reference: every schedule must give the expected result
            ps.append(Program(f"{pname}/{backend}/uninterrupted", {"program": pname, "backend": backend, "crash_at": None},
                              (lambda ex, pname=pname, backend=backend: execute(ex, pname, backend, None)), max_dev=2 if q else 4))
            for k in range(1, 26 if pname in ("fanin", "retry", "queue_order") else 18):
                ps.append(Program(f"{pname}/{backend}/crash_after_tick_{k:02d}", {"program": pname, "backend": backend, "crash_at": k},
                                  (lambda ex, pname=pname, backend=backend, k=k: execute(ex, pname, backend, k)),
                                  max_dev=((2 if pname.startswith("fan_keeper") else 1) if q else (3 if pname.startswith("fan_keeper") else 2))))
    # two process stops: the restarted server is stopped again after the j-th tick it persisted itself
    quick_kj = {"fan_keeper": ((3, 5, 6), (1, 3, 4)), "fan_keeper_returned": ((9,), (2, 4))}
    for pname in (("chain", "fanin", "fan_keeper", "fan_keeper_returned") if q else [p for p in PROGRAMS if p not in ("wait_busy_answer_after_restart", "wait_released_then_answered")]):
        for backend in (("sqlite",) if q else ("memory", "sqlite")):
            for k in (quick_kj.get(pname, ((2, 4, 6), (1, 2)))[0] if q else range(1, 13)):
                for j in (quick_kj.get(pname, ((2, 4, 6), (1, 2)))[1] if q else range(1, 7)):
                    ps.append(Program(f"{pname}/{backend}/crash_after_tick_{k:02d}_then_{j:02d}",
                                      {"program": pname, "backend": backend, "crash_at": k, "crash_at2": j},
                                      (lambda ex, pname=pname, backend=backend, k=k, j=j: execute(ex, pname, backend, k, crash_at2=j)),
                                      max_dev=(1 if q else 2)))
    # one transient failure of a handler-record write during the restart (where the log already ends the run: the finalisation)
    for pname in (("chain", "fail", "cancel") if q else ("chain", "fanin", "retry", "recover", "fail", "cancel")):
        for backend in (("memory",) if q else ("memory", "sqlite")):
            for k in range(3, 12):
                ps.append(Program(f"{pname}/{backend}/crash_after_tick_{k:02d}/restart_write_fault",
                                  {"program": pname, "backend": backend, "crash_at": k, "restart_fault": True},
                                  (lambda ex, pname=pname, backend=backend, k=k: execute(ex, pname, backend, k, restart_fault=True)),
                                  max_dev=(2 if q else 3)))
    # idle release and on-demand reload before the process stops
    for backend in ("memory", "sqlite"):
        for k in range(1, 9):
            ps.append(Program(f"wait_released_then_answered/{backend}/crash_after_tick_{k:02d}",
                              {"program": "wait_released_then_answered", "backend": backend, "crash_at": k},
                              (lambda ex, backend=backend, k=k: execute(ex, "wait_released_then_answered", backend, k)),
                              max_dev=(3 if q else 5)))
    # a network-backed store: reading suspends, so the client's answer can arrive at any point of the start-up resume
    for pname in ("wait_busy_answer_after_restart",):
        for backend in ("memory", "sqlite"):
            for k in range(1, 8):
                ps.append(Program(f"{pname}/{backend}/network_store/crash_after_tick_{k:02d}",
                                  {"program": pname, "backend": backend, "crash_at": k, "network": True},
                                  (lambda ex, pname=pname, backend=backend, k=k: execute(ex, pname, backend, k, network=True)),
                                  max_dev=(4 if q else 5)))
    return ps


RULE = ("9 deterministic workflows (3-step chain, fan-out/fan-in with collect_events, three items queued for a single worker with an "
        "order-sensitive fan-in, zero-delay retries, catch_error recovery, waiter + "
        "external response without / with requirements, a step failure that ends the run, a run cancelled by the client at any point) on the real server stack over MemoryWorkflowStore (instance survives) and "
        "SqliteWorkflowStore (file survives) x process stop right after the k-th persisted tick for every k up to the length of the log "
        "(and two runs with different inputs under way at once) x a fresh stack resuming through PersistenceDecorator.launch() (optionally stopped again after the j-th tick it persisted itself, "
        "and restarted once more) x all schedules of all phases within the deviation bound; the "
        "resumed handler must end completed with the uninterrupted result, and a log that already contains the terminal tick must be "
        "finalized without running a step; non-trivial = executions that actually restarted")
from vmc.tables import _ROUND6 as _R6  # noqa: E402

RULE += _R6["C13"]
from vmc.tables import _ROUND7 as _R7  # noqa: E402

RULE += _R7["C13"]
from vmc.tables import _ROUND8 as _R8  # noqa: E402

RULE += _R8["C13"]



def run(tier: str, seed: int) -> Any:
    return run_programs(PID, programs(tier), RULE, seed, assumptions=[
        "a process stop is modelled by raising a KeyboardInterrupt-class exception out of append_tick: no callback of that loop runs "
        "afterwards; the durable state is the MemoryWorkflowStore instance / the SQLite file",
        "a client whose event was not yet persisted when the process stopped sends it again after the restart",
        "async steps, schedule-independent workflows (first verified on all uninterrupted schedules)",
        "_TICK_PAGE_SIZE of the SQLite store is set to 3 by the harness so that short tick logs span several pages"])


def replay(rec: dict[str, Any]) -> tuple[bool, str]:
    return replay_program(programs("thorough"), rec)

class Route:
    def __init__(self, path, endpoint=None, methods=None, **kw):
        self.path, self.endpoint, self.methods = path, endpoint, methods


class Mount:
    def __init__(self, path, app=None, **kw):
        self.path, self.app = path, app

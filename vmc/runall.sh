#!/bin/bash
# usage: runall.sh <tier> <seed>
cd "$(dirname "$0")/.."
for c in $(python3 -c "import json;print(' '.join(x['property_id'] for x in json.load(open('MANIFEST.json'))['checks']))"); do
  s=$(date +%s.%N)
  out=$(VERIF_SEED=$2 timeout 3000 /venv/bin/python -m vmc.run $c --tier $1 2>&1)
  rc=$?
  e=$(date +%s.%N)
  printf "%s rc=%d %.1fs %s\n" $c $rc $(echo "$e - $s" | bc) "$(echo "$out" | grep "^$c tier" | sed 's/evidence=.*//' | cut -c1-160)"
  if [ $rc -ne 0 ]; then echo "$out" | grep -v KNOWN | tail -5 | cut -c1-300; fi
done

"""Second module defining event classes with the SAME bare names as vmc.events18 (two workflows of one deployment
may both define e.g. ``ProgressEvent``); qualified names differ."""
from vmc import bootstrap

bootstrap.setup()

from typing import Optional  # noqa: E402

from workflows.events import Event, StopEvent  # noqa: E402


class Typed(Event):
    label: str
    count: Optional[int] = None


class TStop(StopEvent):
    verdict: str = ""

"""C24 - handler stores answer queries consistently and retain the newest completions.

Every sequence (length <= N) of handler upserts, status updates and deletes is executed on MemoryWorkflowStore
(max_completed None / 0 / 1 / 2) and SqliteWorkflowStore (real DB file) and compared with a dict reference: after
each sequence every filter combination (4 x 3 x 3 x 4 x 3 = 432 queries) is evaluated and delete counts are compared.
"""
from __future__ import annotations

import itertools
import json
import os
import shutil
import tempfile
from datetime import datetime, timezone
from typing import Any

from vmc import bootstrap

bootstrap.setup(("llama_agents.server",))

import logging  # noqa: E402

logging.getLogger("llama_agents").setLevel(logging.ERROR)

from vmc.checks.grid import run_grid  # noqa: E402
from llama_agents.server._store.abstract_workflow_store import HandlerQuery, PersistentHandler  # noqa: E402
from llama_agents.server._store.memory_workflow_store import MemoryWorkflowStore  # noqa: E402
from llama_agents.server._store.sqlite.sqlite_workflow_store import SqliteWorkflowStore  # noqa: E402

PID = "C24"
T0 = datetime(2026, 1, 1, tzinfo=timezone.utc)
TERMINAL = ("completed", "failed", "cancelled")
HANDLERS = {"h1": ("r1", "wfa"), "h2": ("r2", "wfa"), "h3": ("r3", "wfb")}
NORUN = ("h4", None, "wfa")  # a handler that is registered but has no run yet (run_id None)


def drive(coro: Any) -> Any:
    try:
        coro.send(None)
    except StopIteration as s:
        return s.value
    coro.close()
    raise RuntimeError("suspended")


QUERIES: list[dict[str, Any]] = [
    {"handler_id_in": h, "run_id_in": r, "workflow_name_in": w, "status_in": s, "is_idle": i}
    for h in (None, [], ["h1"], ["h1", "h3"], ["h1", "h3", "h1"])  # (the last: a merged id list naming one id twice)
    for r in (None, [], ["r1", "r2"], ["r2", "r1", "r2"])
    for w in (None, [], ["wfa"])
    for s in (None, [], ["running"], ["completed", "failed"])
    for i in (None, True, False)
]
SMALL_QUERIES = [q for q in QUERIES if sum(v is not None for v in q.values()) <= 1 or
                 q in ({"handler_id_in": ["h1", "h3"], "run_id_in": ["r1", "r2"], "workflow_name_in": ["wfa"], "status_in": ["completed", "failed"], "is_idle": False},
                       {"handler_id_in": ["h1", "h3"], "run_id_in": None, "workflow_name_in": None, "status_in": ["running"], "is_idle": True})]
# (a delete without any filter is outside the property - "a delete with at least one filter" - and is not exercised)
DELETES = [{"handler_id_in": ["h1"]}, {"status_in": ["completed", "failed"]}, {"is_idle": True}, {"workflow_name_in": ["wfa"], "status_in": ["running"]},
           {"run_id_in": []}, {"handler_id_in": ["h2"], "is_idle": False}, {"handler_id_in": ["h1", "h2", "h1"]}, {"run_id_in": ["r1", "r1"]}]


def ref_match(h: dict[str, Any], q: dict[str, Any]) -> bool:
    for key, field in (("handler_id_in", "handler_id"), ("run_id_in", "run_id"), ("workflow_name_in", "workflow_name"), ("status_in", "status")):
        vals = q.get(key)
        if vals is not None and h[field] not in vals:  # an empty list matches nothing
            return False
    if q.get("is_idle") is not None and q["is_idle"] != (h["idle"] is not None):
        return False
    return True


class Ref:
    """dict of handlers + completion order for the eviction rule (two admissible readings of 'most recently completed')"""

    def __init__(self, max_completed: int | None) -> None:
        self.h: dict[str, dict[str, Any]] = {}
        self.max = max_completed
        self.order_refresh: list[str] = []  # position refreshed by every write with a terminal status
        self.order_first: list[str] = []    # position fixed when the handler last *became* terminal
        self.ambiguous = False

    def write(self, hid: str, rec: dict[str, Any]) -> None:
        was_terminal = hid in self.h and self.h[hid]["status"] in TERMINAL
        self.h[hid] = rec
        if rec["status"] in TERMINAL:
            if hid in self.order_refresh:
                self.order_refresh.remove(hid)
            self.order_refresh.append(hid)
            if not was_terminal or hid not in self.order_first:
                if hid in self.order_first:
                    self.order_first.remove(hid)
                self.order_first.append(hid)
        else:
            for o in (self.order_refresh, self.order_first):
                if hid in o:
                    o.remove(hid)

    def remove(self, hid: str) -> None:
        self.h.pop(hid, None)
        for o in (self.order_refresh, self.order_first):
            if hid in o:
                o.remove(hid)

    def admissible_sets(self) -> list[set[str]]:
        """handler-id sets the store may hold now"""
        if self.max is None:
            return [set(self.h)]
        out = []
        for order in (self.order_refresh, self.order_first):
            keep = set(order[len(order) - self.max:]) if self.max > 0 else set()
            out.append({k for k, v in self.h.items() if v["status"] not in TERMINAL or k in keep})
        return out

    def commit_eviction(self, actual: set[str]) -> None:
        """eviction is permanent: align the reference with the (admissible) set the store kept"""
        for hid in list(self.h):
            if hid not in actual:
                self.remove(hid)


def ops() -> list[Any]:
    out: list[Any] = []
    for hid in HANDLERS:
        for st in ("running", "completed", "failed"):
            out.append(("update", hid, st))
    out.append(("update", "h1", "cancelled"))
    out.append(("rerun", "h1"))  # same handler id, new run id, running again
    out += [("norun", "running"), ("norun", "completed")]  # upsert of the handler without a run
    out += [("move", "h1", "wfb"), ("move", "h3", "wfa")]  # same handler id written again under another workflow name
    out += [("status", "r1", "completed"), ("status", "r2", "failed"), ("status", "r9", "completed"), ("idle", "r1", True), ("idle", "r1", False),
            ("idle", "r3", True)]
    for i in range(len(DELETES)):
        out.append(("delete", i))
    return out


def apply_store(store: Any, op: Any) -> Any:
    async def go() -> Any:
        if op[0] == "update":
            run, wf = HANDLERS[op[1]]
            return await store.update(PersistentHandler(handler_id=op[1], workflow_name=wf, status=op[2], run_id=run, started_at=T0))
        if op[0] == "rerun":
            return await store.update(PersistentHandler(handler_id=op[1], workflow_name=HANDLERS[op[1]][1], status="running", run_id="r1b", started_at=T0))
        if op[0] == "norun":
            return await store.update(PersistentHandler(handler_id=NORUN[0], workflow_name=NORUN[2], status=op[1], run_id=None, started_at=T0))
        if op[0] == "move":
            return await store.update(PersistentHandler(handler_id=op[1], workflow_name=op[2], status="running", run_id=HANDLERS[op[1]][0], started_at=T0))
        if op[0] == "status":
            return await store.update_handler_status(op[1], status=op[2])
        if op[0] == "idle":
            return await store.update_handler_status(op[1], idle_since=(T0 if op[2] else None))
        if op[0] == "delete":
            return await store.delete(HandlerQuery(**DELETES[op[1]]))
        raise ValueError(op)

    return drive(go())


def apply_ref(ref: Ref, op: Any) -> Any:
    if op[0] == "update":
        run, wf = HANDLERS[op[1]]
        ref.write(op[1], {"handler_id": op[1], "workflow_name": wf, "status": op[2], "run_id": run, "idle": None})
        return None
    if op[0] == "rerun":
        ref.write(op[1], {"handler_id": op[1], "workflow_name": HANDLERS[op[1]][1], "status": "running", "run_id": "r1b", "idle": None})
        return None
    if op[0] == "norun":
        ref.write(NORUN[0], {"handler_id": NORUN[0], "workflow_name": NORUN[2], "status": op[1], "run_id": None, "idle": None})
        return None
    if op[0] == "move":
        ref.write(op[1], {"handler_id": op[1], "workflow_name": op[2], "status": "running", "run_id": HANDLERS[op[1]][0], "idle": None})
        return None
    if op[0] in ("status", "idle"):
        hs = [h for h in ref.h.values() if h["run_id"] == op[1]]
        if not hs:
            return None
        h = dict(hs[0])
        if op[0] == "status":
            h["status"] = op[2]
        else:
            h["idle"] = "T0" if op[2] else None
        ref.write(h["handler_id"], h)
        return None
    if op[0] == "delete":
        q = DELETES[op[1]]
        if not any(v is not None for v in q.values()):
            return 0  # a delete needs at least one filter
        ids = [k for k, h in ref.h.items() if ref_match(h, q)]
        for k in ids:
            ref.remove(k)
        return len(ids)
    raise ValueError(op)


def snapshot(store: Any, queries: list[dict[str, Any]]) -> list[Any]:
    async def go() -> list[Any]:
        out = []
        for q in queries:
            try:
                hs = await store.query(HandlerQuery(**q))
            except Exception as e:  # noqa: BLE001  (a query that raises is a wrong answer, not a harness error)
                out.append([("raised", type(e).__name__, str(e)[:60])])
                continue
            out.append(sorted((h.handler_id, h.status, h.run_id, h.workflow_name, h.idle_since is not None) for h in hs))
        return out

    return drive(go())


def ref_snapshot(ref: Ref, queries: list[dict[str, Any]]) -> list[Any]:
    return [sorted((h["handler_id"], h["status"], h["run_id"], h["workflow_name"], h["idle"] is not None) for h in ref.h.values() if ref_match(h, q))
            for q in queries]


_DIR: dict[str, Any] = {}


def make(backend: str) -> Any:
    if backend == "sqlite":
        if "d" not in _DIR:
            _DIR["d"] = tempfile.mkdtemp(prefix="vmc-c24-", dir="/dev/shm" if os.path.isdir("/dev/shm") else None)
            import atexit

            atexit.register(shutil.rmtree, _DIR["d"], True)
            _DIR["tpl"] = os.path.join(_DIR["d"], f"tpl-{os.getpid()}.db")
            SqliteWorkflowStore(_DIR["tpl"])
        path = os.path.join(_DIR["d"], f"w-{os.getpid()}.db")
        if "store" not in _DIR:
            shutil.copyfile(_DIR["tpl"], path)
            _DIR["store"] = SqliteWorkflowStore(path, auto_migrate=False)
            import sqlite3

            _DIR["raw"] = sqlite3.connect(path)
        _DIR["raw"].execute("DELETE FROM handlers")
        _DIR["raw"].commit()
        return _DIR["store"]
    mc = {"mem_none": None, "mem0": 0, "mem1": 1, "mem2": 2}[backend]
    return MemoryWorkflowStore(max_completed=mc)


def run_sequence(backend: str, seq: tuple[Any, ...], full_queries: bool) -> list[Any]:
    store = make(backend)
    mc = {"sqlite": None, "mem_none": None, "mem0": 0, "mem1": 1, "mem2": 2}[backend]
    ref = Ref(mc)
    v: list[Any] = []
    w = {"backend": backend if backend == "sqlite" else "memory", "max_completed": mc}
    for i, op in enumerate(seq):
        try:
            rs = apply_store(store, op)
        except Exception as e:  # noqa: BLE001
            v.append(("operation_raised", {**w, "op": op[0]}, f"[{backend}] after {list(seq[:i])}: {op} raised {e!r}"))
            return v
        rr = apply_ref(ref, op)
        if op[0] == "delete" and rs != rr:
            v.append(("delete_count_differs", {**w, "op": "delete"}, f"[{backend}] after {list(seq[:i])}: delete({DELETES[op[1]]}) removed {rs}, reference {rr}"))
            return v
        # retained set (eviction) - checked after every op because eviction is permanent
        actual = {h[0] for h in snapshot(store, [{}])[0]}
        adm = ref.admissible_sets()
        if actual not in adm:
            kind = "handler_lost" if any(actual < a for a in adm) else "retained_set_wrong"
            nonterm_lost = any(ref.h[k]["status"] not in TERMINAL for k in set(ref.h) - actual)
            v.append(("retention_rule_violated", {**w, "kind": kind, "non_terminal_lost": nonterm_lost},
                      f"[{backend}] after {list(seq[:i + 1])}: store holds {sorted(actual)}, rule allows {[sorted(a) for a in adm]} "
                      f"(statuses {dict((k, h['status']) for k, h in ref.h.items())})"))
            return v
        ref.commit_eviction(actual)
    qs = QUERIES if full_queries else SMALL_QUERIES
    got, want = snapshot(store, qs), ref_snapshot(ref, qs)
    for q, g, x in zip(qs, got, want):
        if g != x:
            v.append(("query_result_differs", {**w, "filters": sorted(k for k, val in q.items() if val is not None),
                                               "empty_list": any(val == [] for val in q.values())},
                      f"[{backend}] after {list(seq)}: query({q}) -> {g}, reference {x}"))
            break
    return v


def work(case: Any) -> Any:
    prefix, depth, backends, full = case
    al = ops()
    v: list[Any] = []
    n = 0
    nontriv = 0
    bad: set[Any] = set()
    for rest in itertools.chain.from_iterable(itertools.product(al, repeat=k) for k in range(0, depth)):
        seq = tuple(prefix) + rest
        for b in backends:
            if any((b, seq[:j]) in bad for j in range(1, len(seq))):
                continue
            vv = run_sequence(b, seq, full)
            n += 1
            if len(seq) > 1:
                nontriv += 1
            if vv:
                bad.add((b, seq))
            v += [(c, w, d, {"seq": [list(o) for o in seq], "backend": b, "full": full}) for c, w, d in vv]
    seen = set()
    out = []
    for c, w, d, r in v:
        key = (c, repr(sorted(w.items())))
        if key not in seen:
            seen.add(key)
            out.append((c, w, d, r))
    return n, nontriv, out, {"prefix": [list(o) for o in prefix], "runs": n}, n * (len(prefix) + depth - 1)


RULE = ("every sequence (length <= 3; <= 4 on the in-memory stores in the thorough tier) over 22 operations {upsert h1..h3 with each status, "
        "re-run of a handler id under a new run id, update_handler_status by run id (status / idle_since set / cleared / unknown "
        "run), 6 deletes incl. an empty-list filter} on MemoryWorkflowStore(max_completed None/0/1/2) and "
        "SqliteWorkflowStore (DB file); retained handler set checked after every step against the retention rule (both readings of "
        "'most recently completed' admitted), delete counts compared, and after each sequence all 432 filter combinations (72 on "
        "SQLite beyond length 2) are queried and compared with a dict reference; non-trivial = sequences of length >= 2")
from vmc.tables import _ROUND6 as _R6  # noqa: E402

RULE += _R6["C24"]
from vmc.tables import _ROUND7 as _R7  # noqa: E402

RULE += _R7["C24"]
from vmc.tables import _ROUND8 as _R8  # noqa: E402

RULE += _R8["C24"]



def run(tier: str, seed: int) -> Any:
    al = ops()
    cases: list[Any] = []
    mem = ["mem_none", "mem0", "mem1", "mem2"]
    for o in al:
        cases.append(([o], 2, mem + ["sqlite"], True))           # length <= 2: every filter combination everywhere
        cases.append(([o], 3, mem, True))                         # length 3 in memory, all filters
        cases.append(([o], 3, ["sqlite"], False))                 # length 3 on SQLite, reduced filter set
    if tier != "quick":
        for o in al:
            for o2 in al:
                cases.append(([o, o2], 3, ["mem1", "mem2", "mem0"], False))   # length 4, eviction-focused
    return run_grid(PID, RULE, cases, work, seed=seed, chunksize=1, assumptions=[
        "'most recently completed' admits two readings (a repeated write with a terminal status does / does not refresh "
        "the completion order); a store is accepted if it follows either consistently",
        "single process; SQLite store with per-call connections (mode equivalence is C21)"],
        extra={"operations": len(al), "queries": len(QUERIES)})


def replay(rec: dict[str, Any]) -> tuple[bool, str]:
    seq = tuple(tuple(o) for o in rec["seq"])
    v = run_sequence(rec["backend"], seq, rec.get("full", True))
    return (not v), f"backend={rec['backend']} seq={seq}\n" + "\n".join(f"VIOLATED {c} {w}: {d}" for c, w, d in v)

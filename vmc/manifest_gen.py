"""Generates /verif/MANIFEST.json from the table below (single source of truth)."""
from __future__ import annotations

import json
import os

VERIF = os.path.dirname(os.path.dirname(os.path.abspath(__file__)))

COMMON_NOTE = ("Trusted base: CPython 3.12 asyncio semantics as reproduced by the hand-stepped virtual loop "
               "(switches only at suspension points, FIFO ready queue, timers in deadline order); no-op stand-in "
               "for llama_index_instrumentation; sources imported straight from /repo's working tree.")

# pid -> (design_ref, text, note, technique)
CHECKS: dict[str, tuple[str, str, str, str]] = {}
NOT_APPLICABLE: dict[str, str] = {}


def load_tables() -> None:
    from vmc import tables

    CHECKS.update(tables.CHECKS)
    NOT_APPLICABLE.update(tables.NOT_APPLICABLE)


def main() -> None:
    load_tables()
    props = [json.loads(l)["id"] for l in open(os.path.join(VERIF, "properties.jsonl"))]
    checks = []
    for pid in props:
        if pid not in CHECKS:
            continue
        ref, text, note, tech = CHECKS[pid]
        checks.append({
            "property_id": pid,
            "quick_cmd": f"/venv/bin/python -m vmc.run {pid} --tier quick",
            "thorough_cmd": f"/venv/bin/python -m vmc.run {pid} --tier thorough",
            "evidence_file": f"/verif/evidence/{pid}.json",
            "replay_cmd_template": f"/venv/bin/python -m vmc.run {pid} --replay {{path}}",
            "engine": "vmc",
            "level_claimed": {"category": "model_checking", "text": text, "design_ref": ref},
            "level_note": note + " " + COMMON_NOTE,
            "technique": tech,
        })
    na = [{"property_id": p, "reason": NOT_APPLICABLE.get(p, "check not built yet in this session; see DESIGN.md section 6 for the planned exhaustive exploration")}
          for p in props if p not in CHECKS]
    m = {
        "version": 1,
        "setup_cmd": "/venv/bin/python -m vmc.setup_check",
        "hooks": {
            "guard": "WORKFLOWS_PY_VERIF",
            "enable": "no source hooks: all instrumentation is import-time wrapping from /verif (vmc.engine); sources are imported from /repo's working tree (VMC_REPO overrides the tree for mutation runs)",
            "baseline_off_cmd": "cd /repo && /venv/bin/python -m pytest -ra -q -p no:cacheprovider --timeout=900 --continue-on-collection-errors",
            "source_commits": [],
            "add_only": True,
        },
        "engines": [{
            "name": "vmc", "path": "/verif/vmc",
            "serves_properties": [c["property_id"] for c in checks],
            "kind_free_text": "stateless exhaustive explorer (iterative deviation bounding, optional explicit-state pruning) driving the real implementation on a hand-stepped virtual asyncio loop; BFS/enumeration of operation sequences against reference models for sequential libraries",
        }],
        "checks": checks,
        "notes": "See DESIGN.md. exit 0 = held on everything explored (KNOWN-FINDING lines for recorded findings), 1 = VIOLATION, 2 = harness error.",
        "not_applicable": na,
    }
    with open(os.path.join(VERIF, "MANIFEST.json"), "w") as f:
        json.dump(m, f, indent=1)
    print(f"MANIFEST: {len(checks)} checks, {len(na)} not applicable")


if __name__ == "__main__":
    main()

"""Mutation runner: apply one property-breaking edit to a scratch copy of the repository sources
and run checks against it (VMC_REPO=<scratch>).  Nothing is ever written to /repo.

usage: python -m vmc.mutate <mutation.json|patch.diff> [--checks C01,C02] [--tier quick] [--tests]

mutation.json: {"id", "breaks": ["C01"], "edits": [{"file": "packages/..", "old": "...", "new": "..."}],
                "note": "..."}
"""
from __future__ import annotations

import argparse
import json
import os
import shutil
import subprocess
import sys
import tempfile

REPO = "/repo"


def make_scratch() -> str:
    d = tempfile.mkdtemp(prefix="vmc-mut-")
    for sub in ("packages", "src"):
        subprocess.run(
            ["rsync", "-a", "--exclude", "__pycache__", "--exclude", "node_modules", "--exclude", "*.pyc",
             os.path.join(REPO, sub), d + "/"], check=True)
    return d


def apply(spec_path: str, scratch: str) -> dict:
    if spec_path.endswith(".json"):
        spec = json.load(open(spec_path))
        for e in spec["edits"]:
            p = os.path.join(scratch, e["file"])
            s = open(p).read()
            if s.count(e["old"]) != e.get("count", 1):
                raise SystemExit(f"edit does not apply uniquely in {e['file']}: {s.count(e['old'])} matches")
            open(p, "w").write(s.replace(e["old"], e["new"]))
        return spec
    r = subprocess.run(["patch", "-p1", "-d", scratch, "-i", os.path.abspath(spec_path)], capture_output=True, text=True)
    if r.returncode != 0:
        raise SystemExit("patch failed: " + r.stdout + r.stderr)
    meta = os.path.join(os.path.dirname(spec_path), "meta.json")
    spec = json.load(open(meta)) if os.path.exists(meta) else {}
    spec.setdefault("id", os.path.basename(os.path.dirname(spec_path)))
    return spec


def main() -> int:
    ap = argparse.ArgumentParser()
    ap.add_argument("spec")
    ap.add_argument("--checks", default=None)
    ap.add_argument("--tier", default="quick")
    ap.add_argument("--seeds", default="0")
    args = ap.parse_args()
    scratch = make_scratch()
    try:
        spec = apply(args.spec, scratch)
        checks = args.checks.split(",") if args.checks else spec.get("breaks", [])
        if isinstance(checks, str):
            checks = [checks]
        ok = True
        for c in checks:
            for seed in args.seeds.split(","):
                env = dict(os.environ, VMC_REPO=scratch, VERIF_SEED=seed, VMC_EVIDENCE_DIR=os.path.join(scratch, "evidence"),
                           VMC_REPLAY_DIR=os.path.join(scratch, "replays"))
                env.setdefault("VMC_PROGRAM_BUDGET_S", "60")  # mutants may blow up the schedule space
                env.setdefault("VMC_EXEC_CAP_S", "15")
                proc = subprocess.Popen([sys.executable, "-m", "vmc.run", c, "--tier", args.tier], cwd=os.path.dirname(os.path.dirname(os.path.abspath(__file__))),
                                        env=env, stdout=subprocess.PIPE, stderr=subprocess.PIPE, text=True,
                                        start_new_session=True)
                try:
                    out, err = proc.communicate(timeout=float(os.environ.get("VMC_MUTATE_TIMEOUT_S", "600")))
                except subprocess.TimeoutExpired:
                    os.killpg(proc.pid, 9)
                    out, err = proc.communicate()
                    out += "\nHARNESS-ERROR mutate timeout"
                except BaseException:
                    os.killpg(proc.pid, 9)
                    raise

                class R:  # noqa: D101
                    returncode = proc.returncode
                    stdout = out
                    stderr = err

                r = R()
                lines = [ln for ln in r.stdout.splitlines() if ln.startswith(("VIOLATION", "  clause", "KNOWN", "HARNESS"))]
                lines.sort(key=lambda ln: ln.startswith(("HARNESS", "KNOWN")))  # violations first
                detected = r.returncode == 1 and any(ln.startswith("VIOLATION") for ln in lines)
                print(f"[{spec.get('id')}] check={c} seed={seed} exit={r.returncode} detected={detected}")
                for ln in lines[:6]:
                    print("    " + ln[:300])
                if r.returncode == 2:
                    print(r.stdout[-1500:], r.stderr[-1500:])
                ok = ok and detected
        return 0 if ok else 1
    finally:
        shutil.rmtree(scratch, ignore_errors=True)


if __name__ == "__main__":
    sys.exit(main())

"""C27 - DBOS recovery replays a run to the same execution (journal seam).

What is executed for real: the control loop, InternalDBOSAdapter.wait_for_next_task, TaskJournal and
SqliteJournalCrud (a real SQLite file).  What is modelled (the dbos library is absent): DBOS's durable primitives -
a step / recv / durable-time call gets the next function id; its result is recorded when it completes; after a
process stop the workflow function is re-executed from the start and every call whose result was recorded returns
that result without re-executing (at an explorer-chosen moment), every other call executes again.

For every schedule of the original run (completion orders of concurrent workers, external event arrival) the
process is stopped after every durable write (operation result or journal row), recovered, and the recovered run is
driven with adversarial completion orders.  Oracle: the recovered tick log has the original's tick log (up to the
stop) as a prefix, no function-id mismatch (non-determinism) occurs, and the result equals the uninterrupted one.
"""
from __future__ import annotations

import asyncio
import os
import sqlite3
import types
from typing import Any

from vmc import bootstrap

bootstrap.setup(("llama_agents.server", "llama_agents.dbos"))

import logging  # noqa: E402

logging.getLogger("llama_agents").setLevel(logging.CRITICAL)

from vmc import server_harness as sh  # noqa: E402
from vmc.checks.common import Program, replay_program, run_programs  # noqa: E402
from vmc.engine import Action, EngineExec, RunConfig, gate, make_step, make_workflow, task_outcome  # noqa: E402
from vmc.events import A, Done, Resp, Work  # noqa: E402
from vmc.explore import Execution  # noqa: E402
from vmc.loop import VLoop  # noqa: E402
from llama_agents.dbos import runtime as dbos_runtime  # noqa: E402
from llama_agents.dbos.journal import crud as journal_crud  # noqa: E402
from workflows.context.state_store import DictState, InMemoryStateStore  # noqa: E402
from workflows.events import StartEvent, StopEvent  # noqa: E402
from workflows.plugins.basic import BasicRuntime  # noqa: E402
from workflows.retry_policy import retry_policy, stop_after_attempt, wait_fixed  # noqa: E402
from workflows.runtime.types.plugin import WaitResultTick, WaitResultTimeout  # noqa: E402
from workflows.runtime.types.ticks import TickAddEvent  # noqa: E402

PID = "C27"


class World:
    """what survives a process stop: DBOS's operation log + undelivered messages + (on disk) the journal"""

    def __init__(self, db_path: str, crash_at: int | None) -> None:
        self.db_path = db_path
        self.oplog: dict[int, tuple[str, str, Any]] = {}
        self.mailbox: list[Any] = []
        self.durable_writes = 0
        self.crash_at = crash_at
        self.crashed = False
        self.mismatch: list[str] = []

    def wrote(self) -> None:
        self.durable_writes += 1
        if self.crash_at is not None and self.durable_writes == self.crash_at and not self.crashed:
            self.crashed = True
            raise sh.Crash()


class Incarnation:
    """one process lifetime"""

    def __init__(self, world: World, recovering: bool) -> None:
        self.world = world
        self.recovering = recovering
        self.fid = 0
        self.ticks: list[str] = []
        self.published: list[str] = []
        self.waiters: list[asyncio.Future] = []
        self.replayed_ops = 0

    def next_fid(self) -> int:
        self.fid += 1
        return self.fid

    async def durable(self, kind: str, name: str, fn: Any) -> Any:
        """run ``fn`` as a durable DBOS operation"""
        fid = self.next_fid()
        rec = self.world.oplog.get(fid)
        if rec is not None:
            if rec[0] != kind or rec[1] != name:
                self.world.mismatch.append(f"function id {fid}: recorded {rec[0]}:{rec[1]}, recovered run called {kind}:{name}")
                raise RuntimeError("DBOS non-determinism: " + self.world.mismatch[-1])
            self.replayed_ops += 1
            if kind == "step":
                await gate(f"replayed:{name}#{fid}")  # recorded results come back at an explorer-chosen moment
            return rec[2]
        res = await fn()
        self.world.oplog[fid] = (kind, name, res)
        self.world.wrote()
        return res


def tick_repr(t: Any) -> str:
    n = type(t).__name__
    if n == "TickAddEvent":
        return f"add({type(t.event).__name__}#{getattr(t.event, 'uid', '')},{t.step_name},{t.attempts})"
    if n == "TickStepResult":
        return f"result({t.step_name},w{t.worker_id},{type(t.event).__name__}#{getattr(t.event, 'uid', '')},{[type(r).__name__ for r in t.result]})"
    return n


def make_adapter_class() -> Any:
    class HarnessDBOSAdapter(dbos_runtime.InternalDBOSAdapter):
        """the real InternalDBOSAdapter with its DBOS primitives bound to the modelled durable operations;
        wait_for_next_task, journal handling and orphan purge are the repository's code"""

        def __init__(self, run_id: str, inc: Incarnation) -> None:
            super().__init__(run_id, engine=None, db_path=inc.world.db_path)  # type: ignore[arg-type]
            self.inc = inc
            self._store = InMemoryStateStore(DictState())

        async def write_to_event_stream(self, event: Any) -> None:
            self.inc.published.append(type(event).__name__ + ":" + str(getattr(event, "name", "")) + str(getattr(event, "step_state", "")))

        async def get_now(self) -> float:
            import time

            async def now() -> float:
                return time.time()

            return await self.inc.durable("now", "_durable_time", now)

        async def send_event(self, tick: Any) -> None:
            put(self.inc, tick)

        async def wait_receive(self, timeout_seconds: float | None = None) -> Any:
            async def recv() -> Any:
                # a message leaves the durable mailbox in the same step in which the recv result is recorded
                # (DBOS consumes the message and records the operation output in one transaction)
                w = self.inc.world
                if not w.mailbox:
                    fut = asyncio.get_running_loop().create_future()
                    self.inc.waiters.append(fut)
                    try:
                        await asyncio.wait_for(fut, timeout_seconds)
                    except (asyncio.TimeoutError, TimeoutError):
                        return None
                    finally:
                        if fut in self.inc.waiters:
                            self.inc.waiters.remove(fut)
                return w.mailbox.pop(0) if w.mailbox else None

            res = await self.inc.durable("recv", "ticks", recv)
            return WaitResultTick(tick=res) if res is not None else WaitResultTimeout()

        async def on_tick(self, tick: Any) -> None:
            self.inc.ticks.append(tick_repr(tick))

        def get_state_store(self) -> Any:
            return self._store

    return HarnessDBOSAdapter


def put(inc: Incarnation, tick: Any) -> None:
    inc.world.mailbox.append(tick)  # durable
    if inc.waiters:
        f = inc.waiters.pop(0)
        if not f.done():
            f.set_result(None)  # wake the receiver; it takes the message from the mailbox itself


def make_runtime(inc: Incarnation, Adapter: Any) -> Any:
    class HarnessRuntime(BasicRuntime):
        def get_internal_adapter(self, workflow: Any) -> Any:
            return Adapter("r1", inc)

        def register(self, workflow: Any) -> Any:
            reg = super().register(workflow)
            steps = {}
            for name, fn in reg.steps.items():
                def mk(name: str = name, fn: Any = fn) -> Any:
                    async def step(*a: Any, **kw: Any) -> Any:
                        return await inc.durable("step", name, lambda: fn(*a, **kw))
                    return step
                steps[name] = mk()
            reg.steps = steps
            return reg

    return HarnessRuntime()


# ------------------------------------------------------------------ workflows -----------------------------------
def wf_chain() -> Any:
    async def s1(self, ctx, ev, inv):  # noqa: ANN001
        await gate("s1")
        return A(uid=1)

    async def s2(self, ctx, ev, inv):  # noqa: ANN001
        await gate("s2")
        return StopEvent(result=f"chain:{ev.uid}")

    return make_workflow("Chain", [make_step("s1", [StartEvent], [A], s1), make_step("s2", [A], [StopEvent], s2)])


def wf_fan() -> Any:
    async def start(self, ctx, ev, inv):  # noqa: ANN001
        ctx.send_event(Work(uid=1))
        ctx.send_event(Work(uid=2))
        return None

    async def work(self, ctx, ev, inv):  # noqa: ANN001
        await gate(f"work{ev.uid}")
        return Done(uid=ev.uid)

    async def join(self, ctx, ev, inv):  # noqa: ANN001
        got = ctx.collect_events(ev, [Done, Done])
        if got is None:
            return None
        return StopEvent(result="fan:" + ",".join(str(e.uid) for e in got))  # arrival order matters: it must replay identically

    return make_workflow("Fan", [make_step("start", [StartEvent], [Work, None], start), make_step("work", [Work], [Done], work, num_workers=2),
                                 make_step("join", [Done], [StopEvent, None], join, num_workers=1)])


def wf_fan3() -> Any:
    """three work items for two workers: one waits in the step queue; the fan-in result is order-sensitive"""
    async def start(self, ctx, ev, inv):  # noqa: ANN001
        for i in (1, 2, 3):
            ctx.send_event(Work(uid=i))
        return None

    async def work(self, ctx, ev, inv):  # noqa: ANN001
        await gate(f"work{ev.uid}")
        return Done(uid=ev.uid)

    async def join(self, ctx, ev, inv):  # noqa: ANN001
        got = ctx.collect_events(ev, [Done, Done, Done])
        if got is None:
            return None
        return StopEvent(result="fan3:" + ",".join(str(e.uid) for e in got))

    return make_workflow("Fan3", [make_step("start", [StartEvent], [Work, None], start), make_step("work", [Work], [Done], work, num_workers=2),
                                  make_step("join", [Done], [StopEvent, None], join, num_workers=1)])


def wf_fan_retry() -> Any:
    """two concurrent workers, one of which fails once (zero-delay retry) - retry ticks interleave with the sibling's result"""
    async def start(self, ctx, ev, inv):  # noqa: ANN001
        ctx.send_event(Work(uid=1))
        ctx.send_event(Work(uid=2))
        return None

    async def work(self, ctx, ev, inv):  # noqa: ANN001
        n = ctx.retry_info().retry_number
        await gate(f"work{ev.uid}.{n}")
        if ev.uid == 1 and n < 1:
            raise RuntimeError("fail0")
        return Done(uid=ev.uid * 10 + n)

    async def join(self, ctx, ev, inv):  # noqa: ANN001
        got = ctx.collect_events(ev, [Done, Done])
        if got is None:
            return None
        return StopEvent(result="fan_retry:" + ",".join(str(e.uid) for e in got))

    return make_workflow("FanRetry", [make_step("start", [StartEvent], [Work, None], start),
                                      make_step("work", [Work], [Done], work, num_workers=2,
                                                retry_policy=retry_policy(wait=wait_fixed(0), stop=stop_after_attempt(3))),
                                      make_step("join", [Done], [StopEvent, None], join, num_workers=1)])


def wf_chain3() -> Any:
    async def s1(self, ctx, ev, inv):  # noqa: ANN001
        await gate("s1")
        return A(uid=1)

    async def s2(self, ctx, ev, inv):  # noqa: ANN001
        await gate("s2")
        return Work(uid=ev.uid + 1)

    async def s3(self, ctx, ev, inv):  # noqa: ANN001
        await gate("s3")
        return StopEvent(result=f"chain3:{ev.uid}")

    return make_workflow("Chain3", [make_step("s1", [StartEvent], [A], s1), make_step("s2", [A], [Work], s2), make_step("s3", [Work], [StopEvent], s3)])


def wf_retry() -> Any:
    async def flaky(self, ctx, ev, inv):  # noqa: ANN001
        n = ctx.retry_info().retry_number
        await gate(f"flaky{n}")
        if n < 1:
            raise RuntimeError("fail0")
        return StopEvent(result=f"retry:{n}")

    return make_workflow("Retry", [make_step("flaky", [StartEvent], [StopEvent], flaky, retry_policy=retry_policy(wait=wait_fixed(0), stop=stop_after_attempt(3)))])


def wf_wait() -> Any:
    async def ask(self, ctx, ev, inv):  # noqa: ANN001
        r = await ctx.wait_for_event(Resp, waiter_id="w0")
        await gate("ask")
        return StopEvent(result=f"wait:{r.uid}")

    return make_workflow("Wait", [make_step("ask", [StartEvent], [StopEvent], ask)])


PROGRAMS: dict[str, dict[str, Any]] = {
    "chain": {"make": wf_chain, "external": []},
    "fan": {"make": wf_fan, "external": []},
    "retry": {"make": wf_retry, "external": []},
    "wait": {"make": wf_wait, "external": [100]},
    "fan3": {"make": wf_fan3, "external": []},
    "fan_retry": {"make": wf_fan_retry, "external": []},
    "chain3": {"make": wf_chain3, "external": []},
}
_DIR: dict[str, str] = {}


def fresh_db() -> str:
    if "d" not in _DIR:
        import atexit
        import shutil
        import tempfile

        _DIR["d"] = tempfile.mkdtemp(prefix="vmc-c27-", dir="/dev/shm" if os.path.isdir("/dev/shm") else None)
        atexit.register(shutil.rmtree, _DIR["d"], True)
    path = os.path.join(_DIR["d"], f"j-{os.getpid()}.db")
    for sfx in ("", "-wal", "-shm"):
        try:
            os.unlink(path + sfx)
        except FileNotFoundError:
            pass
    c = sqlite3.connect(path)
    c.executescript(open(bootstrap.src("packages/llama-agents-dbos/src/llama_agents/dbos/_store/sqlite/migrations/0001_init.sql")).read())
    # DBOS's own system table that the orphan purge cleans (present in a real DBOS SQLite system database)
    c.execute("CREATE TABLE IF NOT EXISTS operation_outputs (workflow_uuid TEXT, function_id INTEGER, output TEXT)")
    c.commit()
    c.close()
    return path


def run_incarnation(ex: Execution, pname: str, world: World, recovering: bool, loop: VLoop | None, sent: set[int]) -> tuple[Any, Incarnation, bool, float]:
    prog = PROGRAMS[pname]
    inc = Incarnation(world, recovering)
    Adapter = make_adapter_class()
    # the journal insert is a durable write as well (a crash point)
    orig_insert = journal_crud.SqliteJournalCrud.insert

    async def insert(self: Any, run_id: str, seq_num: int, task_key: str) -> None:
        await orig_insert(self, run_id, seq_num, task_key)
        world.wrote()

    journal_crud.SqliteJournalCrud.insert = insert  # type: ignore[method-assign]
    dbos_runtime.get_local_dbos_context = lambda: types.SimpleNamespace(function_id=inc.fid)  # type: ignore[assignment]
    e = EngineExec(ex, RunConfig(max_actions=80, allow_time=False), loop=loop)
    e.__enter__()
    crashed = False
    outcome: Any = ("pending", None)
    try:
        try:
            rt = make_runtime(inc, Adapter)
            wf = prog["make"]()(timeout=None, runtime=rt)
            hd = wf.run(run_id="r1")
            added: set[int] = set()

            def offer_external(h: Any) -> None:
                # the client answers once the run waits for it (an event sent before its waiter exists is dropped by design)
                waiting = any(w.collected_waiters for r in h.runners[-1:] for w in r.state.workers.values())
                for uid in prog["external"]:
                    if waiting and uid not in sent and uid not in added:
                        added.add(uid)

                        def send(uid: int = uid) -> None:
                            if uid in sent:
                                return
                            sent.add(uid)
                            put(inc, TickAddEvent(event=Resp(uid=uid)))  # DBOS.send_async from the external adapter: durable

                        e.add_script([Action(f"external Resp#{uid}", send)])

            e.cfg.on_quiescent.append(offer_external)
            e.cfg.stop_when = lambda h: hd.is_done()
            e.drive()
            outcome = task_outcome(hd._result_task)
        except sh.Crash:
            crashed = True
        vt = e.loop.vt
    finally:
        journal_crud.SqliteJournalCrud.insert = orig_insert  # type: ignore[method-assign]
        if crashed:
            sh.bury(e.loop)
            e.abandon()
        else:
            e.__exit__(None, None, None)
    return outcome, inc, crashed, vt


def journal_rows(db: str) -> list[str]:
    c = sqlite3.connect(db)
    try:
        return [r[0] for r in c.execute("SELECT task_key FROM workflow_journal WHERE run_id = 'r1' ORDER BY seq_num").fetchall()]
    finally:
        c.close()


def execute(ex: Execution, pname: str, max_crash: int) -> tuple[Any, list[Any]]:
    sh.clear_graveyard()
    k = ex.choose(max_crash + 1, "process_stop", ["never"] + [f"after_durable_write_{i}" for i in range(1, max_crash + 1)])
    db = fresh_db()
    world = World(db, k or None)
    sent: set[int] = set()
    v: list[Any] = []
    out1, inc1, crashed, vt = run_incarnation(ex, pname, world, False, None, sent)
    w = {"program": pname}
    if not crashed:
        if k:
            return {"skipped": True, "_metrics": {"max_concurrency": 1}}, []
        obs = {"result": repr(out1), "ticks": len(inc1.ticks), "journal": journal_rows(db), "_metrics": {"max_concurrency": 1}}
        if out1[0] != "result":
            v.append(("uninterrupted_run_fails", w, f"{pname}: {out1}"))
        return obs, v
    journal_at_crash = journal_rows(db)
    loop2 = VLoop()
    loop2.vt = vt
    out2, inc2, crashed2, _ = run_incarnation(ex, pname, world, True, loop2, sent)
    desc = (f"{pname}: stopped after durable write {k} (journal {journal_at_crash}, {len(inc1.ticks)} ticks processed), recovered; "
            f"schedule {ex.labels}")
    if world.mismatch:
        v.append(("recovery_calls_durable_operations_in_a_different_order", w, f"{desc}: {world.mismatch[0]}"))
    elif inc2.ticks[:len(inc1.ticks)] != inc1.ticks:
        i = next((j for j, (a, b) in enumerate(zip(inc1.ticks, inc2.ticks)) if a != b), min(len(inc1.ticks), len(inc2.ticks)))
        v.append(("recovered_ticks_diverge_from_recorded", {**w, "journal_rows_at_stop": min(len(journal_at_crash), 3)},
                  f"{desc}: tick {i}: original {inc1.ticks[i:i + 2]}, recovered {inc2.ticks[i:i + 2]}"))
    elif out2[0] != "result":
        v.append(("recovered_run_does_not_finish", w, f"{desc}: {out2}"))
    obs = {"result": repr(out2), "replayed_ops": inc2.replayed_ops, "journal": journal_rows(db), "_metrics": {"max_concurrency": 2}}
    return obs, v


def programs(tier: str) -> list[Program]:
    q = tier == "quick"
    ps = []
    for pname in PROGRAMS:
        big = pname in ("fan3", "fan_retry")
        ps.append(Program(pname, {"program": pname}, (lambda ex, pname=pname: execute(ex, pname, 60 if pname in ("fan3", "fan_retry") else 40)),
                          max_dev=((2 if big else 3) if q else (5 if big else None)), outcome_key=None))
    return ps


def post_results(name: str) -> Any:
    return None


RULE = ("7 workflows (2- and 3-step chains, fan-out with two concurrent workers + order-sensitive fan-in, three items for two workers, a "
        "worker that fails once next to a sibling, zero-delay retry, waiter + external event) on "
        "the real control loop with the real InternalDBOSAdapter.wait_for_next_task / TaskJournal / SqliteJournalCrud (DB file) over "
        "modelled DBOS durable operations x every completion order within the deviation bound x process stop after every durable write "
        "(operation result or journal row, up to 40-60) x recovery with recorded results returned at explorer-chosen moments; the recovered "
        "tick log must extend the original one, durable operations must be called in the recorded order, and the run must finish; "
        "non-trivial = executions with a stop or a deviation")


def run(tier: str, seed: int) -> Any:
    res = run_programs(PID, programs(tier), RULE, seed, assumptions=[
        "PARTIAL CLAIM (journal seam only): the dbos library is absent; its durable step / recv / time operations are modelled "
        "(function ids in call order, recorded result returned on recovery without re-execution, unrecorded calls re-executed); "
        "DBOSRuntime.run_workflow, DBOS streams and Postgres are not executed",
        "no scheduled wake-ups (delays, timeouts) in these programs: wait_for_next_task's timeout outcome is not journaled",
        "events sent with ctx.send_event by a step that is re-executed after the stop may be sent again (at-least-once), so the "
        "programs' re-executed steps send nothing"])
    return res


def replay(rec: dict[str, Any]) -> tuple[bool, str]:
    return replay_program(programs("thorough"), rec)

"""vmc - exhaustive bounded exploration of run-llama/workflows-py (see /verif/DESIGN.md)."""

"""Workflow program families shared by the engine checks, and the generic engine execution."""
from __future__ import annotations

import json
from dataclasses import dataclass, field
from typing import Any, Callable

from vmc.checks.common import Program
from vmc.engine import (
    Action, BasicRuntime, EngineExec, MonRuntime, RunConfig, gate, make_step, make_workflow,
    stream_repr, task_outcome,
)
from vmc.events import A, Ab, Answer, Ask, B, C, Done, Prog, Resp, RespSub, Work
from vmc.explore import Execution
from workflows import Context
from workflows.events import StartEvent, StopEvent
from workflows.retry_policy import retry_policy, stop_after_attempt, wait_fixed


@dataclass
class Oracle:
    on_quiescent: Callable[[Any], None] | None = None
    on_publish: Callable[[Any, Any, Any], None] | None = None
    on_tick: Callable[[Any, Any, Any], None] | None = None
    final: Callable[[Any, Any, dict[str, Any]], None] | None = None  # (harness, engine_exec, state)
    observe: Callable[[Any, Any, dict[str, Any]], Any] | None = None


@dataclass
class Spec:
    name: str
    params: dict[str, Any]
    mk: Callable[[], type]
    scripts: Callable[[dict[str, Any]], list[list[Action]]] | None = None
    resume: bool = False
    pair: bool = False
    max_dev: int | None = None
    min_concurrency: int = 0
    wf_kw: dict[str, Any] = field(default_factory=dict)
    tags: tuple[str, ...] = ()
    time_depth: int = 1
    max_execs: int | None = None
    pair_time: bool = False
    # after the run has ended, run the same workflow again from the finished run's context (fresh StartEvent),
    # this many times; "dict" round-trips the context through to_dict()/from_dict() + JSON first
    continue_runs: int = 0
    continue_via: str = "ctx"
    resume_count: int = 1  # with resume=True: how many snapshot+resume actions one execution may take
    # "abort": serialize the running context, then hard-stop the run; "cancel": handler.cancel_run() first, serialize
    # the context of the cancelled run afterwards
    resume_via: str = "abort"
    busy_ticks: int = 0  # RunConfig.busy_ticks
    peeks: int = 0  # that many times the client looks at the run (ctx.to_dict() + running_steps()) without pausing it


def limits_of(wf: Any) -> dict[str, int]:
    return {n: f._step_config.num_workers for n, f in wf._get_steps().items()}


def make_resume_action(e: Any, state: dict[str, Any], make_wf: Callable[[], Any], via: str = "abort") -> Callable[[], None]:
    """Returns the environment action "serialize the context, hard-stop the run, resume it on a fresh workflow
    instance".  ``state`` holds hd / consumer / wf and is updated in place."""
    h = e.h

    def do_resume() -> None:
        hd = state["hd"]
        if hd.is_done():
            return
        if via == "cancel":
            e.loop.create_task(hd.cancel_run())
            e.loop.drain()  # the run ends as cancelled; its context is serialized afterwards
        snap = json.loads(json.dumps(hd.ctx.to_dict()))
        hd._external_adapter.abort()  # hard-stop the original run
        state["consumer"].cancel()
        e.loop.drain()
        # the process "dies" here: nothing of the original run may survive (abort() alone does not
        # reach worker tasks started inside the pending wait_for_next_task call)
        import asyncio as _aio

        if via == "abort_same_process":
            # the run is hard-stopped (handler.cancel() / abort()), but the process lives on and continues the context:
            # nothing is tidied up by the harness - whatever of the stopped run is still executing stays visible
            pass
        else:
            for _ in range(3):
                left = [t for t in _aio.all_tasks(e.loop) if not t.done()]
                if not left:
                    break
                for t in left:
                    t.cancel()
                e.loop.drain()
            h.gates.clear()
            for lst in h.live.values():
                lst.clear()
        h.restart_marks.append(len(h.published))
        wf2 = make_wf()
        h.stream_done = False
        h.stream_error = None
        h.stream = []
        state["snap"] = snap
        state["resumed"] = True
        state["wf"] = wf2
        h.workflow = wf2
        state["n_resumes"] = state.get("n_resumes", 0) + 1
        state["hd"] = wf2.run(ctx=Context.from_dict(wf2, snap), run_id=f"r{state['n_resumes'] + 1}")
        state["consumer"] = e.consume_stream(state["hd"])

    return do_resume


def run_engine(ex: Execution, spec: Spec, oracle: Oracle) -> tuple[Any, list[Any]]:
    cfg = RunConfig(pair_release=spec.pair, time_depth=spec.time_depth, pair_time=spec.pair_time, busy_ticks=spec.busy_ticks)
    if oracle.on_quiescent:
        cfg.on_quiescent.append(oracle.on_quiescent)
    with EngineExec(ex, cfg) as e:
        h = e.h
        h.restart_marks = []
        h.spec = spec
        if oracle.on_publish:
            h.on_publish.append(oracle.on_publish)
        if oracle.on_tick:
            h.on_tick.append(oracle.on_tick)
        cls = spec.mk()
        wkw = {"timeout": None, **spec.wf_kw}
        wf = cls(runtime=MonRuntime(BasicRuntime()), **wkw)
        h.limits = limits_of(wf)
        h.workflow = wf
        state: dict[str, Any] = {"hd": wf.run(run_id="r1"), "wf": wf, "resumed": False, "e": e}
        if spec.params.get("consumer_leaves_after"):
            state["consumer"] = e.consume_stream_in_sittings(state["hd"], int(spec.params["consumer_leaves_after"]))
        else:
            state["consumer"] = e.consume_stream(state["hd"])
        h.run_done = lambda: state["hd"].is_done() or state["hd"]._external_adapter._queues.complete.done()
        h.state = state
        if spec.scripts:
            for sc in spec.scripts(state):
                e.add_script(sc)
        if spec.peeks:
            def peek() -> None:
                hd_ = state["hd"]
                if not hd_.is_done():
                    json.dumps(hd_.ctx.to_dict())
                    e.loop.create_task(hd_.ctx.running_steps())

            e.add_script([Action(f"peek#{i + 1}: ctx.to_dict() without pausing", peek) for i in range(spec.peeks)])
        if spec.resume:
            do_resume = make_resume_action(e, state, lambda: cls(runtime=MonRuntime(BasicRuntime()), **wkw), via=spec.resume_via)
            e.add_script([Action(f"snapshot+resume#{i + 1}" if spec.resume_count > 1 else "snapshot+resume", do_resume)
                          for i in range(spec.resume_count)])
        cfg.stop_when = lambda hh: state["hd"].is_done() and hh.stream_done
        e.drive()
        for n_cont in range(spec.continue_runs):
            if e.stuck or e.capped or not state["hd"].is_done():
                break
            prev = state["hd"]
            h.restart_marks.append(len(h.published))
            h.stream_done = False
            h.stream_error = None
            h.stream = []
            state["resumed"] = True
            state["continued"] = n_cont + 1
            if spec.continue_via == "dict":
                snap = json.loads(json.dumps(prev.ctx.to_dict()))
                state["snap"] = snap
                ctx2 = Context.from_dict(wf, snap)
            else:
                ctx2 = prev.ctx
            state["hd"] = wf.run(ctx=ctx2, run_id=f"r{n_cont + 2}")
            state["consumer"] = e.consume_stream(state["hd"])
            e.drive()
        if oracle.final:
            oracle.final(h, e, state)
        out = task_outcome(state["hd"]._result_task)
        obs: dict[str, Any] = {"outcome": out[0], "value": repr(out[1]), "stuck": e.stuck, "capped": e.capped}
        if oracle.observe:
            obs["extra"] = oracle.observe(h, e, state)
        obs["_metrics"] = {"max_concurrency": h.max_concurrency}
        return obs, list(h.violations)


def to_programs(specs: list[Spec], oracle: Oracle) -> list[Program]:
    return [Program(s.name, s.params, (lambda ex, s=s: run_engine(ex, s, oracle)), max_dev=s.max_dev,
                    min_concurrency=s.min_concurrency, max_execs=s.max_execs) for s in specs]


# ------------------------------------------------------------------------------- families
def _policy(kind: str | None, attempts: int = 3) -> Any:
    if kind == "zero":
        return retry_policy(wait=wait_fixed(0), stop=stop_after_attempt(attempts))
    if kind == "delay":
        return retry_policy(wait=wait_fixed(1), stop=stop_after_attempt(attempts))
    return None


def wf_fan(k: int, w: int, retry: str | None = None, fail_uids: tuple[int, ...] = (), fails: int = 1,
           gate_fin: bool = False, stagger: float = 0.0) -> type:
    async def start(self, ctx, ev, inv):  # noqa: ANN001
        for i in range(k):
            ctx.send_event(Work(uid=i))
        return None

    async def work(self, ctx, ev, inv):  # noqa: ANN001
        await gate(f"w{ev.uid}.{inv.retry.retry_number}")
        if ev.uid in fail_uids and inv.retry.retry_number < fails:
            if stagger and ev.uid:
                import asyncio as _aio

                await _aio.sleep(stagger * ev.uid)  # failures (and so the retry deadlines) at different times
            raise RuntimeError(f"boom{ev.uid}")
        return Done(uid=ev.uid)

    async def fin(self, ctx, ev, inv):  # noqa: ANN001
        if gate_fin:
            await gate(f"f{ev.uid}")
        r = ctx.collect_events(ev, [Done] * k)
        if r is None:
            return None
        return StopEvent(result=sorted(e.uid for e in r))

    return make_workflow("Fan", [
        make_step("start", [StartEvent], [Work, None], start),
        make_step("work", [Work], [Done], work, num_workers=w, retry_policy=_policy(retry)),
        make_step("fin", [Done], [StopEvent, None], fin, num_workers=1),
    ])


def wf_retry_timebound() -> type:
    """a step under a TIME-bounded retry policy (stop_after_delay 2.5 s, 1 s apart) fails twice and then succeeds, while another step
    keeps the run going until t = 5 s: state rebuilt from the tick log later than the policy's window must still say what the live
    run says (the reducer may only use what the ticks carry, not the time of the replay)"""
    import asyncio as _aio

    from workflows.retry_policy import stop_after_delay

    async def start(self, ctx, ev, inv):  # noqa: ANN001
        ctx.send_event(Work(uid=0))
        ctx.send_event(A(uid=1))
        return None

    async def work(self, ctx, ev, inv):  # noqa: ANN001
        if inv.retry.retry_number < 2:
            raise RuntimeError(f"boom{inv.retry.retry_number}")
        return Done(uid=0)

    async def hold(self, ctx, ev, inv):  # noqa: ANN001
        await _aio.sleep(5.0)
        await gate("hold")
        return Done(uid=1)

    async def fin(self, ctx, ev, inv):  # noqa: ANN001
        r = ctx.collect_events(ev, [Done] * 2)
        if r is None:
            return None
        return StopEvent(result=sorted(e.uid for e in r))

    return make_workflow("RetryTimebound", [
        make_step("start", [StartEvent], [Work, A, None], start),
        make_step("work", [Work], [Done], work, retry_policy=retry_policy(wait=wait_fixed(1), stop=stop_after_delay(2.5))),
        make_step("hold", [A], [Done], hold),
        make_step("fin", [Done], [StopEvent, None], fin, num_workers=1),
    ])


def wf_chain(n: int, gated: bool = True) -> type:
    """start -> s1 -> ... -> sn -> stop, one event each"""
    evs = [A, B, C][:n]

    steps = []

    async def start(self, ctx, ev, inv):  # noqa: ANN001
        if gated:
            await gate("start")
        return evs[0](uid=0)

    steps.append(make_step("start", [StartEvent], [evs[0]], start))
    for i, et in enumerate(evs):
        nxt = evs[i + 1] if i + 1 < len(evs) else None

        async def body(self, ctx, ev, inv, i=i, nxt=nxt):  # noqa: ANN001
            if gated:
                await gate(f"s{i}")
            await ctx.store.set(f"k{i}", i)
            if nxt is None:
                return StopEvent(result=f"chain{n}")
            return nxt(uid=i + 1)

        steps.append(make_step(f"s{i}", [et], [nxt or StopEvent], body))
    return make_workflow("Chain", steps)


def wf_collect(w: int) -> type:
    """collector with num_workers=w and a gate before collect -> stale snapshots / re-runs"""

    async def start(self, ctx, ev, inv):  # noqa: ANN001
        ctx.send_event(A(uid=1))
        ctx.send_event(B(uid=2))
        ctx.send_event(A(uid=3))
        return None

    async def coll(self, ctx, ev, inv):  # noqa: ANN001
        await gate(f"c{ev.uid}")
        r = ctx.collect_events(ev, [A, B, A])
        if r is None:
            return None
        return StopEvent(result=[e.uid for e in r])

    return make_workflow("Coll", [
        make_step("start", [StartEvent], [A, B, None], start),
        make_step("coll", [A, B], [StopEvent, None], coll, num_workers=w),
    ])


def wf_collect_two_buffers(w: int, k: int = 4) -> type:
    """every invocation of the collector adds its event to two buffers: "x" (all k events) and "y0"/"y1" (by uid
    parity) - with overlapping invocations one buffer can be stale while the other is not"""

    async def start(self, ctx, ev, inv):  # noqa: ANN001
        for i in range(1, k + 1):
            ctx.send_event(A(uid=i))
        return None

    async def coll(self, ctx, ev, inv):  # noqa: ANN001
        await gate(f"c{ev.uid}")
        r1 = ctx.collect_events(ev, [A] * k, buffer_id="x")
        r2 = ctx.collect_events(ev, [A] * (k // 2), buffer_id=f"y{ev.uid % 2}")
        inv.info["pairs"] = None if r2 is None else sorted(e.uid for e in r2)
        if r1 is None:
            return None
        return StopEvent(result=sorted(e.uid for e in r1))

    return make_workflow("Coll2", [
        make_step("start", [StartEvent], [A, None], start),
        make_step("coll", [A], [StopEvent, None], coll, num_workers=w),
    ])


def wf_collect_fail(w: int) -> type:
    """collector (num_workers=w, retry policy) whose invocation for B2 raises AFTER calling collect_events on its
    first attempt; 4 events so that one waits in the queue"""

    async def start(self, ctx, ev, inv):  # noqa: ANN001
        ctx.send_event(A(uid=1))
        ctx.send_event(B(uid=2))
        ctx.send_event(A(uid=3))
        ctx.send_event(B(uid=4))
        return None

    async def coll(self, ctx, ev, inv):  # noqa: ANN001
        await gate(f"c{ev.uid}.{inv.retry.retry_number}")
        r = ctx.collect_events(ev, [A, B, A, B])
        if ev.uid == 2 and inv.retry.retry_number == 0:
            raise RuntimeError("fails after collect_events")
        if r is None:
            return None
        return StopEvent(result=sorted(e.uid for e in r))

    return make_workflow("CollFail", [
        make_step("start", [StartEvent], [A, B, None], start),
        make_step("coll", [A, B], [StopEvent, None], coll, num_workers=w, retry_policy=_policy("zero")),
    ])


def wf_wait(w: int, n: int = 3, timeout: float | None = None) -> type:
    async def start(self, ctx, ev, inv):  # noqa: ANN001
        for i in range(n):
            ctx.send_event(Work(uid=i))
        return None

    async def ask(self, ctx, ev, inv):  # noqa: ANN001
        try:
            r = await ctx.wait_for_event(Resp, requirements={"key": str(ev.uid)}, timeout=timeout,
                                         waiter_id=f"w{ev.uid}", waiter_event=Ask(uid=ev.uid))
        except TimeoutError:
            return Done(uid=100 + ev.uid)
        await gate(f"a{ev.uid}")
        return Done(uid=r.uid)

    async def fin(self, ctx, ev, inv):  # noqa: ANN001
        r = ctx.collect_events(ev, [Done] * n)
        if r is None:
            return None
        return StopEvent(result=sorted(e.uid for e in r))

    return make_workflow("Wait", [
        make_step("start", [StartEvent], [Work, None], start),
        make_step("ask", [Work], [Done], ask, num_workers=w),
        make_step("fin", [Done], [StopEvent, None], fin, num_workers=1),
    ])


def wf_wait_all(k: int, w: int) -> type:
    """k inputs of one step all park in wait_for_event for the same event type (distinct waiter ids, no requirements):
    ONE answer resolves all of them in a single tick, and their replays compete for the step's w slots"""
    async def start(self, ctx, ev, inv):  # noqa: ANN001
        for i in range(k):
            ctx.send_event(Work(uid=i))
        return None

    async def ask(self, ctx, ev, inv):  # noqa: ANN001
        r = await ctx.wait_for_event(Resp, timeout=None, waiter_id=f"w{ev.uid}", waiter_event=Ask(uid=ev.uid))
        await gate(f"a{ev.uid}")
        return Done(uid=10 * r.uid + ev.uid)

    async def fin(self, ctx, ev, inv):  # noqa: ANN001
        r = ctx.collect_events(ev, [Done] * k)
        if r is None:
            return None
        return StopEvent(result=sorted(e.uid for e in r))

    return make_workflow("WaitAll", [
        make_step("start", [StartEvent], [Work, None], start),
        make_step("ask", [Work], [Done], ask, num_workers=w),
        make_step("fin", [Done], [StopEvent, None], fin, num_workers=1),
    ])


def wait_all_scripts(state: dict[str, Any]) -> list[list[Action]]:
    return [[Action("send Resp7 (answers every waiter)", lambda: state["hd"].ctx.send_event(Resp(uid=7, key="all")))]]


def wf_early_stop(k: int, w: int, wait: bool = False) -> type:
    """``start`` hands out k Work events and ends the run with a StopEvent whenever its gate opens - possibly while
    ``work`` still has invocations running / queued, ``fin`` holds a partial collection, or (wait=True) ``work`` is
    suspended in wait_for_event.  Used with Spec.continue_runs: the next run starts from that left-over state."""

    async def start(self, ctx, ev, inv):  # noqa: ANN001
        from vmc.engine import H

        base = 10 * len(H().restart_marks)
        for i in range(k):
            ctx.send_event(Work(uid=base + i))
        await gate(f"start{base}")
        return StopEvent(result=f"early{base}")

    async def work(self, ctx, ev, inv):  # noqa: ANN001
        if wait and ev.uid % 10 == 0:
            await ctx.wait_for_event(Resp, requirements={"key": str(ev.uid)}, waiter_id=f"w{ev.uid}",
                                     waiter_event=Ask(uid=ev.uid))
        await gate(f"w{ev.uid}")
        return Done(uid=ev.uid)

    async def fin(self, ctx, ev, inv):  # noqa: ANN001
        r = ctx.collect_events(ev, [Done] * (2 * k))
        if r is None:
            return None
        return StopEvent(result=sorted(e.uid for e in r))

    return make_workflow("EarlyStop", [
        make_step("start", [StartEvent], [Work, StopEvent], start),
        make_step("work", [Work], [Done], work, num_workers=w),
        make_step("fin", [Done], [StopEvent, None], fin, num_workers=1),
    ])


def continue_specs(tier: str) -> list[Spec]:
    """runs that end with work left over, continued from the finished run's context"""
    q = tier == "quick"
    sp = []
    for k, w in ([(1, 1), (2, 1), (2, 2)] if q else [(1, 1), (2, 1), (2, 2), (3, 2)]):
        for via in ("ctx", "dict"):
            sp.append(Spec(f"early_stop_continue(k={k},w={w},{via})", {"k": k, "w": w, "via": via},
                           (lambda k=k, w=w: wf_early_stop(k, w)), continue_runs=1, continue_via=via,
                           max_dev=(3 if q else 5), tags=("continue",)))
    sp.append(Spec("early_stop_continue_wait(k=2,w=2,dict)", {"k": 2, "w": 2, "via": "dict", "wait": True},
                   lambda: wf_early_stop(2, 2, wait=True), continue_runs=1, continue_via="dict",
                   scripts=(lambda state: [[Action("send Resp0", lambda: state["hd"].ctx.send_event(Resp(uid=0, key="0")))]]),
                   max_dev=(3 if q else 5), tags=("continue", "wait")))
    if not q:
        sp.append(Spec("early_stop_continue_twice(k=2,w=1,ctx)", {"k": 2, "w": 1, "via": "ctx", "runs": 3},
                       lambda: wf_early_stop(2, 1), continue_runs=2, continue_via="ctx", max_dev=4, tags=("continue",)))
    return sp


def resp_scripts(n: int) -> Callable[[dict[str, Any]], list[list[Action]]]:
    def mk(state: dict[str, Any]) -> list[list[Action]]:
        def send(uid: int) -> Action:
            return Action(f"send Resp{uid}", lambda: state["hd"].ctx.send_event(Resp(uid=uid, key=str(uid))))

        return [[send(i)] for i in range(n)]

    return mk


def wf_stream_writer() -> type:
    """step writes progress events to the stream, then returns an InputRequiredEvent, answered
    externally"""

    async def start(self, ctx, ev, inv):  # noqa: ANN001
        ctx.write_event_to_stream(Prog(uid=1))
        await gate("s")
        ctx.write_event_to_stream(Prog(uid=2))
        return Ask(uid=7)

    async def answer(self, ctx, ev, inv):  # noqa: ANN001
        await gate("ans")
        return StopEvent(result=ev.uid)

    return make_workflow("Hitl", [
        make_step("start", [StartEvent], [Ask], start),
        make_step("answer", [Answer], [StopEvent], answer),
    ])


def hitl_scripts(state: dict[str, Any]) -> list[list[Action]]:
    return [[Action("send Resp", lambda: state["hd"].ctx.send_event(Answer(uid=5)))]]


def wf_unhandled() -> type:
    """a step emits an event nobody accepts, run continues through another path"""

    async def start(self, ctx, ev, inv):  # noqa: ANN001
        ctx.send_event(C(uid=9))  # nobody accepts C
        await gate("s")
        return A(uid=1)

    async def a(self, ctx, ev, inv):  # noqa: ANN001
        await gate("a")
        return StopEvent(result="ok")

    return make_workflow("Unh", [
        make_step("start", [StartEvent], [A], start),
        make_step("a", [A], [StopEvent], a),
    ])


def catalog(tier: str) -> list[Spec]:
    q = tier == "quick"
    sp: list[Spec] = []
    kmax, wmax = (3, 3) if q else (4, 4)
    for k in range(1, kmax + 1):
        for w in range(1, wmax + 1):
            sp.append(Spec(f"fan(k={k},w={w})", {"k": k, "w": w}, (lambda k=k, w=w: wf_fan(k, w)),
                           min_concurrency=min(k, w), tags=("fan",)))
    for k, w in ([(2, 1), (2, 2), (3, 2)] if q else [(2, 1), (2, 2), (3, 2), (3, 3), (4, 2)]):
        for retry in ("zero", "delay"):
            sp.append(Spec(f"fan_retry(k={k},w={w},{retry})", {"k": k, "w": w, "retry": retry},
                           (lambda k=k, w=w, retry=retry: wf_fan(k, w, retry, fail_uids=(0, 1))),
                           min_concurrency=min(k, w), tags=("retry", retry)))
    # three wake-ups pending at once: the workflow timeout and two retry delays that end at different times
    sp.append(Spec("retry_timebound_then_late_timer", {}, wf_retry_timebound, tags=("retry", "delay")))
    # a retry delay is pending while a sibling's completion starts a NEW (gated) worker: the timer can come due in the very wait that
    # started that worker, before anything completes
    sp.append(Spec("fan_retry_gatefin(k=2,w=2,delay)", {"k": 2, "w": 2, "retry": "delay"}, lambda: wf_fan(2, 2, "delay", fail_uids=(0,), gate_fin=True),
                   max_dev=(4 if q else 6), tags=("fan", "retry", "delay")))
    sp.append(Spec("fan_retry_stagger_timeout(k=2,w=2)", {"k": 2, "w": 2, "timeout": 50.0},
                   lambda: wf_fan(2, 2, "delay", fail_uids=(0, 1), stagger=0.5), wf_kw={"timeout": 50.0},
                   max_dev=(4 if q else 6), tags=("retry", "delay", "timeout")))
    sp.append(Spec("fan_gatefin(k=3,w=3)", {}, lambda: wf_fan(3, 3, gate_fin=True), tags=("fan",),
                   max_dev=None if not q else 4))
    for w in (1, 2, 3):
        sp.append(Spec(f"collect(w={w})", {"w": w}, (lambda w=w: wf_collect(w)), min_concurrency=min(3, w),
                       tags=("collect",)))
    for w in ((2,) if q else (2, 3)):
        sp.append(Spec(f"collect_two_buffers(w={w})", {"w": w}, (lambda w=w: wf_collect_two_buffers(w)),
                       min_concurrency=w, tags=("collect",), max_dev=(4 if q else 6)))
    for w in (2, 3):
        sp.append(Spec(f"collect_fail(w={w})", {"w": w}, (lambda w=w: wf_collect_fail(w)), tags=("collect", "retry"),
                       max_dev=(4 if q else 6)))
    for w in (1, 2):
        sp.append(Spec(f"wait(w={w})", {"w": w}, (lambda w=w: wf_wait(w)), scripts=resp_scripts(3),
                       max_dev=(3 if q else 5), tags=("wait",)))
    sp.append(Spec("wait_timeout(w=2)", {}, lambda: wf_wait(2, n=2, timeout=5.0), scripts=resp_scripts(2),
                   max_dev=(3 if q else 6), tags=("wait", "timeout")))
    # one answer resolves every waiter of the step in one tick
    for k, w in ([(3, 1), (3, 2)] if q else [(3, 1), (3, 2), (3, 3), (4, 2)]):
        sp.append(Spec(f"wait_all(k={k},w={w})", {"k": k, "w": w}, (lambda k=k, w=w: wf_wait_all(k, w)), scripts=wait_all_scripts,
                       max_dev=(3 if q else 5), tags=("wait", "multi_resolve")))
    for n in (1, 2, 3):
        sp.append(Spec(f"chain(n={n})", {"n": n}, (lambda n=n: wf_chain(n)), tags=("chain",)))
    sp.append(Spec("hitl", {}, wf_stream_writer, scripts=hitl_scripts, tags=("hitl",)))
    sp.append(Spec("unhandled", {}, wf_unhandled, tags=("unhandled",)))
    # snapshot + resume at every quiescent point (drives rewind_in_progress)
    for k, w in [(2, 1), (3, 2)] + ([] if q else [(4, 3)]):
        sp.append(Spec(f"fan_resume(k={k},w={w})", {"k": k, "w": w}, (lambda k=k, w=w: wf_fan(k, w)),
                       resume=True, tags=("resume", "fan")))
    # ... with two different steps executing at the snapshot (the worker step and the gated collector)
    sp.append(Spec("fan_gatefin_resume(k=2,w=1)", {}, lambda: wf_fan(2, 1, gate_fin=True), resume=True, tags=("resume", "fan")))
    if not q:
        sp.append(Spec("fan_gatefin_resume(k=3,w=2)", {}, lambda: wf_fan(3, 2, gate_fin=True), resume=True, tags=("resume", "fan")))
    sp.append(Spec("fan_retry_resume(k=2,w=2,zero)", {}, lambda: wf_fan(2, 2, "zero", fail_uids=(0,)),
                   resume=True, tags=("resume", "retry")))
    sp.append(Spec("collect_resume(w=2)", {}, lambda: wf_collect(2), resume=True, tags=("resume", "collect")))
    sp.append(Spec("wait_resume(w=2)", {}, lambda: wf_wait(2, n=2), scripts=resp_scripts(2), resume=True,
                   max_dev=(3 if q else 5), tags=("resume", "wait")))
    # simultaneous completions (two gates released in the same loop iteration)
    sp.append(Spec("fan_pair(k=3,w=3)", {}, lambda: wf_fan(3, 3), pair=True, tags=("pair", "fan")))
    if not q:
        sp.append(Spec("collect_pair(w=3)", {}, lambda: wf_collect(3), pair=True, tags=("pair", "collect")))
        sp.append(Spec("fan_retry_pair(k=3,w=2,zero)", {}, lambda: wf_fan(3, 2, "zero", fail_uids=(0, 1)),
                       pair=True, tags=("pair", "retry")))
    return sp


ENGINE_ASSUMPTIONS = [
    "llama_index_instrumentation replaced by a no-op stand-in (telemetry only, adds no suspension point)",
    "async steps only; thread-pool (sync) steps are outside the cooperative scheduler",
    "task switches only at real suspension points; choice points are taken at loop quiescence "
    "(asyncio's FIFO ready queue is deterministic in between)",
    "time.time / time.monotonic are virtual with different bases; timers fire only when the explorer "
    "chooses, in deadline order",
]

__all__ = ["Oracle", "Spec", "run_engine", "to_programs", "catalog", "continue_specs", "stream_repr", "ENGINE_ASSUMPTIONS"]

"""C19 - state stores implement the same state semantics, with isolated snapshots.

Every sequence (length <= N) of mutating operations - set by dotted path, set_state (replace / parent-type merge /
incompatible type), clear, edit_state blocks, get_state()+mutate-the-snapshot - is executed from scratch on a fresh
InMemoryStateStore and on a fresh SqliteStateStore (real DB file); after every operation the complete observable
state (get_state dump + get() for a fixed set of paths, with and without default) is compared with a plain
nested-dict reference model.  No state-graph merging: hidden aliasing inside a store would make merging unsound.
"""
from __future__ import annotations

import copy
import itertools
import json
import os
import shutil
import tempfile
from typing import Any

from vmc import bootstrap

bootstrap.setup(("llama_agents.server",))

from vmc import state19 as S  # noqa: E402
from vmc.checks.grid import run_grid  # noqa: E402
from llama_agents.server._store.sqlite.sqlite_workflow_store import SqliteWorkflowStore  # noqa: E402
from workflows.context.state_store import DictState, InMemoryStateStore  # noqa: E402

PID = "C19"
MISSING = "<missing>"
ERR = "<error>"


def drive(coro: Any) -> Any:
    """Run a coroutine that must not suspend (store operations only await an uncontended lock)."""
    try:
        coro.send(None)
    except StopIteration as s:
        return s.value
    coro.close()
    raise RuntimeError("store operation suspended unexpectedly")


# ------------------------------------------------------------------ reference model ---------------------------
class Model:
    """plain nested dict; for the typed kind the top level (and ``nested``) have a fixed key set"""

    def __init__(self, kind: str) -> None:
        self.kind = kind
        self.d: dict[str, Any] = {} if kind == "dict" else self.defaults()

    @staticmethod
    def defaults() -> dict[str, Any]:
        return {"count": 0, "name": "", "meta": {}, "extra": [], "nested": {"x": 0, "d": {}}}

    def fixed(self, obj: Any, top: bool, parent_key: str | None) -> bool:
        return self.kind == "typed" and (top or parent_key == "nested@top")

    def get(self, path: str) -> Any:
        cur: Any = self.d
        segs = path.split(".")
        for seg in segs:
            if isinstance(cur, dict):
                if seg not in cur:
                    return MISSING
                cur = cur[seg]
            elif isinstance(cur, list):
                try:
                    i = int(seg)
                except ValueError:
                    return MISSING
                if not (-len(cur) <= i < len(cur)):
                    return MISSING
                cur = cur[i]
            else:
                return MISSING
        return cur

    def set(self, path: str, value: Any) -> bool:
        """returns False on error (nothing changes)"""
        segs = path.split(".")
        cur: Any = self.d
        fixed_here = self.kind == "typed"  # top level of the typed model: fixed field set
        for seg in segs[:-1]:
            nxt: Any = MISSING
            if isinstance(cur, dict):
                if seg in cur:
                    nxt = cur[seg]
            elif isinstance(cur, list):
                try:
                    i = int(seg)
                    if -len(cur) <= i < len(cur):
                        nxt = cur[i]
                except ValueError:
                    pass
            if nxt is MISSING:
                if not isinstance(cur, dict) or fixed_here:
                    return False  # cannot create a child of a scalar / list slot / undeclared field
                cur[seg] = {}
                nxt = cur[seg]
            fixed_here = self.kind == "typed" and cur is self.d and seg == "nested"
            cur = nxt
        last = segs[-1]
        if isinstance(cur, dict):
            if fixed_here and last not in cur:
                return False
            cur[last] = copy.deepcopy(value)
            return True
        if isinstance(cur, list):
            try:
                i = int(last)
            except ValueError:
                return False
            if -len(cur) <= i < len(cur):
                cur[i] = copy.deepcopy(value)
                return True
        return False


# ------------------------------------------------------------------ alphabets ---------------------------------
VALS = [1, {"b": {"c": 2}}, [5, 6], None]
DICT_SET_PATHS = ["a", "a.b", "a.b.c", "l.0", "l.2", "m.x"]
DICT_OBS_PATHS = ["a", "a.b", "a.b.c", "a.b.c.d", "l", "l.0", "l.1", "l.2", "m", "m.x", "x", "zz", "memory", "memory.turns"]
TYPED_SETS = [("count", 5), ("name", "n"), ("meta", {"k": {"j": 1}}), ("meta.k", 2), ("meta.k.j", 3), ("extra", [7, 8]),
              ("extra.0", 9), ("extra.3", 9), ("nested.x", 4), ("nested.d.q", [1]), ("nested.zz", 1), ("missing", 1),
              ("missing.deep", 1)]
TYPED_OBS_PATHS = ["count", "name", "meta", "meta.k", "meta.k.j", "extra", "extra.0", "extra.1", "nested", "nested.x",
                   "nested.d", "nested.d.q", "nested.zz", "missing", "meta.zz"]


def ops(kind: str, tier: str) -> list[Any]:
    out: list[Any] = []
    if kind == "dict":
        for p in DICT_SET_PATHS:
            for v in VALS:
                out.append(("set", p, v))
        # a top-level key the library treats specially when a value CANNOT be serialized ("memory"): plain JSON under it is ordinary state
        out += [("set", "memory", {"turns": 2, "last": "hi"}), ("set", "memory.turns", 3)]
        out += [("set_state", "x1"), ("set_state", "empty"), ("set_state", "abc"), ("clear",),
                ("edit", "setitem_a"), ("edit", "nested_ab"), ("edit", "new_key_and_list"), ("edit", "noop"),
                ("snap", "setitem_a"), ("snap", "new_key"), ("snap", "setattr_a")]
    else:
        for p, v in TYPED_SETS:
            out.append(("set", p, v))
        out += [("set_state", "child"), ("set_state", "parent"), ("set_state", "parent_default"), ("set_state", "unrelated"),
                ("clear",), ("edit", "count_inc"), ("edit", "meta_key"), ("edit", "nested_x"), ("edit", "extra_append"),
                ("snap", "count"), ("snap", "meta_rebind"), ("snap", "nested_rebind")]
    return out


# ------------------------------------------------------------------ applying an op ----------------------------
def apply_store(kind: str, store: Any, op: Any) -> str:
    """returns 'ok' or 'error'"""

    async def go() -> None:
        if op[0] == "set":
            await store.set(op[1], copy.deepcopy(op[2]))
        elif op[0] == "clear":
            await store.clear()
        elif op[0] == "set_state":
            if kind == "dict":
                st = {"x1": lambda: DictState(x=1), "empty": lambda: DictState(), "abc": lambda: DictState(a={"b": {"c": 3}}, l=[1])}[op[1]]()
            else:
                st = {"child": lambda: S.Child(count=7, extra=[1], nested=S.Inner(x=2, d={"q": 1})),
                      "parent": lambda: S.Base(count=5, name="p", meta={"pk": 1}), "parent_default": lambda: S.Base(),
                      "unrelated": lambda: S.Unrelated()}[op[1]]()
            await store.set_state(st)
        elif op[0] == "edit":
            async with store.edit_state() as st:
                m = op[1]
                if m == "setitem_a":
                    st["a"] = {"e": 1}
                elif m == "nested_ab":
                    a = st.get("a")
                    if isinstance(a, dict):
                        a["b"] = "edited"
                elif m == "new_key_and_list":
                    st["m"] = {"x": [1]}
                    lst = st.get("l")
                    if isinstance(lst, list):
                        lst.append("app")
                elif m == "noop":
                    pass
                elif m == "count_inc":
                    st.count += 1
                elif m == "meta_key":
                    st.meta["e"] = [1]
                elif m == "nested_x":
                    st.nested.x = st.nested.x + 10
                elif m == "extra_append":
                    st.extra.append("app")
        elif op[0] == "snap":
            snap = await store.get_state()
            m = op[1]
            if m == "setitem_a":
                snap["a"] = "SNAP"
            elif m == "new_key":
                snap["zz"] = "SNAP"
            elif m == "setattr_a":
                snap.a = "SNAP"
            elif m == "count":
                snap.count = 999
            elif m == "meta_rebind":
                snap.meta = {"SNAP": 1}
            elif m == "nested_rebind":
                snap.nested = S.Inner(x=999)

    try:
        drive(go())
        return "ok"
    except Exception:  # noqa: BLE001
        return "error"


def apply_model(kind: str, m: Model, op: Any) -> str:
    if op[0] == "set":
        return "ok" if m.set(op[1], op[2]) else "error"
    if op[0] == "clear":
        m.d = {} if kind == "dict" else Model.defaults()
        return "ok"
    if op[0] == "set_state":
        if kind == "dict":
            m.d = {"x1": {"x": 1}, "empty": {}, "abc": {"a": {"b": {"c": 3}}, "l": [1]}}[op[1]]
            return "ok"
        if op[1] == "child":
            m.d = {"count": 7, "name": "", "meta": {}, "extra": [1], "nested": {"x": 2, "d": {"q": 1}}}
        elif op[1] == "parent":
            m.d.update({"count": 5, "name": "p", "meta": {"pk": 1}})
        elif op[1] == "parent_default":
            m.d.update({"count": 0, "name": "", "meta": {}})
        else:
            return "error"
        return "ok"
    if op[0] == "edit":
        k = op[1]
        if k == "setitem_a":
            m.d["a"] = {"e": 1}
        elif k == "nested_ab":
            if isinstance(m.d.get("a"), dict):
                m.d["a"]["b"] = "edited"
        elif k == "new_key_and_list":
            m.d["m"] = {"x": [1]}
            if isinstance(m.d.get("l"), list):
                m.d["l"].append("app")
        elif k == "count_inc":
            m.d["count"] += 1
        elif k == "meta_key":
            m.d["meta"]["e"] = [1]
        elif k == "nested_x":
            m.d["nested"]["x"] += 10
        elif k == "extra_append":
            m.d["extra"].append("app")
        return "ok"
    if op[0] == "snap":
        return "ok"  # a snapshot is isolated: the store does not change
    raise ValueError(op)


SQLITE_OBS = {"dict": ["a.b", "l.1", "m.x", "zz", "memory.turns"], "typed": ["meta.k", "nested.x", "extra.0", "missing"]}


def observe_store(kind: str, store: Any, backend: str = "memory") -> dict[str, Any]:
    # SqliteStateStore.get() is _load_state() + the same get_by_path() the in-memory store uses: the full path set is
    # observed on the in-memory store, the SQLite store gets the full dump plus 4 representative paths (each get
    # opens a connection; 25 of them per sequence dominated the run time)
    paths = (DICT_OBS_PATHS if kind == "dict" else TYPED_OBS_PATHS) if backend == "memory" else SQLITE_OBS[kind]

    async def go() -> dict[str, Any]:
        st = await store.get_state()
        dump = dict(st._data) if kind == "dict" else st.model_dump()
        try:
            o: dict[str, Any] = {"state": json.loads(json.dumps(dump))}
        except ValueError as e:  # e.g. a circular structure: certainly not the model's state
            o = {"state": f"<not JSON-representable: {e}>"}
        for p in paths:
            try:
                v = await store.get(p)
                o[f"get({p})"] = _plain(v)
            except ValueError:
                o[f"get({p})"] = MISSING
            except Exception as e:  # noqa: BLE001
                o[f"get({p})"] = f"<raised {type(e).__name__}>"
            try:
                o[f"get({p},default)"] = _plain(await store.get(p, default="D"))
            except Exception as e:  # noqa: BLE001
                o[f"get({p},default)"] = f"<raised {type(e).__name__}>"
        return o

    return drive(go())


def _plain(v: Any) -> Any:
    try:
        if hasattr(v, "model_dump"):
            return json.loads(json.dumps(v.model_dump()))
        return json.loads(json.dumps(v))
    except ValueError as e:
        return f"<not JSON-representable: {e}>"


def observe_model(kind: str, m: Model) -> dict[str, Any]:
    o: dict[str, Any] = {"state": json.loads(json.dumps(m.d))}
    for p in (DICT_OBS_PATHS if kind == "dict" else TYPED_OBS_PATHS):
        v = m.get(p)
        o[f"get({p})"] = v if v is MISSING else json.loads(json.dumps(v))
        o[f"get({p},default)"] = "D" if v is MISSING else json.loads(json.dumps(v))
    return o


# ------------------------------------------------------------------ stores ------------------------------------
_TMP: dict[str, Any] = {}


def make_store(backend: str, kind: str) -> Any:
    if backend == "memory":
        return InMemoryStateStore(DictState() if kind == "dict" else S.Child())
    # one migrated DB file per worker process, a fresh run_id (= fresh state row) per sequence
    key = f"ws{os.getpid()}"
    if key not in _TMP:
        if "dir" not in _TMP:
            _TMP["dir"] = tempfile.mkdtemp(prefix="vmc-c19-", dir="/dev/shm" if os.path.isdir("/dev/shm") else None)
        _TMP[key] = SqliteWorkflowStore(os.path.join(_TMP["dir"], f"w{os.getpid()}.db"))  # runs the real migrations
        _TMP["n"] = 0
    _TMP["n"] += 1
    return _TMP[key].create_state_store(f"run-{_TMP['n']}", DictState if kind == "dict" else S.Child)


def run_sequence(kind: str, backend: str, seq: tuple[Any, ...]) -> tuple[int, list[Any]]:
    store = make_store(backend, kind)
    m = Model(kind)
    v: list[Any] = []
    n = 0
    for i, op in enumerate(seq):
        rs = apply_store(kind, store, op)
        rm = apply_model(kind, m, op)
        n += 1
        w = {"backend": backend, "kind": kind, "op": op[0] + (":" + str(op[1]) if op[0] in ("snap", "edit", "set_state") else "")}
        if rs != rm:
            v.append(("operation_outcome_differs_from_model", w,
                      f"[{backend}/{kind}] after {seq[:i]}: {op} -> store {rs}, nested-dict model {rm}"))
            break
        if i < len(seq) - 1:
            continue  # every proper prefix is itself an enumerated sequence and is observed there
        so, mo = observe_store(kind, store, backend), observe_model(kind, m)
        mo = {k: x for k, x in mo.items() if k in so}
        if so != mo:
            diff = {k: (so.get(k), mo.get(k)) for k in mo if so.get(k) != mo.get(k)}
            clause = "snapshot_mutation_changes_store" if op[0] == "snap" else "state_differs_from_model"
            v.append((clause, w, f"[{backend}/{kind}] after {list(seq[:i + 1])}: (store, model) differ at {json.dumps(diff, default=str)[:500]}"))
            break
    return n, v


def work(case: Any) -> Any:
    kind, first_ops, depth, alphabet = case
    v: list[Any] = []
    n = 0
    nontriv = 0
    seqs = 0
    bad: set[Any] = set()
    for first in first_ops:
        for rest in itertools.chain.from_iterable(itertools.product(alphabet, repeat=k) for k in range(0, depth)):
            seq = (first,) + rest
            seqs += 1
            for backend in ("memory", "sqlite"):
                if any((backend, repr(seq[:j])) in bad for j in range(1, len(seq))):
                    continue  # a proper prefix already diverged (reported there); its extensions say nothing new
                k, vv = run_sequence(kind, backend, seq)
                n += k
                if vv:
                    bad.add((backend, repr(seq)))
                v += [(c, w, d, {"seq": list(seq)}) for c, w, d in vv]
            if len(seq) > 1:
                nontriv += 1
    seen = set()
    out = []
    for c, w, d, r in v:
        key = (c, repr(sorted(w.items())))
        if key not in seen:
            seen.add(key)
            out.append((c, w, d, r))
    return n, nontriv, out, {"kind": kind, "first": list(first_ops[0]), "sequences": seqs}, n * 2


RULE = ("every sequence of mutating store operations up to the stated length over {set(path, value) on 6 (dict) / 13 "
        "(typed) paths incl. list indices, missing intermediates, children of scalars and undeclared fields; set_state "
        "replace / parent-type merge / incompatible type; clear; 4 edit_state blocks; get_state()+mutate the snapshot's "
        "top-level key/field} x {InMemoryStateStore, SqliteStateStore on a real DB file} x {DictState, two-level typed "
        "model}; after every operation the full state dump and get() of 12-15 paths (with/without default) are compared "
        "with a nested-dict model; non-trivial = sequences of length >= 2")
from vmc.tables import _ROUND7 as _R7  # noqa: E402

RULE += _R7["C19"]



def run(tier: str, seed: int) -> Any:
    cases = []
    for kind in ("dict", "typed"):
        al = ops(kind, tier)
        depth = 3
        if tier == "quick":
            # full alphabet at depth 2; depth 3 over the structure-changing sub-alphabet
            sub = [o for o in al if o[0] != "set" or o[2 if kind == "dict" else 1] in (VALS[1], VALS[2], "meta.k.j", "nested.x", "extra.0", "count")]
            for o in al:
                cases.append((kind, [o], 2, al))
            for o in sub:
                cases.append((kind, [o], 3, sub))
        else:
            for o in al:
                cases.append((kind, [o], depth, al))
            sub = [o for o in al if o[0] != "set" or o[2 if kind == "dict" else 1] in (VALS[1], VALS[2], "meta.k.j", "nested.x", "extra.0", "count")]
            # depth 4 over at most 16 structure-changing operations (16^4 sequences per kind keep the tier within minutes)
            if len(sub) > 16:
                keep = [o for o in sub if o[0] != "set"]
                sets = [o for o in sub if o[0] == "set"]
                sub = keep + sets[: max(0, 16 - len(keep))]
            for o in sub:
                cases.append((kind, [o], 4, sub))
    try:
        return run_grid(PID, RULE, cases, work, seed=seed, chunksize=1, assumptions=[
            "paths name dict keys / list indices / declared fields only (no attribute names of containers, no numeric "
            "top-level DictState keys, no index into strings): outside that the nested-dict model is silent",
            "typed fields receive type-correct JSON values; edit_state blocks do not raise",
            "store operations never suspend when uncontended (concurrency is C20)"],
            extra={"ops_dict": len(ops("dict", tier)), "ops_typed": len(ops("typed", tier))})
    finally:
        if "dir" in _TMP:
            shutil.rmtree(_TMP["dir"], ignore_errors=True)


def replay(rec: dict[str, Any]) -> tuple[bool, str]:
    def tup(x: Any) -> Any:
        return tuple(x) if isinstance(x, list) and x and isinstance(x[0], str) else x

    seq = tuple(tup(o) for o in rec["seq"])
    kind = rec["case"][0]
    lines = []
    ok = True
    for backend in ("memory", "sqlite"):
        _, v = run_sequence(kind, backend, seq)
        for c, w, d in v:
            ok = False
            lines.append(f"VIOLATED {c} {w}: {d}")
    if "dir" in _TMP:
        shutil.rmtree(_TMP["dir"], ignore_errors=True)
    return ok, f"kind={kind} seq={seq}\n" + "\n".join(lines)

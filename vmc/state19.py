"""Module-level typed state models for C19/C20/C21 (importable by qualified name for the JSON serializer)."""
from typing import Any

from pydantic import BaseModel


class Inner(BaseModel):
    x: int = 0
    d: dict[str, Any] = {}


class Base(BaseModel):
    count: int = 0
    name: str = ""
    meta: dict[str, Any] = {}


class Child(Base):
    extra: list[Any] = []
    nested: Inner = Inner()


class Unrelated(BaseModel):
    q: int = 0

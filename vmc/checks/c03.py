"""C03 - queued work never stalls and idleness is reported only when truly idle."""
from __future__ import annotations

from typing import Any

from vmc.checks.common import replay_program, run_programs
from vmc.engine import gate, make_step, make_workflow
from vmc.events import A, B, Work
from vmc.progs import ENGINE_ASSUMPTIONS, Oracle, Spec, catalog, to_programs
from workflows.events import StartEvent, StopEvent, UnhandledEvent, WorkflowIdleEvent
from workflows.retry_policy import retry_policy, stop_after_attempt, wait_fixed
from workflows.runtime.types.ticks import TickAddEvent, TickStepResult

PID = "C03"


def kind(name: str) -> str:
    return name.rstrip("0123456789")


def on_quiescent(h: Any) -> None:
    """work conservation: while the run is live, a step with waiting events runs at its full limit"""
    if not h.runners or h.run_done():
        return
    r = h.runners[-1]
    if not r.state.is_running:
        return
    for name, ws in r.state.workers.items():
        if ws.queue and len(ws.in_progress) < ws.config.num_workers:
            h.violate("queued_work_with_free_capacity", {"step_kind": kind(name)},
                      f"step {name}: {len(ws.queue)} queued, {len(ws.in_progress)}/{ws.config.num_workers} running")
    # a worker slot is held only by an invocation that is really executing: every task is blocked now, so each in-progress
    # entry must have a live step body behind it (otherwise the step has lost capacity for good)
    for name, ws in r.state.workers.items():
        if name in h.live and len(ws.in_progress) > len(h.live[name]):
            h.violate("slot_held_by_no_running_invocation", {"step_kind": kind(name)},
                      f"step {name}: in_progress={[ip.worker_id for ip in ws.in_progress]} but only {len(h.live[name])} step bodies are executing; "
                      f"queued behind it: {len(ws.queue)}")
    # the run sleeps until its EARLIEST scheduled wake-up, not a later one: whatever the loop waits for (every task is
    # blocked now), one of its timers must come due no later than that wake-up (or right now, if it is already overdue)
    if r.scheduled_wakeups:
        earliest = min(at for at, _, _ in r.scheduled_wakeups) - h.loop.base_wall
        timers = h.loop.timer_deadlines()
        if not any(d <= max(earliest, h.loop.vt) + 1e-6 for d in timers):
            kinds = sorted({type(t).__name__ for _, _, t in r.scheduled_wakeups})
            h.violate("loop_sleeps_past_earliest_wakeup", {"wakeups": kinds, "n_scheduled": min(len(r.scheduled_wakeups), 3)},
                      f"earliest scheduled wake-up at +{earliest:.3f}s (of {[round(at - h.loop.base_wall, 3) for at, _, _ in r.scheduled_wakeups]}), "
                      f"but the loop's timers are {[round(d, 3) for d in timers]} (now +{h.loop.vt:.3f}s)")


def on_publish(h: Any, ev: Any, adapter: Any) -> None:
    is_idle_announcement = isinstance(ev, WorkflowIdleEvent) or (isinstance(ev, UnhandledEvent) and ev.idle)
    if not is_idle_announcement or not h.runners:
        return
    r = h.runners[-1]
    how = type(ev).__name__
    busy = []
    for name, ws in r.state.workers.items():
        if ws.queue:
            busy.append(("queued", name))
        if ws.in_progress:
            busy.append(("running", name))
    for _, _, t in r.scheduled_wakeups:
        if isinstance(t, TickAddEvent) and (t.attempts or 0) > 0:
            busy.append(("scheduled_retry", t.step_name))
    for t in r.tick_buffer:
        if isinstance(t, (TickAddEvent, TickStepResult)):
            busy.append(("delivered_unprocessed_in_tick_buffer", type(t).__name__))
    try:
        rq = adapter._decorated._queues.receive_queue
        for t in list(rq._queue):
            if isinstance(t, TickAddEvent):
                busy.append(("delivered_unprocessed_in_mailbox", "mailbox"))
    except AttributeError:
        pass
    if r.worker_tasks or r._pending_workers:
        busy.append(("running", "worker task"))
    h.idle_announcements = getattr(h, "idle_announcements", 0) + 1
    for cat in sorted({c for c, _ in busy}):
        h.violate("idle_announced_while_busy", {"how": how, "pending": cat},
                  f"{how} published while {sorted(b for b in set(busy) if b[0] == cat)}")


def on_tick(h: Any, tick: Any, adapter: Any) -> None:
    """a wake-up the loop scheduled itself (retry delay, waiter timeout, run timeout) is delivered when it is due:
    timers fire exactly on the virtual clock, so any lateness means the loop slept past due work"""
    import time as _t

    rec = h.scheduled_due.get(id(tick))
    if rec is None or rec[1] is not tick or h.spec.time_depth != 1 or h.spec.pair_time:
        return
    # a tick that kept the loop busy past the due time (busy_ticks programs) excuses exactly that much
    late = _t.time() - max(rec[0], getattr(h, "busy_until", 0.0))
    if late > 1e-6 and isinstance(tick, TickAddEvent):
        h.violate("scheduled_retry_delivered_late", {"step_kind": kind(tick.step_name or "")},
                  f"retry of {tick.step_name} was due at +{rec[0] - h.loop.base_wall:.3f}s but was delivered {late:.3f}s later: "
                  f"the loop slept past a due wake-up while the step had free capacity")


def observe(h: Any, e: Any, state: dict[str, Any]) -> Any:
    return {"idle_announcements": getattr(h, "idle_announcements", 0)}


def final(h: Any, e: Any, state: dict[str, Any]) -> None:
    """nothing is enabled any more (no gate, no timer, no client action), the run is still live, and a wake-up the run
    scheduled for itself was never delivered: the retry / timeout it stands for can never happen"""
    if not e.stuck or not h.runners or h.run_done():
        return
    r = h.runners[-1]
    if r.scheduled_wakeups and r.state.is_running:
        kinds = sorted({type(t).__name__ for _, _, t in r.scheduled_wakeups})
        h.violate("scheduled_wakeup_never_delivered", {"wakeups": kinds, "after_busy_tick": bool(getattr(h, "busy_until", 0.0))},
                  f"the run is live and quiescent for ever with wake-ups {kinds} still scheduled (due "
                  f"{[round(at - h.loop.base_wall, 3) for at, _, _ in r.scheduled_wakeups]}, now +{h.loop.vt:.3f}s); trace {h.trace[-12:]}")


ORACLE = Oracle(on_quiescent=on_quiescent, on_publish=on_publish, on_tick=on_tick, final=final, observe=observe)


def wf_return_then_idle() -> type:
    """start returns its event (no send_event): idle must not be announced while the next step is due"""

    async def start(self, ctx, ev, inv):  # noqa: ANN001
        await gate("s")
        return A(uid=1)

    async def a(self, ctx, ev, inv):  # noqa: ANN001
        await gate("a")
        return StopEvent(result="ok")

    return make_workflow("Ret", [make_step("start", [StartEvent], [A], start), make_step("a", [A], [StopEvent], a)])


def wf_retry_unhandled() -> type:
    """a step fails and waits for a delayed retry while an unhandled event arrives"""

    async def start(self, ctx, ev, inv):  # noqa: ANN001
        await gate(f"s{inv.retry.retry_number}")
        if inv.retry.retry_number == 0:
            raise RuntimeError("boom")
        return StopEvent(result="ok")

    return make_workflow("RetryUnh", [
        make_step("start", [StartEvent], [StopEvent], start,
                  retry_policy=retry_policy(wait=wait_fixed(2), stop=stop_after_attempt(3)))])


def _unh_script(state: dict[str, Any]) -> Any:
    from vmc.engine import Action

    return [[Action("send B (unhandled)", lambda: state["hd"].ctx.send_event(B(uid=5)))]]


def specs(tier: str) -> list[Spec]:
    sp = [s for s in catalog(tier)]
    sp.append(Spec("return_then_idle", {}, wf_return_then_idle, tags=("idle",)))
    sp.append(Spec("retry_unhandled", {}, wf_retry_unhandled, scripts=_unh_script, tags=("idle", "retry")))
    # the loop is kept busy (slow tick) until after the next wake-up it has scheduled for itself
    from dataclasses import replace

    q = tier == "quick"
    for s in list(sp):
        if s.name in ("fan_retry(k=2,w=1,delay)", "fan_retry(k=2,w=2,delay)", "wait_timeout(w=2)", "retry_unhandled",
                      "fan_retry_stagger_timeout(k=2,w=2)") or (not q and "delay" in s.tags and not s.resume):
            sp.append(replace(s, name=s.name + "/busy_tick", busy_ticks=1, params={**s.params, "busy_ticks": 1},
                              max_dev=(s.max_dev if s.max_dev is not None else (3 if q else 5))))
    return sp


RULE = ("all schedules (gate releases, external sends, timer firings) of the engine catalog plus idle-specific "
        "programs; at the instant an idle announcement is written to the stream the runner's queues, in-progress "
        "sets, pending-retry heap, tick buffer and mailbox are inspected; work conservation is checked in every "
        "quiescent live state; every retry wake-up is delivered at the virtual instant it was scheduled for (or, in the busy_tick programs where one tick keeps "
        "the loop busy past the next scheduled wake-up, as soon as the loop is free again) and no live run ends up quiescent with an undelivered wake-up; in every quiescent live state each in-progress slot has a "
        "live step body behind it and the loop is armed for the earliest scheduled wake-up; non-trivial = at least one deviation from the default schedule")


def programs(tier: str) -> list[Any]:
    return to_programs(specs(tier), ORACLE)


def run(tier: str, seed: int) -> Any:
    return run_programs(PID, programs(tier), RULE, seed, assumptions=ENGINE_ASSUMPTIONS)


def replay(rec: dict[str, Any]) -> tuple[bool, str]:
    return replay_program(programs("thorough"), rec)

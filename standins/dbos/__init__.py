"""Stand-in for the dbos library (absent).  Only what llama_agents.dbos.idle_release touches has behaviour, bound to
the in-process runtime that stands in for DBOSRuntime in the checks:

* ``DBOS.retrieve_workflow_async(run_id)`` -> handle whose ``get_result()`` awaits the previous in-process run of
  that id (registered by the harness through ``DBOS._register_run``);
* ``DBOS.delete_workflow_async(run_id)`` -> forgets that run.

Everything else is an identity decorator / a name, imported but never exercised.
"""
from __future__ import annotations

from typing import Any, Awaitable, Callable


class _Handle:
    def __init__(self, waiter: Callable[[], Awaitable[Any]] | None) -> None:
        self._waiter = waiter

    async def get_result(self) -> Any:
        if self._waiter is None:
            return None
        return await self._waiter()

    def get_workflow_id(self) -> str:
        return ""


class DBOS:
    _runs: dict[str, Callable[[], Awaitable[Any]]] = {}
    deleted: list[str] = []

    @classmethod
    def _register_run(cls, run_id: str, waiter: Callable[[], Awaitable[Any]]) -> None:
        cls._runs[run_id] = waiter

    @classmethod
    def _reset(cls) -> None:
        cls._runs = {}
        cls.deleted = []

    @classmethod
    async def retrieve_workflow_async(cls, run_id: str, *a: Any, **kw: Any) -> _Handle:
        return _Handle(cls._runs.get(run_id))

    @classmethod
    async def delete_workflow_async(cls, run_id: str, *a: Any, **kw: Any) -> None:
        cls.deleted.append(run_id)
        cls._runs.pop(run_id, None)

    @staticmethod
    def step(*a: Any, **kw: Any) -> Any:
        return (lambda f: f) if not (a and callable(a[0])) else a[0]

    @staticmethod
    def workflow(*a: Any, **kw: Any) -> Any:
        return (lambda f: f) if not (a and callable(a[0])) else a[0]


class SetWorkflowID:
    def __init__(self, *a: Any, **kw: Any) -> None:
        pass

    def __enter__(self) -> "SetWorkflowID":
        return self

    def __exit__(self, *a: Any) -> None:
        pass


class WorkflowHandleAsync:  # pragma: no cover
    pass


class DBOSConfig(dict):  # pragma: no cover
    pass

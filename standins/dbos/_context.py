def get_local_dbos_context():
    return None

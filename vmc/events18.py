"""Module-level classes for C18 (importable by qualified name)."""
from vmc import bootstrap

bootstrap.setup()

from typing import Any, Optional  # noqa: E402

from pydantic import BaseModel, Field  # noqa: E402
from workflows.events import Event, HumanResponseEvent, InputRequiredEvent, StartEvent, StopEvent  # noqa: E402


class Inner(BaseModel):
    x: int = 0
    tags: list[str] = []


class Typed(Event):
    i: int
    s: str = ""
    o: Optional[int] = None
    f: float = 0.0
    flag: bool = False


class Nested(Event):
    inner: Inner
    nums: list[int] = []
    m: dict[str, int] = {}
    anyv: Any = None


class TStart(StartEvent):
    topic: str = ""
    n: Optional[int] = None


class UploadStart(StartEvent):
    """a start event with a field that happens to be called like an envelope key"""
    type: str = "pdf"
    topic: str = ""


class RoutedStart(StartEvent):
    qualified_name: str = "pkg.Thing"
    n: int = 0


class TStop(StopEvent):
    a: int = 0
    note: Optional[str] = None


class TStopNested(StopEvent):
    inner: Inner
    anyv: Any = None


class TAsk(InputRequiredEvent):
    prefix: str = ""


class TAnswer(HumanResponseEvent):
    response: str = ""


SEQ = {"n": 0}


def next_seq() -> int:
    SEQ["n"] += 1
    return SEQ["n"]


class Stamped(Event):
    """typed fields that callers usually leave to their defaults: a counter-like default_factory and a mutable default
    that is filled in place after construction"""
    seq: int = Field(default_factory=next_seq)
    tags: list[str] = Field(default_factory=list)
    note: str = "n/a"


class StampedStop(StopEvent):
    seq: int = Field(default_factory=next_seq)
    tags: list[str] = Field(default_factory=list)


class CustomErr(Exception):
    pass


class CustomValueErr(ValueError):
    pass


class CustomKeyErr(KeyError):
    """a KeyError subclass: str() of the KeyError family is repr(key), which the loader has a special path for"""


class CustomLookupErr(LookupError):
    pass

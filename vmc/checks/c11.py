"""C11 - replaying the recorded tick log reproduces the live run state."""
from __future__ import annotations

import json
from typing import Any

from vmc.checks.common import replay_program, run_programs
from vmc.engine import ev_repr
from vmc.progs import ENGINE_ASSUMPTIONS, Oracle, catalog, continue_specs, to_programs

PID = "C11"


def _ev(e: Any) -> Any:
    return None if e is None else (ev_repr(e), id(e))


def canon(state: Any) -> Any:
    out: dict[str, Any] = {"is_running": state.is_running}
    for name, ws in sorted(state.workers.items()):
        out[name] = {
            "queue": [(_ev(a.event), a.attempts or 0, sorted(a.recovery_counts.items()),
                       repr(a.last_exception)) for a in ws.queue],
            "in_progress": sorted(
                (ip.worker_id, _ev(ip.event), ip.attempts, sorted(ip.recovery_counts.items()),
                 repr(ip.last_exception),
                 sorted((k, [_ev(x) for x in v]) for k, v in ip.shared_state.collected_events.items()),
                 sorted((w.waiter_id, _ev(w.resolved_event), bool(getattr(w, "timed_out", False)))
                        for w in ip.shared_state.collected_waiters))
                for ip in ws.in_progress),
            "collected_events": sorted((k, [_ev(x) for x in v]) for k, v in ws.collected_events.items()),
            "waiters": sorted(
                (w.waiter_id, _ev(w.event), w.waiting_for_event.__name__, sorted(w.requirements.items()),
                 w.has_requirements, _ev(w.resolved_event), bool(getattr(w, "timed_out", False)))
                for w in ws.collected_waiters),
        }
    return out


def on_quiescent(h: Any) -> None:
    if not h.runners:
        return
    st = h.state
    hd = st["hd"]
    r = h.runners[-1]
    if h.run_done():
        return
    if getattr(r, "_c11_run_id", None) is None:
        r._c11_run_id = r.adapter.run_id
    if r.adapter.run_id != hd.run_id:
        return  # runner of the aborted original run
    live = canon(r.state)
    try:
        rebuilt_state = hd.ctx._face._state
    except Exception as e:  # noqa: BLE001
        h.violate("rebuild_raises", {"exc": type(e).__name__}, f"rebuild_state_from_ticks raised {e!r}")
        return
    rebuilt = canon(rebuilt_state)
    if live != rebuilt:
        diff = [k for k in live if live[k] != rebuilt.get(k)]
        fields = sorted({f for k in diff if isinstance(live[k], dict) for f in live[k] if live[k][f] != rebuilt[k][f]})
        h.violate("live_state_differs_from_replay", {"fields": fields or diff},
                  f"steps {diff}: live={json.dumps({k: live[k] for k in diff}, default=repr)[:600]} "
                  f"rebuilt={json.dumps({k: rebuilt.get(k) for k in diff}, default=repr)[:600]}")
    # running_steps() / to_dict() describe the actual run
    want_running = sorted(n for n, ws in r.state.workers.items() if ws.in_progress)
    got_running = sorted(n for n, ws in rebuilt_state.workers.items() if ws.in_progress)
    if want_running != got_running:
        h.violate("running_steps_wrong", {}, f"running_steps={got_running} live={want_running}")
    try:
        d = hd.ctx.to_dict()
        for name, ws in r.state.workers.items():
            sw = d["workers"][name]
            # pending work may be serialized as queued or as in-progress entries: compare the total
            if len(sw["queue"]) + len(sw["in_progress"]) != len(ws.queue) + len(ws.in_progress) \
                    or len(sw["collected_waiters"]) != len(ws.collected_waiters) \
                    or {k: len(v) for k, v in sw["collected_events"].items()} != {k: len(v) for k, v in ws.collected_events.items()}:
                h.violate("to_dict_differs_from_live", {"step_kind": name.rstrip("0123456789")},
                          f"to_dict()[{name}] sizes differ from the live state")
        if d["is_running"] != r.state.is_running:
            h.violate("to_dict_differs_from_live", {"field": "is_running"}, "is_running differs")
    except Exception as e:  # noqa: BLE001
        h.violate("to_dict_raises", {"exc": type(e).__name__}, f"ctx.to_dict() raised {e!r}")
    h.c11_checked = getattr(h, "c11_checked", 0) + 1


def observe(h: Any, e: Any, state: dict[str, Any]) -> Any:
    return {"states_compared": getattr(h, "c11_checked", 0)}


ORACLE = Oracle(on_quiescent=on_quiescent, observe=observe)


def wf_worker_goes_away(w: int) -> type:
    """one invocation of ``work`` ends with CancelledError although nobody cancelled the run (it awaited something
    that was cancelled): its worker task goes away without a result tick, while the rest of the run goes on"""
    import asyncio

    from vmc.engine import gate, make_step, make_workflow
    from vmc.events import Done, Work
    from workflows.events import StartEvent, StopEvent

    async def start(self, ctx, ev, inv):  # noqa: ANN001
        for i in range(3):
            ctx.send_event(Work(uid=i))
        await gate("start")
        return StopEvent(result="done")

    async def work(self, ctx, ev, inv):  # noqa: ANN001
        await gate(f"w{ev.uid}")
        if ev.uid == 0:
            f = asyncio.get_running_loop().create_future()
            f.cancel()
            await f
        return Done(uid=ev.uid)

    async def fin(self, ctx, ev, inv):  # noqa: ANN001
        r = ctx.collect_events(ev, [Done] * 3)  # never complete: Work0 produces nothing
        return None if r is None else StopEvent(result="all")

    return make_workflow("WorkerGoesAway", [
        make_step("start", [StartEvent], [Work, StopEvent], start),
        make_step("work", [Work], [Done], work, num_workers=w),
        make_step("fin", [Done], [StopEvent, None], fin, num_workers=1),
    ])


def extra_specs(tier: str) -> list[Any]:
    from vmc.progs import Spec

    q = tier == "quick"
    return [Spec("worker_goes_away(w=1)", {}, lambda: wf_worker_goes_away(1), max_dev=(3 if q else None), tags=("cancelled_worker",)),
            Spec("worker_goes_away(w=2)", {}, lambda: wf_worker_goes_away(2), max_dev=(3 if q else 6), tags=("cancelled_worker",))]

RULE = ("all schedules of the shared engine program catalog incl. resumed runs and runs continued from the context of a "
        "run that ended with work left over (running / queued invocations, partial collections, a registered waiter), plus a run one of "
        "whose worker tasks ends with CancelledError while the run goes on; at every quiescent point of every "
        "execution canon(live runner state) is compared with canon(rebuild_state_from_ticks(init_state, recorded "
        "ticks)) (timestamps masked) and with ctx.to_dict(); non-trivial = at least one deviation from the default "
        "schedule")
from vmc.tables import _ROUND7 as _R7  # noqa: E402

RULE += _R7["C11"]



def programs(tier: str) -> list[Any]:
    return to_programs(catalog(tier) + continue_specs(tier) + extra_specs(tier), ORACLE)


def run(tier: str, seed: int) -> Any:
    return run_programs(PID, programs(tier), RULE, seed, assumptions=ENGINE_ASSUMPTIONS)


def replay(rec: dict[str, Any]) -> tuple[bool, str]:
    return replay_program(programs("thorough"), rec)

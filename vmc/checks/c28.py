"""C28 - SQLite schema migrations converge from any earlier schema.

Every starting schema {fresh, schema_migrations recorded up to version k (k = 1..N), legacy PRAGMA user_version = k
without the bookkeeping table} x 1..3 consecutive run_migrations() calls x {caller commits afterwards, caller just
closes the connection} x {one connection reused, a new connection per run} is executed on real DB files with the
repository's own migration files; the normalized sqlite_master / table_info and the schema_migrations rows after
every run are compared with the result of migrating a fresh database.
"""
from __future__ import annotations

import itertools
import os
import re
import shutil
import sqlite3
import tempfile
from typing import Any

from vmc import bootstrap

bootstrap.setup(("llama_agents.server", "llama_agents.dbos"))

import logging  # noqa: E402

logging.getLogger("llama_agents").setLevel(logging.CRITICAL)

from vmc.checks.grid import run_grid  # noqa: E402
from llama_agents.server._store.migration_utils import iter_migration_files, parse_target_version  # noqa: E402
from llama_agents.server._store.sqlite import migrate as M  # noqa: E402

PID = "C28"


def migration_files() -> list[tuple[int, str]]:
    out = []
    for p in iter_migration_files(M._MIGRATIONS_PKG):
        text = p.read_text()
        out.append((parse_target_version(text) or 0, text))
    return out


def released_files() -> list[tuple[int, str]]:
    """the migration files as RELEASED (frozen copies under vmc/data/released_migrations, taken from the pinned tree): databases in
    the field were created by these, whatever the files in the tree say today - an already-applied migration is never re-read"""
    d = os.path.join(os.path.dirname(os.path.dirname(os.path.abspath(__file__))), "data", "released_migrations", "server")
    out = []
    for name in sorted(os.listdir(d)):
        if name.endswith(".sql"):
            text = open(os.path.join(d, name)).read()
            out.append((parse_target_version(text) or 0, text))
    return out


def released_bookkeeping_ddl() -> str:
    """the schema_migrations table as RELEASED code created it (frozen copy): a database in the field keeps that table as it was
    created - ``CREATE TABLE IF NOT EXISTS`` never changes it - whatever the DDL constant in the tree says today"""
    d = os.path.join(os.path.dirname(os.path.dirname(os.path.abspath(__file__))), "data", "released_migrations")
    return open(os.path.join(d, "schema_migrations.sql")).read()


def schema(conn: sqlite3.Connection) -> dict[str, Any]:
    rows = conn.execute("SELECT type, name, tbl_name, sql FROM sqlite_master WHERE name NOT LIKE 'sqlite_%' ORDER BY type, name").fetchall()
    norm = [(t, n, tb, re.sub(r"\s+", " ", s or "").strip()) for t, n, tb, s in rows]
    cols = {}
    for t, n, tb, s in rows:
        if t == "table":
            cols[n] = [tuple(r[1:]) for r in conn.execute(f"PRAGMA table_info({n})").fetchall()]
    return {"master": norm, "columns": cols}


def versions(conn: sqlite3.Connection) -> list[tuple[str, int]]:
    try:
        return sorted(conn.execute("SELECT package, version FROM schema_migrations").fetchall())
    except sqlite3.OperationalError:
        return [("<no table>", -1)]


def build_start(path: str, start: tuple[str, int]) -> None:
    kind, k = start
    conn = sqlite3.connect(path)
    # an earlier release built this database: from the files as they were released (for versions newer than the frozen set,
    # from the tree's files)
    rel = dict(released_files())
    files = [(ver, rel.get(ver, text)) for ver, text in migration_files()]
    if kind == "fresh":
        conn.close()
        return
    for ver, text in files:
        if ver <= k:
            conn.executescript(text)
    if kind == "prefix":
        conn.executescript(released_bookkeeping_ddl())
        for ver, _ in files:
            if ver <= k:
                conn.execute("INSERT INTO schema_migrations (package, version) VALUES ('server', ?)", (ver,))
    else:  # legacy: the old runner recorded its progress in PRAGMA user_version
        conn.execute(f"PRAGMA user_version = {k}")
    # some data that must survive
    conn.execute("INSERT INTO handlers (handler_id, workflow_name, status) VALUES ('h1', 'wf', 'running')")
    conn.commit()
    conn.close()


_REF: dict[str, Any] = {}


def reference(d: str) -> tuple[Any, Any]:
    if "ref" not in _REF:
        p = os.path.join(d, "ref.db")
        c = sqlite3.connect(p)
        M.run_migrations(c)
        c.commit()
        _REF["ref"] = (schema(c), versions(c))
        c.close()
    return _REF["ref"]


SCHEMA_ACTIONS = {getattr(sqlite3, n) for n in dir(sqlite3) if n.startswith(("SQLITE_CREATE_", "SQLITE_DROP_", "SQLITE_ALTER_"))}


def prefix_states(d: str) -> list[tuple[Any, Any]]:
    """(schema, versions) of a database at version k = 0..N with the bookkeeping table: the states a migrator that
    applies each migration atomically can leave behind"""
    if "prefix" not in _REF:
        out = []
        files = migration_files()
        for k in range(0, len(files) + 1):
            p = os.path.join(d, f"prefix{k}.db")
            c = sqlite3.connect(p)
            c.executescript(released_bookkeeping_ddl())
            for ver, text in files:
                if ver <= k:
                    c.executescript(text)
                    c.execute("INSERT INTO schema_migrations (package, version) VALUES ('server', ?)", (ver,))
            c.commit()
            out.append((schema(c), versions(c)))
            c.close()
        _REF["prefix"] = out
    return _REF["prefix"]


def work_fault(case: Any) -> Any:
    """run_migrations with the f-th schema-changing operation refused (disk full / I/O error / lock at that statement):
    the file must be left at a version boundary, and the next run must converge"""
    start, _tag, fault_at = case
    d = tempfile.mkdtemp(prefix="vmc-c28f-")
    v: list[Any] = []
    reached = False
    try:
        ref_schema, ref_versions = reference(d)
        allowed = prefix_states(d)
        path = os.path.join(d, "t.db")
        build_start(path, tuple(start))
        oc = sqlite3.connect(path)
        before = (schema(oc), versions(oc))
        oc.close()
        bookkeeping = _tag == "fault_bookkeeping"  # the fault hits the f-th write of a version row instead (lock taken by another writer, disk full)
        w = {"start": start[0], "fault": "version_row_write_refused" if bookkeeping else "schema_operation_refused"}
        desc = f"start={start} fault at " + (f"version-row write #{fault_at}" if bookkeeping else f"schema operation #{fault_at}")
        conn = sqlite3.connect(path)
        seen = {"n": 0}

        def authorizer(action: int, a1: Any, a2: Any, db: Any, src: Any) -> int:
            hit = (action == sqlite3.SQLITE_INSERT and a1 == "schema_migrations") if bookkeeping else (action in SCHEMA_ACTIONS)
            if hit:
                seen["n"] += 1
                if seen["n"] == fault_at:
                    return sqlite3.SQLITE_DENY
            return sqlite3.SQLITE_OK

        conn.set_authorizer(authorizer)
        try:
            M.run_migrations(conn)
        except Exception:  # noqa: BLE001  (expected: the refused statement surfaces)
            reached = True
        if seen["n"] >= fault_at:
            reached = True
        try:
            conn.close()  # the process gives up here: no commit by the caller
        except Exception:  # noqa: BLE001
            pass
        if not reached:
            return 1, 0, [], None, 1
        oc = sqlite3.connect(path)
        got = (schema(oc), versions(oc))
        oc.close()
        if got != before and got not in allowed:
            cols = {k: [c[0] for c in cs] for k, cs in got[0]["columns"].items()}
            v.append(("interrupted_migration_leaves_partial_schema", w,
                      f"{desc}: schema is at no version boundary: recorded versions {got[1]}, columns {cols}"))
        # the next start of the server runs the migrations again
        for i in range(2):
            c2 = sqlite3.connect(path)
            try:
                M.run_migrations(c2)
                c2.commit()
            except Exception as e:  # noqa: BLE001
                v.append(("no_convergence_after_interrupted_migration", w, f"{desc}: run {i + 1} after the fault raised {type(e).__name__}: {e}"))
                c2.close()
                break
            c2.close()
            oc = sqlite3.connect(path)
            got2 = (schema(oc), versions(oc))
            n_rows = oc.execute("SELECT COUNT(*) FROM handlers").fetchone()[0]
            oc.close()
            if got2[0] != ref_schema or got2[1] != ref_versions:
                v.append(("no_convergence_after_interrupted_migration", w,
                          f"{desc}: run {i + 1} after the fault: versions {got2[1]} (expected {ref_versions}), schema equal to fresh: {got2[0] == ref_schema}"))
                break
            if start[0] != "fresh" and n_rows != 1:
                v.append(("data_lost", w, f"{desc}: handlers rows {n_rows}"))
                break
    finally:
        shutil.rmtree(d, ignore_errors=True)
        _REF.pop("ref", None)
        _REF.pop("prefix", None)
    return 1, 1, [(c, w, dd, None) for c, w, dd in v], None, 3


FULL_SOURCES = [("server", M._MIGRATIONS_PKG), ("dbos", "llama_agents.dbos._store.sqlite.migrations")]


def work_multi(case: Any) -> Any:
    """the DBOS runtime migrates with two sources, [server, dbos], on databases that a server-only deployment (or an older
    version) has already brought to some server version"""
    start, _tag, server_only_first = case
    sources = FULL_SOURCES if _tag == "multi" else list(reversed(FULL_SOURCES))  # "multi_rev": the other package listed first
    d = tempfile.mkdtemp(prefix="vmc-c28m-")
    v: list[Any] = []
    try:
        rp = os.path.join(d, "refm.db")
        c = sqlite3.connect(rp)
        M.run_migrations(c, sources=sources)
        c.commit()
        ref = (schema(c), versions(c))
        c.close()
        path = os.path.join(d, "t.db")
        build_start(path, tuple(start))
        w = {"start": start[0], "sources": "server+dbos" if _tag == "multi" else "dbos+server", "server_only_run_first": server_only_first}
        desc = f"start={start} sources={[n for n, _ in sources]} server-only run first={server_only_first}"
        if server_only_first:
            c = sqlite3.connect(path)
            try:
                M.run_migrations(c)
                c.commit()
            except Exception as e:  # noqa: BLE001
                v.append(("migration_run_fails", {**w, "run": "server_only_first"}, f"{desc}: the server-only run raised {type(e).__name__}: {e}"))
                c.close()
                return 1, 1, [(c_, w_, dd, None) for c_, w_, dd in v], None, 2
            c.close()
        prev = None
        for i in range(2):
            c = sqlite3.connect(path)
            try:
                M.run_migrations(c, sources=sources)
                c.commit()
            except Exception as e:  # noqa: BLE001
                v.append(("migration_run_fails", {**w, "run": "first" if i == 0 else "repeat"}, f"{desc}: run {i + 1} raised {type(e).__name__}: {e}"))
                c.close()
                break
            c.close()
            oc = sqlite3.connect(path)
            got = (schema(oc), versions(oc))
            oc.close()
            if got[0] != ref[0]:
                missing = [x[1] for x in ref[0]["master"] if x not in got[0]["master"]]
                v.append(("final_schema_differs_from_fresh", w, f"{desc}: after run {i + 1} missing {missing[:6]}"))
                break
            if got[1] != ref[1]:
                v.append(("versions_not_recorded_once", {**w, "run": "first" if i == 0 else "repeat"},
                          f"{desc}: after run {i + 1} schema_migrations holds {got[1]}, expected {ref[1]}"))
                break
            if prev is not None and got != prev:
                v.append(("repeat_run_changes_something", w, f"{desc}: run {i + 1} changed the database"))
                break
            prev = got
    finally:
        shutil.rmtree(d, ignore_errors=True)
    return 1, 1, [(c_, w_, dd, None) for c_, w_, dd in v], None, 2


def work(case: Any) -> Any:
    if len(case) == 3 and case[1] in ("multi", "multi_rev"):
        return work_multi(case)
    if len(case) == 3:
        return work_fault(case)
    start, runs, commit, reuse = case
    d = tempfile.mkdtemp(prefix="vmc-c28-")
    v: list[Any] = []
    try:
        ref_schema, ref_versions = reference(d)
        path = os.path.join(d, "t.db")
        build_start(path, tuple(start))
        w = {"start": start[0], "at_latest": start[1] == len(migration_files()), "caller_commits": commit, "connection_reused": reuse}
        desc = f"start={start} runs={runs} commit={commit} reuse={reuse}"
        conn = None
        prev = None
        for i in range(runs):
            if conn is None:
                conn = sqlite3.connect(path)
            try:
                M.run_migrations(conn)
            except Exception as e:  # noqa: BLE001
                v.append(("migration_run_fails", {**w, "run": "first" if i == 0 else "repeat"}, f"{desc}: run {i + 1} raised {type(e).__name__}: {e}"))
                try:
                    conn.close()
                except Exception:  # noqa: BLE001
                    pass
                conn = None
                break
            if commit:
                conn.commit()
            if not reuse:
                conn.close()
                conn = None
            # observe through a separate connection = what is durably on disk (and visible to other connections)
            oc = sqlite3.connect(path)
            got = (schema(oc), versions(oc))
            n_rows = oc.execute("SELECT COUNT(*) FROM handlers").fetchone()[0]
            oc.close()
            if got[0] != ref_schema:
                diff = [x for x in got[0]["master"] if x not in ref_schema["master"]] + [("missing",) + x for x in ref_schema["master"] if x not in got[0]["master"]]
                v.append(("final_schema_differs_from_fresh", w, f"{desc}: after run {i + 1} schema differs: {diff[:4]} columns={ {k: [c[0] for c in cs] for k, cs in got[0]['columns'].items()} }"))
                break
            if got[1] != ref_versions:
                v.append(("versions_not_recorded_once", {**w, "run": "first" if i == 0 else "repeat"},
                          f"{desc}: after run {i + 1} schema_migrations holds {got[1]}, expected {ref_versions}"))
                break
            if start[0] != "fresh" and n_rows != 1:
                v.append(("data_lost", w, f"{desc}: handlers rows {n_rows}"))
                break
            if prev is not None and got != prev:
                v.append(("repeat_run_changes_something", w, f"{desc}: run {i + 1} changed the database"))
                break
            prev = got
        if conn is not None:
            conn.close()
    finally:
        shutil.rmtree(d, ignore_errors=True)
        _REF.pop("ref", None)
    return 1, (1 if runs > 1 or start[0] != "fresh" else 0), [(c, w, dd, None) for c, w, dd in v], ({"case": list(case)} if start[0] == "legacy" else None), runs


RULE = ("every starting schema {fresh; schema_migrations recorded up to k = 1..N; legacy PRAGMA user_version = k without the bookkeeping "
        "table} x 1..3 consecutive run_migrations() calls x {caller commits / only closes} x {connection reused / new connection per run} "
        "on real DB files with the repository's migration files; normalized sqlite_master + table_info, schema_migrations rows and a "
"pre-existing data row, observed through a separate connection after every run, compared with a freshly migrated database; "
        "plus, for every starting schema, one run in which the f-th schema-changing operation is refused by an SQLite "
        "authorizer (f = 1 .. number of such operations in a fresh run + 1): the abandoned file must sit at a version boundary and the following runs must converge; "
        "plus every starting schema migrated with the two sources [server, dbos] and [dbos, server] (directly, and after a server-only run); "
        "non-trivial = non-fresh start or repeated run")
from vmc.tables import _ROUND6 as _R6  # noqa: E402

RULE += _R6["C28"]
from vmc.tables import _ROUND7 as _R7  # noqa: E402

RULE += _R7["C28"]



def _schema_ops_of_fresh_run() -> int:
    d = tempfile.mkdtemp(prefix="vmc-c28n-")
    try:
        c = sqlite3.connect(os.path.join(d, "n.db"))
        n = {"n": 0}

        def a(action: int, *rest: Any) -> int:
            if action in SCHEMA_ACTIONS:
                n["n"] += 1
            return sqlite3.SQLITE_OK

        c.set_authorizer(a)
        M.run_migrations(c)
        c.close()
        return n["n"]
    finally:
        shutil.rmtree(d, ignore_errors=True)


def run(tier: str, seed: int) -> Any:
    n = len(migration_files())
    starts = [("fresh", 0)] + [("prefix", k) for k in range(1, n + 1)] + [("legacy", k) for k in range(1, n + 1)]
    cases: list[Any] = [(s, r, c, u) for s in starts for r in (1, 2, 3) for c in (True, False) for u in (True, False)]
    # fault injection: every schema-changing operation of every starting point refused once (positions beyond the last
    # operation of a run are vacuous and counted as trivial)
    cases += [(s, "fault", f) for s in starts for f in range(1, _schema_ops_of_fresh_run() + 2)]
    # ... and every write of a version row refused once (the statement between a migration's schema changes and its being recorded)
    cases += [(s, "fault_bookkeeping", f) for s in starts for f in range(1, 6)]
    # two migration sources (what the DBOS runtime passes), also after a server-only run brought the server part up to date
    cases += [(s, tag, first) for s in starts for first in (False, True) for tag in ("multi", "multi_rev")]
    return run_grid(PID, RULE, cases, work, seed=seed, chunksize=2, assumptions=[
        "an 'earlier schema' is what the repository's own migration files produce up to version k (with or without the bookkeeping table)",
        "single process, no concurrent migrator"], extra={"migrations": n, "starts": len(starts)})


def replay(rec: dict[str, Any]) -> tuple[bool, str]:
    c = rec["case"]
    _, _, v, _, _ = work((tuple(c[0]), c[1], c[2], c[3]) if len(c) == 4 else (tuple(c[0]), c[1], c[2]))
    return (not v), f"case={c}\n" + "\n".join(f"VIOLATED {cl} {w}: {d}" for cl, w, d, _ in v)

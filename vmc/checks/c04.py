"""C04 - every run ends once, and its stream ends with the matching terminal event."""
from __future__ import annotations

from typing import Any

from vmc.checks.common import replay_program, run_programs
from vmc.engine import Action, gate, make_step, make_workflow, stream_repr, task_outcome
from vmc.events import A, Done, MyStop, Prog, Work
from vmc.progs import ENGINE_ASSUMPTIONS, Oracle, Spec, resp_scripts, to_programs, wf_chain, wf_collect, wf_early_stop, wf_fan, wf_wait
from workflows import catch_error
from workflows.errors import WorkflowCancelledByUser, WorkflowTimeoutError
from workflows.events import (
    StartEvent, StepFailedEvent, StopEvent, WorkflowCancelledEvent, WorkflowFailedEvent,
    WorkflowTimedOutEvent,
)
from workflows.retry_policy import retry_if_exception, retry_policy, stop_after_attempt, wait_fixed

PID = "C04"

TERMINAL_OTHER = (WorkflowFailedEvent, WorkflowCancelledEvent, WorkflowTimedOutEvent)


def final(h: Any, e: Any, state: dict[str, Any]) -> None:
    hd = state["hd"]
    prog = h.spec.params.get("cause", h.spec.name)
    run_task = hd._external_adapter._queues.complete
    out = task_outcome(run_task)
    w = {"cause": prog}
    if out[0] == "pending":
        if e.stuck:
            h.violate("run_never_finishes", w, f"no enabled action but the run task is still pending ({h.trace})")
        return
    # --- exactly one outcome
    if out[0] == "result":
        kind = "result"
    elif out[0] == "cancelled":
        kind = "task_cancelled"
    elif isinstance(out[1], WorkflowCancelledByUser):
        kind = "cancelled"
    elif isinstance(out[1], WorkflowTimeoutError):
        kind = "timeout"
    else:
        kind = "failure"
    # (a resumed / continued run is judged on what it published itself)
    marks = getattr(h, "restart_marks", [])
    pub = h.published[marks[-1]:] if marks else h.published
    terminals = [ev for ev in pub if isinstance(ev, StopEvent)]
    after = []
    seen_terminal = False
    for ev in pub:
        if seen_terminal:
            after.append(ev)
        if isinstance(ev, StopEvent):
            seen_terminal = True
    exc_name = type(out[1]).__name__ if out[0] == "exception" else None
    if kind == "task_cancelled":
        h.violate("run_task_cancelled", w, "the run task ended cancelled (no outcome)")
        return
    want = {"result": StopEvent, "cancelled": WorkflowCancelledEvent, "timeout": WorkflowTimedOutEvent,
            "failure": WorkflowFailedEvent}[kind]
    if len(terminals) != 1:
        h.violate("terminal_event_count", {**w, "outcome": kind, "n": len(terminals), "exc": exc_name},
                  f"outcome {kind} ({out[1]!r}) but {len(terminals)} terminal events published: "
                  f"{stream_repr(pub, False)}")
    else:
        t = terminals[0]
        ok = isinstance(t, want) and (kind != "result" or not isinstance(t, TERMINAL_OTHER))
        if kind == "result" and t is not out[1]:
            ok = False
        if not ok:
            h.violate("terminal_event_mismatch", {**w, "outcome": kind, "terminal": type(t).__name__},
                      f"outcome {kind} ({out[1]!r}) but terminal event {type(t).__name__}")
    if after:
        h.violate("published_after_terminal", {**w, "outcome": kind},
                  f"events published after the terminal event: {stream_repr(after)}")
    # --- the consumer of stream_events() terminates when the run does
    if not h.stream_done:
        h.violate("stream_never_terminates", {**w, "outcome": kind, "exc": exc_name},
                  f"run ended ({kind}: {out[1]!r}) but stream_events() is still blocked; stream so far "
                  f"{stream_repr(h.stream, False)}")
    else:
        if h.stream_error is not None:
            h.violate("stream_raises", {**w, "outcome": kind}, f"stream_events() raised {h.stream_error!r}")
        if h.stream and not isinstance(h.stream[-1], StopEvent):
            h.violate("stream_last_not_terminal", {**w, "outcome": kind}, "stream ended without a terminal event")
        # what the consumer received is exactly what this run published, in order (nothing of another run, nothing missing)
        if [id(x) for x in h.stream] != [id(x) for x in pub[:len(h.stream)]] or (terminals and len(h.stream) < pub.index(terminals[0]) + 1):
            h.violate("stream_differs_from_published", {**w, "outcome": kind},
                      f"stream_events() delivered {stream_repr(h.stream, False)} but the run published {stream_repr(pub, False)}")
        pq = hd._external_adapter._queues.publish_queue
        if not pq.empty():
            h.violate("published_after_terminal", {**w, "outcome": kind}, "publish queue not empty after the stream ended")
    # handler agrees with the run task
    ho = task_outcome(hd._result_task)
    if ho[0] != out[0] or (ho[0] == "exception" and ho[1] is not out[1]):
        h.violate("handler_outcome_differs", w, f"handler {ho} vs run {out}")


def observe(h: Any, e: Any, state: dict[str, Any]) -> Any:
    return {"stream": stream_repr(h.published, False)[-3:], "stream_done": h.stream_done}


ORACLE = Oracle(final=final, observe=observe)


# ------------------------------------------------------------------------------- programs
def wf_stop_race(w: int = 3) -> type:
    """several workers; one returns the StopEvent while others are still running and write to the stream"""

    async def start(self, ctx, ev, inv):  # noqa: ANN001
        for i in range(3):
            ctx.send_event(Work(uid=i))
        return None

    async def work(self, ctx, ev, inv):  # noqa: ANN001
        await gate(f"w{ev.uid}a")
        ctx.write_event_to_stream(Prog(uid=ev.uid))
        await gate(f"w{ev.uid}b")
        if ev.uid == 0:
            return StopEvent(result="first")
        ctx.write_event_to_stream(Prog(uid=10 + ev.uid))
        return None

    return make_workflow("StopRace", [
        make_step("start", [StartEvent], [Work, None], start),
        make_step("work", [Work], [StopEvent, None], work, num_workers=w)])


def wf_stop_cleanup_writer(end: str = "stop") -> type:
    """one branch ends the run (StopEvent / unhandled failure; or the run is cancelled / times out from outside) while
    another branch is still running; the running branch writes to the stream from its cancellation clean-up, and a
    third one streams on every loop iteration"""
    import asyncio

    async def start(self, ctx, ev, inv):  # noqa: ANN001
        ctx.send_event(Work(uid=0))
        ctx.send_event(A(uid=1))
        ctx.send_event(Done(uid=2))
        return None

    async def stopper(self, ctx, ev, inv):  # noqa: ANN001
        await gate("stop")
        if end == "fail":
            raise RuntimeError("stopper fails, nobody handles it")
        return StopEvent(result="stopped")

    async def cleaner(self, ctx, ev, inv):  # noqa: ANN001
        ctx.write_event_to_stream(Prog(uid=1))
        try:
            await gate("cleaner")
        finally:
            ctx.write_event_to_stream(Prog(uid=99))  # runs when the worker is cancelled
        return None

    async def streamer(self, ctx, ev, inv):  # noqa: ANN001
        await gate("streamer")
        for i in range(6):
            ctx.write_event_to_stream(Prog(uid=10 + i))
            await asyncio.sleep(0)
        return None

    return make_workflow("StopCleanup", [
        make_step("start", [StartEvent], [Work, A, Done, None], start),
        make_step("stopper", [Work], [StopEvent], stopper),
        make_step("cleaner", [A], [None], cleaner),
        make_step("streamer", [Done], [None], streamer)])


def wf_two_stops() -> type:
    """two workers both return a StopEvent"""

    async def start(self, ctx, ev, inv):  # noqa: ANN001
        ctx.send_event(Work(uid=0))
        ctx.send_event(Work(uid=1))
        return None

    async def work(self, ctx, ev, inv):  # noqa: ANN001
        await gate(f"w{ev.uid}")
        return StopEvent(result=ev.uid)

    return make_workflow("TwoStops", [
        make_step("start", [StartEvent], [Work, None], start),
        make_step("work", [Work], [StopEvent], work, num_workers=2)])


class _BadNextPolicy:
    def next(self, elapsed_time: float, attempts: int, error: Exception) -> float | None:
        raise ValueError("policy bug")


class _NonNumberPolicy:
    def next(self, elapsed_time: float, attempts: int, error: Exception) -> Any:
        return "soon" if attempts < 2 else None


def _bad_predicate(e: BaseException) -> bool:
    raise KeyError("predicate bug")


def wf_raise(policy: Any = None, other_worker: bool = False) -> type:
    async def start(self, ctx, ev, inv):  # noqa: ANN001
        if other_worker:
            ctx.send_event(Work(uid=1))
        await gate(f"s{inv.retry.retry_number}")
        raise RuntimeError("step failed")

    async def work(self, ctx, ev, inv):  # noqa: ANN001
        await gate("w")
        ctx.write_event_to_stream(Prog(uid=1))
        await gate("w2")
        return None

    steps = [make_step("start", [StartEvent], [StopEvent, Work] if other_worker else [StopEvent], start,
                       retry_policy=policy)]
    if other_worker:
        steps.append(make_step("work", [Work], [None], work))
    return make_workflow("Raise", steps)


def wf_handler_raises() -> type:
    async def start(self, ctx, ev, inv):  # noqa: ANN001
        await gate("s")
        raise RuntimeError("step failed")

    async def on_err(self, ctx, ev, inv):  # noqa: ANN001
        await gate("h")
        raise LookupError("handler failed")

    return make_workflow("HandlerRaises", [
        make_step("start", [StartEvent], [StopEvent], start),
        make_step("on_err", [StepFailedEvent], [StopEvent], on_err, decorator=catch_error)])


def wf_non_event() -> type:
    async def start(self, ctx, ev, inv):  # noqa: ANN001
        await gate("s")
        return 42

    return make_workflow("NonEvent", [make_step("start", [StartEvent], [StopEvent], start)])


def wf_custom_stop() -> type:
    async def start(self, ctx, ev, inv):  # noqa: ANN001
        await gate("s")
        return MyStop(value=3)

    return make_workflow("CustomStop", [make_step("start", [StartEvent], [MyStop], start)])


def wf_verdict(approved: bool) -> type:
    from vmc.events import Verdict

    async def start(self, ctx, ev, inv):  # noqa: ANN001
        await gate("s")
        return Verdict(approved=approved)

    return make_workflow("VerdictWf", [make_step("start", [StartEvent], [Verdict], start)])


def cancel_script(state: dict[str, Any]) -> list[list[Action]]:
    return [[Action("cancel_run", lambda: state["hd"].ctx._workflow_cancel_run())]]


def double_cancel_script(state: dict[str, Any]) -> list[list[Action]]:
    return [[Action("cancel_run", lambda: state["hd"].ctx._workflow_cancel_run())],
            [Action("cancel_run2", lambda: state["hd"].ctx._workflow_cancel_run())]]


def specs(tier: str) -> list[Spec]:
    pol3 = lambda: retry_policy(wait=wait_fixed(1), stop=stop_after_attempt(2))  # noqa: E731
    sp = [
        Spec("normal_stop", {"cause": "normal_stop"}, lambda: wf_chain(2)),
        Spec("custom_stop", {"cause": "custom_stop"}, wf_custom_stop),
        # a StopEvent subclass with a truth value of its own, truthy and FALSY, with and without a workflow timeout still pending
        Spec("custom_stop_truthy", {"cause": "custom_stop"}, lambda: wf_verdict(True), wf_kw={"timeout": 10.0}),
        Spec("custom_stop_falsy", {"cause": "custom_stop"}, lambda: wf_verdict(False)),
        Spec("custom_stop_falsy/timeout_pending", {"cause": "custom_stop"}, lambda: wf_verdict(False), wf_kw={"timeout": 10.0}),
        Spec("stop_race", {"cause": "stop_race"}, wf_stop_race, max_dev=(4 if tier == "quick" else None)),
        # overlapping collect_events invocations (stale-snapshot re-runs) on the way to the StopEvent
        Spec("collect_race", {"cause": "normal_stop"}, lambda: wf_collect(2), max_dev=(4 if tier == "quick" else None)),
        Spec("two_stops", {"cause": "two_stops"}, wf_two_stops, pair=True),
        Spec("stop_vs_cleanup_writer", {"cause": "stop_race"}, wf_stop_cleanup_writer, pair=True),
        Spec("fail_vs_cleanup_writer", {"cause": "raise_no_retry", "writers": True}, lambda: wf_stop_cleanup_writer("fail"), pair=True),
        Spec("cancel_vs_cleanup_writer", {"cause": "cancel", "writers": True}, lambda: wf_stop_cleanup_writer("cancel"), scripts=cancel_script,
             max_dev=(4 if tier == "quick" else None)),
        Spec("timeout_vs_cleanup_writer", {"cause": "timeout", "writers": True}, lambda: wf_stop_cleanup_writer("timeout"),
             wf_kw={"timeout": 10.0}, pair_time=True, max_dev=(4 if tier == "quick" else None)),
        # ... and the (decorating) adapter's own close() fails during the teardown
        Spec("stop_vs_cleanup_writer/close_raises", {"cause": "stop_race", "adapter_close_raises": True}, wf_stop_cleanup_writer, pair=True),
        Spec("fail_vs_cleanup_writer/close_raises", {"cause": "raise_no_retry", "writers": True, "adapter_close_raises": True},
             lambda: wf_stop_cleanup_writer("fail"), pair=True),
        Spec("cancel_vs_cleanup_writer/close_raises", {"cause": "cancel", "writers": True, "adapter_close_raises": True},
             lambda: wf_stop_cleanup_writer("cancel"), scripts=cancel_script, max_dev=(3 if tier == "quick" else None)),
        Spec("timeout_vs_cleanup_writer/close_raises", {"cause": "timeout", "writers": True, "adapter_close_raises": True},
             lambda: wf_stop_cleanup_writer("timeout"), wf_kw={"timeout": 10.0}, pair_time=True, max_dev=(3 if tier == "quick" else None)),
        # a consumer that stops listening after k events and attaches again later (human-in-the-loop front ends do this)
        *[Spec(f"normal_stop/consumer_leaves_after={k}", {"cause": "normal_stop", "consumer_leaves_after": k}, lambda: wf_chain(2),
               max_dev=(3 if tier == "quick" else None)) for k in (1, 3, 5)],
        Spec("cancel_chain/consumer_leaves_after=2", {"cause": "cancel", "consumer_leaves_after": 2}, lambda: wf_chain(2), scripts=cancel_script,
             max_dev=(3 if tier == "quick" else None)),
        Spec("stop_vs_cleanup_writer/consumer_leaves_after=4", {"cause": "stop_race", "consumer_leaves_after": 4}, wf_stop_cleanup_writer, pair=True,
             max_dev=(3 if tier == "quick" else 5)),
        Spec("raise_no_retry/consumer_leaves_after=2", {"cause": "raise_no_retry", "consumer_leaves_after": 2}, lambda: wf_raise(None)),
        Spec("raise_no_retry", {"cause": "raise_no_retry"}, lambda: wf_raise(None)),
        Spec("raise_no_retry_other_worker", {"cause": "raise_no_retry"}, lambda: wf_raise(None, True)),
        Spec("raise_retry_exhausted", {"cause": "raise_retry_exhausted"}, lambda: wf_raise(pol3())),
        Spec("handler_raises", {"cause": "handler_raises"}, wf_handler_raises),
        Spec("non_event_return", {"cause": "non_event_return"}, wf_non_event),
        Spec("policy_next_raises", {"cause": "policy_next_raises"}, lambda: wf_raise(_BadNextPolicy())),
        Spec("policy_next_raises_other_worker", {"cause": "policy_next_raises"},
             lambda: wf_raise(_BadNextPolicy(), True)),
        Spec("retry_predicate_raises", {"cause": "retry_predicate_raises"},
             lambda: wf_raise(retry_policy(retry=retry_if_exception(_bad_predicate), wait=wait_fixed(0)))),
        Spec("policy_next_non_number", {"cause": "policy_next_non_number"}, lambda: wf_raise(_NonNumberPolicy())),
        Spec("cancel_chain", {"cause": "cancel"}, lambda: wf_chain(2), scripts=cancel_script),
        Spec("cancel_fan", {"cause": "cancel"}, lambda: wf_fan(2, 2), scripts=cancel_script),
        Spec("cancel_twice", {"cause": "cancel"}, lambda: wf_chain(1), scripts=double_cancel_script),
        Spec("cancel_during_retry_delay", {"cause": "cancel"}, lambda: wf_raise(pol3()), scripts=cancel_script),
        Spec("timeout_chain", {"cause": "timeout"}, lambda: wf_chain(2), wf_kw={"timeout": 10.0}, pair_time=True),
        Spec("timeout_fan", {"cause": "timeout"}, lambda: wf_fan(2, 2), wf_kw={"timeout": 10.0}, pair_time=True,
             max_dev=(4 if tier == "quick" else None)),
        Spec("timeout_vs_cancel", {"cause": "timeout_vs_cancel"}, lambda: wf_chain(1), scripts=cancel_script,
             wf_kw={"timeout": 10.0}),
        Spec("timeout_during_retry_delay", {"cause": "timeout"}, lambda: wf_raise(pol3()), wf_kw={"timeout": 10.0}),
        # waits with a timeout: answered (the stale timer fires later, while the run is still alive) or timing out, on the way to the StopEvent
        Spec("waits_with_timeouts", {"cause": "normal_stop", "timers": "waiter_timeouts"}, lambda: wf_wait(2, n=2, timeout=5.0),
             scripts=resp_scripts(2), max_dev=(3 if tier == "quick" else 6)),
        Spec("waits_with_timeouts_vs_run_timeout", {"cause": "timeout", "timers": "waiter_timeouts"}, lambda: wf_wait(1, n=2, timeout=5.0),
             scripts=resp_scripts(2), wf_kw={"timeout": 7.0}, max_dev=(3 if tier == "quick" else 6)),
        # second and later runs of one context: a run continued from a finished run's context, a run resumed from a snapshot
        Spec("continued_run", {"cause": "normal_stop", "history": "continued"}, lambda: wf_early_stop(2, 1), continue_runs=1,
             max_dev=(3 if tier == "quick" else 5)),
        Spec("continued_run_cancel", {"cause": "cancel", "history": "continued"}, lambda: wf_early_stop(2, 2), continue_runs=1,
             scripts=cancel_script, max_dev=(3 if tier == "quick" else 5)),
        Spec("resumed_run", {"cause": "normal_stop", "history": "resumed"}, lambda: wf_chain(2), resume=True),
        Spec("resumed_run_cancel", {"cause": "cancel", "history": "resumed"}, lambda: wf_fan(2, 2), resume=True, scripts=cancel_script,
             max_dev=(3 if tier == "quick" else 5)),
        Spec("resumed_run_timeout", {"cause": "timeout", "history": "resumed"}, lambda: wf_chain(2), resume=True, wf_kw={"timeout": 10.0},
             max_dev=(3 if tier == "quick" else 5)),
    ]
    if tier != "quick":
        sp += [
            Spec("stop_race_pair", {"cause": "stop_race"}, wf_stop_race, pair=True, max_dev=5),
            Spec("cancel_fan3", {"cause": "cancel"}, lambda: wf_fan(3, 2), scripts=cancel_script),
            Spec("timeout_fan3", {"cause": "timeout"}, lambda: wf_fan(3, 3), wf_kw={"timeout": 10.0}),
            Spec("cancel_stop_race", {"cause": "cancel"}, wf_stop_race, scripts=cancel_script, max_dev=5),
        ]
    return sp


RULE = ("outcome causes (normal/custom stop, stop racing running workers, raise with/without retry, raise in a "
        "@catch_error handler, non-event return, failing user retry code, cancel and timeout at every quiescent "
        "point, waits with timeouts that are answered or time out on the way to the end) x all schedules; each maximal execution is checked for exactly one outcome, one matching terminal "
        "event, nothing after it and a terminating stream consumer; non-trivial = at least one schedule deviation")
from vmc.tables import _ROUND6 as _R6  # noqa: E402

RULE += _R6["C04"]
from vmc.tables import _ROUND7 as _R7  # noqa: E402

RULE += _R7["C04"]
from vmc.tables import _ROUND8 as _R8  # noqa: E402

RULE += _R8["C04"]



def execute_reuse(ex: Any, mode: str) -> tuple[Any, list[Any]]:
    """A later run is started under the run_id of an earlier, finished run whose stream nobody read.  The runtime may
    refuse that (it does: RuntimeError) - if it accepts, the later run has to satisfy the property on its own."""
    from types import SimpleNamespace

    from vmc.checks.common import Program  # noqa: F401
    from vmc.engine import BasicRuntime, EngineExec, MonRuntime, RunConfig

    with EngineExec(ex, RunConfig()) as e:
        h = e.h
        h.restart_marks = []
        h.spec = SimpleNamespace(params={"cause": "normal_stop", "history": f"run_id_reused_after_{mode}"}, name=f"reuse_{mode}")
        cls = wf_chain(2)
        wf = cls(timeout=None, runtime=MonRuntime(BasicRuntime()))
        hd1 = wf.run(run_id="job")
        if mode == "cancel":
            e.add_script([Action("cancel_run", lambda: hd1.ctx._workflow_cancel_run())])
        e.cfg.stop_when = lambda hh: hd1.is_done()
        e.drive()
        if not hd1.is_done():
            return {"outcome": "first run pending", "_metrics": {"max_concurrency": 1}}, []
        first = task_outcome(hd1._result_task)
        h.restart_marks.append(len(h.published))
        h.stream, h.stream_done, h.stream_error = [], False, None
        try:
            hd2 = wf.run(ctx=hd1.ctx, run_id="job")
        except RuntimeError as x:
            return {"outcome": "refused", "first": first[0], "why": str(x)[:60], "_metrics": {"max_concurrency": 1}}, []
        state = {"hd": hd2}
        e.consume_stream(hd2)
        e.cfg.stop_when = lambda hh: hd2.is_done() and hh.stream_done
        e.stuck = False
        e.drive()
        out2 = task_outcome(hd2._result_task)
        if out2[0] == "exception" and isinstance(out2[1], RuntimeError) and "already exists" in str(out2[1]):
            return {"outcome": "refused", "first": first[0], "_metrics": {"max_concurrency": 1}}, []
        final(h, e, state)
        return {"outcome": out2[0], "first": first[0], "stream": stream_repr(h.stream, False)[-3:], "_metrics": {"max_concurrency": 1}}, list(h.violations)


def execute_cancel_queued(ex: Any) -> tuple[Any, list[Any]]:
    """num_concurrent_runs=1: the first run holds the only slot, a second run is queued behind it; the client cancels the
    queued run with handler.cancel_run() (which waits up to its timeout for the run to end); the second run is judged."""
    from types import SimpleNamespace

    from vmc.engine import BasicRuntime, EngineExec, MonRuntime, RunConfig

    with EngineExec(ex, RunConfig(allow_time=True)) as e:
        h = e.h
        h.restart_marks = []
        h.spec = SimpleNamespace(params={"cause": "cancel", "history": "queued_behind_concurrency_limit"}, name="cancel_queued_run")
        cls = wf_chain(1)
        wf = cls(timeout=None, num_concurrent_runs=1, runtime=MonRuntime(BasicRuntime()))
        hd1 = wf.run(run_id="first")
        hd2 = wf.run(run_id="second")
        mine: list[Any] = []
        h.on_publish.append(lambda hh, ev, ad: mine.append(ev) if getattr(ad, "run_id", None) == "second" else None)
        e.consume_stream(hd2)
        e.add_script([Action("second.cancel_run()", lambda: e.loop.create_task(hd2.cancel_run()))])
        e.cfg.stop_when = lambda hh: hd2.is_done() and hh.stream_done and hd1.is_done()
        e.drive()
        h.published = mine  # judge the second run on what IT published
        final(h, e, {"hd": hd2})
        out2 = task_outcome(hd2._result_task)
        return {"outcome": out2[0], "first": task_outcome(hd1._result_task)[0], "stream_done": h.stream_done,
                "_metrics": {"max_concurrency": 2}}, list(h.violations)


def programs(tier: str) -> list[Any]:
    from vmc.checks.common import Program

    ps = to_programs(specs(tier), ORACLE)
    for mode in ("finish", "cancel"):
        ps.append(Program(f"run_id_reused_after_{mode}", {"mode": mode}, (lambda ex, mode=mode: execute_reuse(ex, mode))))
    ps.append(Program("cancel_run_of_queued_run", {}, execute_cancel_queued))
    return ps


def run(tier: str, seed: int) -> Any:
    return run_programs(PID, programs(tier), RULE, seed, assumptions=ENGINE_ASSUMPTIONS)


def replay(rec: dict[str, Any]) -> tuple[bool, str]:
    return replay_program(programs("thorough"), rec)

"""C37 - llamactl never activates a profile the user did not pick in that environment.

Breadth-first search over sequences of llamactl configuration operations (EnvService / AuthService on a real
ConfigManager SQLite file): add / switch / delete environments (3 URLs incl. the built-in default), create profiles
(token and OIDC flavour, same names in several environments), select, select-any, update, delete profiles.  States
are deduplicated on the full table contents plus the ghost set "profiles picked since the current environment
became current"; the invariant is evaluated in every state.
"""
from __future__ import annotations

import collections
import json
import os
import shutil
import sqlite3
import sys
import tempfile
import types
from typing import Any

from vmc import bootstrap

bootstrap.setup(("llama_agents.cli",))

# network clients (need jwt / cryptography / truststore, absent here): inert stand-ins, untouched by this property
for _name, _attrs in (("llama_agents.cli.auth", {}),
                      ("llama_agents.cli.auth.client", {"PlatformAuthClient": type("PlatformAuthClient", (), {}),
                                                         "RefreshMiddleware": type("RefreshMiddleware", (), {})}),
                      ("llama_agents.core.client.manage_client", {"ControlPlaneClient": type("ControlPlaneClient", (), {}),
                                                                  "httpx": __import__("httpx")})):
    if _name not in sys.modules:
        _m = types.ModuleType(_name)
        _m.__dict__.update(_attrs)
        if _name.endswith(".auth"):
            _m.__path__ = []  # type: ignore[attr-defined]
        sys.modules[_name] = _m

from vmc.checks.grid import run_grid  # noqa: E402
from llama_agents.cli.config._config import ConfigManager  # noqa: E402
from llama_agents.cli.config.auth_service import AuthService  # noqa: E402
from llama_agents.cli.config.env_service import EnvService  # noqa: E402
from llama_agents.cli.config.schema import DEFAULT_ENVIRONMENT, DeviceOIDC, Environment  # noqa: E402

PID = "C37"
DEF = DEFAULT_ENVIRONMENT.api_url
URLS = {"D": DEF, "A": "https://a.example.test", "B": "https://b.example.test"}
TOKEN = "llx-0123456789abcdef0123456789abcdef"
EMAIL = "dev@example.test"


EMAIL2 = "dev-renamed@example.test"


def oidc(user: str = "u1", email: str = EMAIL) -> DeviceOIDC:
    return DeviceOIDC(device_name="dev", user_id=user, email=email, client_id="c", discovery_url="https://d", device_access_token="t")


OPS: list[tuple[str, ...]] = (
    [("env_add", u) for u in URLS] + [("env_switch", u) for u in URLS] + [("env_delete", u) for u in URLS]
    + [("create_token", "none"), ("create_token", "key"), ("create_oidc",),
       # the same account logs in again after its e-mail address changed; a second account that owns that address
       ("create_oidc", "u1", "renamed"), ("create_oidc", "u2", "renamed"), ("select", "default"), ("select", "token"), ("select", "email"),
       ("select_any",), ("set_project", "default"), ("delete_profile", "default"), ("delete_profile", "email"),
       # a read-only command (shows the active profile): changes nothing on disk, but goes through the same long-lived services
       ("whoami",)]
    # the user types the URL of a known environment with a trailing slash
    + [("env_switch_slash", u) for u in URLS]
)


def _summary(v: Any, depth: int = 3) -> Any:
    """whatever a long-lived service object keeps in memory, reduced to plain values (part of the canonical state: two
    histories with equal tables but different in-memory service state are different states)"""
    if v is None or isinstance(v, (str, int, float, bool)):
        return v
    if depth == 0 or callable(v):
        return type(v).__name__
    if isinstance(v, (list, tuple, set, frozenset)):
        return sorted((_summary(x, depth - 1) for x in v), key=repr)
    if isinstance(v, dict):
        return {str(k): _summary(x, depth - 1) for k, x in sorted(v.items(), key=lambda kv: str(kv[0]))}
    d = getattr(v, "__dict__", None)
    if d is None:
        return type(v).__name__
    return {"__type__": type(v).__name__, **{k: _summary(x, depth - 1) for k, x in sorted(d.items()) if k not in ("config_manager",)}}


class World:
    def __init__(self, d: str) -> None:
        self.dir = d
        os.environ["LLAMACTL_CONFIG_DIR"] = d
        self.cm = ConfigManager()
        self.env = EnvService(lambda: self.cm)
        self.picked: set[tuple[str, str]] = set()  # (env url, profile name) picked since that env became current
        self.token_name: str | None = None

    def auth(self) -> AuthService:
        return self.env.current_auth_service()

    def cur_url(self) -> str:
        return self.env.get_current_environment().api_url

    def apply(self, op: tuple[str, ...]) -> str:
        before = self.cur_url()
        kind = op[0]
        res = "ok"
        try:
            if kind == "env_add":
                self.env.create_or_update_environment(Environment(api_url=URLS[op[1]], requires_auth=False))
            elif kind == "env_switch":
                self.env.switch_environment(URLS[op[1]])
            elif kind == "env_switch_slash":
                self.env.switch_environment(URLS[op[1]] + "/")
            elif kind == "env_delete":
                if not self.env.delete_environment(URLS[op[1]]):
                    res = "noop"
                else:
                    self.picked = {p for p in self.picked if p[0] != URLS[op[1]]}  # its profiles are gone
            elif kind == "whoami":
                self.auth().get_current_profile()
            elif kind == "create_token":
                a = self.auth().create_profile_from_token("proj", TOKEN if op[1] == "key" else None)
                self.picked.add((a.api_url, a.name))  # (a profile is created for ONE environment: it is picked there only)
            elif kind == "create_oidc":
                o = oidc() if len(op) == 1 else oidc(op[1], EMAIL2 if op[2] == "renamed" else EMAIL)
                a = self.auth().create_or_update_profile_from_oidc("proj", o)
                self.picked.add((a.api_url, a.name))
            elif kind == "select":
                name = {"default": "default", "token": self._token_name(), "email": EMAIL}[op[1]]
                if self.auth().get_profile(name) is None:
                    return "precondition"  # the CLI only offers profiles of the current environment
                self.auth().set_current_profile(name)
                self.picked.add((before, name))
            elif kind == "select_any":
                ps = self.auth().list_profiles()
                self.auth().select_any_profile()
                if ps:
                    self.picked.add((before, ps[0].name))
            elif kind == "set_project":
                if self.auth().get_profile("default") is None:
                    return "precondition"
                self.auth().set_project("default", "proj2")
            elif kind == "delete_profile":
                name = {"default": "default", "email": EMAIL}[op[1]]
                if self.auth().get_profile(name) is None:
                    return "precondition"
                coro = self.auth().delete_profile(name)
                try:
                    coro.send(None)
                except StopIteration:
                    pass
                self.picked.discard((before, name))
        except ValueError:
            res = "rejected"
        after = self.cur_url()
        if after != before:
            self.picked = set()  # a different environment became current: nothing has been picked in it yet
        return res

    def _token_name(self) -> str:
        from llama_agents.cli.utils.redact import redact_api_key

        return redact_api_key(TOKEN)

    def state(self) -> dict[str, Any]:
        with sqlite3.connect(self.cm.db_path) as conn:
            envs = sorted(conn.execute("SELECT api_url, requires_auth FROM environments").fetchall())
            profs = sorted(conn.execute("SELECT name, api_url, project_id FROM profiles").fetchall())
            sets = sorted(conn.execute("SELECT key, value FROM settings").fetchall())
        mem = {k: _summary(x) for k, x in sorted(vars(self.env).items()) if k != "config_manager"}
        return {"envs": envs, "profiles": profs, "settings": sets, "picked": sorted(self.picked), "service_memory": mem}

    def invariant(self) -> list[tuple[str, dict[str, Any], str]]:
        v = []
        st = self.state()
        cur = self.cur_url()
        known = {e[0] for e in st["envs"]} | {DEF}
        if cur not in known:
            v.append(("current_environment_unknown", {}, f"current environment {cur!r} is neither known {sorted(known)} nor the default"))
        active = self.auth().get_current_profile()
        if active is not None:
            if active.api_url != cur:
                v.append(("active_profile_of_other_environment", {}, f"active profile {active.name!r} belongs to {active.api_url}, current is {cur}"))
            elif (cur, active.name) not in self.picked:
                v.append(("active_profile_not_picked_in_current_environment",
                          {"current_is_default": cur == DEF, "same_name_elsewhere": True},
                          f"profile {active.name!r} of {cur} is active although it was neither selected nor created since that "
                          f"environment became current (picked: {sorted(self.picked)})"))
        return v


def build(path: list[tuple[str, ...]], d: str) -> tuple[World, list[str]]:
    for f in os.listdir(d):
        os.unlink(os.path.join(d, f))
    w = World(d)
    res = [w.apply(op) for op in path]
    return w, res


def bfs(max_depth: int, first_ops: list[tuple[str, ...]]) -> Any:
    d = tempfile.mkdtemp(prefix="vmc-c37-", dir="/dev/shm" if os.path.isdir("/dev/shm") else None)
    v: list[Any] = []
    try:
        seen: set[str] = set()
        frontier: collections.deque[list[tuple[str, ...]]] = collections.deque()
        transitions = 0
        for op in first_ops:
            frontier.append([op])
        states = 0
        maxd = 0
        bad_sig: set[str] = set()
        while frontier:
            path = frontier.popleft()
            w, res = build(path, d)
            transitions += 1
            if res[-1] == "precondition":
                continue
            key = json.dumps(w.state(), sort_keys=True)
            viol = w.invariant()
            for c, wit, detail in viol:
                sig = c + json.dumps(wit, sort_keys=True) + path[-1][0]
                if sig not in bad_sig:
                    bad_sig.add(sig)
                    v.append((c, {**wit, "last_op": path[-1][0]}, f"after {path}: {detail}", {"path": [list(o) for o in path]}))
            if key in seen:
                continue
            seen.add(key)
            states += 1
            maxd = max(maxd, len(path))
            if viol:
                continue  # do not expand states that already violate the invariant
            if len(path) < max_depth:
                for op in OPS:
                    frontier.append(path + [op])
        return states, transitions, maxd, v
    finally:
        shutil.rmtree(d, ignore_errors=True)


def work(case: Any) -> Any:
    depth, firsts = case
    states, transitions, maxd, v = bfs(depth, [tuple(o) for o in firsts])
    return states, states, v, {"first_ops": firsts, "distinct_states": states, "transitions": transitions, "max_depth": maxd}, transitions


RULE = ("breadth-first search over sequences (depth <= 5 quick / 6 thorough) of 19 llamactl configuration operations {add / switch / "
        "delete environment x 3 URLs incl. the built-in default; create profile from token (unnamed / keyed) and from OIDC login (same "
        "names recur in every environment); select by name; select-any; update; delete profile} executed through EnvService / "
        "AuthService on a real ConfigManager SQLite file; states deduplicated on all table contents + the ghost set of profiles picked "
        "since the current environment became current; invariant (current environment known or default; active profile none or picked "
        "in the current environment) evaluated in every state; non-trivial = distinct states")


def run(tier: str, seed: int) -> Any:
    depth = 5 if tier == "quick" else 6
    cases = [(depth, [list(op)]) for op in OPS]
    res = run_grid(PID, RULE, cases, work, seed=seed, chunksize=1, assumptions=[
        "operations are issued through EnvService / AuthService, as the CLI commands do; selecting / updating / deleting a profile "
        "requires that it exists in the current environment (what the CLI offers)",
        "state deduplication is per first operation (19 independent searches); ConfigManager keeps no state outside the SQLite file",
        "'picked in that environment' = selected or created since that environment last became current"])
    res.exhaustive = True
    return res


def replay(rec: dict[str, Any]) -> tuple[bool, str]:
    d = tempfile.mkdtemp(prefix="vmc-c37-")
    try:
        path = [tuple(o) for o in rec["path"]]
        w, res = build(path, d)
        v = w.invariant()
        return (not v), f"path={path}\nresults={res}\nstate={w.state()}\n" + "\n".join(f"VIOLATED {c} {wit}: {dd}" for c, wit, dd in v)
    finally:
        shutil.rmtree(d, ignore_errors=True)

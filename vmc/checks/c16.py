"""C16 - the stored event log is gap-free and resumable from any cursor.

Part A (store level): n events are appended at explorer-chosen points (a StopEvent at a chosen position, possibly
followed by more events) while 1-2 subscribers with cursors -1..n+1 are started at explorer-chosen points and pull
items one at a time (a slow consumer is suspended between items); every interleaving of appends, subscriber
starts, pulls and poll-timer firings is executed on the real MemoryWorkflowStore / SqliteWorkflowStore.
Part B (API level): the real _WorkflowAPI._stream_events / _resolve_event_stream over a real store with
after_sequence in {now, -1..n}, Last-Event-ID, include_internal both ways, and disconnect-after-k + reconnect.
"""
from __future__ import annotations

import asyncio
import json
import os
import shutil
import tempfile
from datetime import datetime, timezone
from typing import Any

from vmc import bootstrap

bootstrap.setup(("llama_agents.server",))

import logging  # noqa: E402

logging.getLogger("llama_agents").setLevel(logging.ERROR)

from vmc.checks.common import Program, replay_program, run_programs  # noqa: E402
from vmc.explore import Execution  # noqa: E402
from vmc.loop import Livelock, VLoop  # noqa: E402
from llama_agents.client.protocol.serializable_events import EventEnvelopeWithMetadata  # noqa: E402
from llama_agents.server import _api as api_mod  # noqa: E402
from llama_agents.server._store.abstract_workflow_store import HandlerQuery, PersistentHandler  # noqa: E402
from llama_agents.server._store.memory_workflow_store import MemoryWorkflowStore  # noqa: E402
from llama_agents.server._store.sqlite.sqlite_workflow_store import SqliteWorkflowStore  # noqa: E402
from starlette.exceptions import HTTPException  # noqa: E402
from starlette.requests import Request  # noqa: E402
from workflows.events import Event, StepState, StepStateChanged, StopEvent  # noqa: E402

PID = "C16"
_DIR: dict[str, Any] = {}


def make_store(backend: str) -> Any:
    if backend == "memory":
        return MemoryWorkflowStore()
    if "d" not in _DIR:
        _DIR["d"] = tempfile.mkdtemp(prefix="vmc-c16-", dir="/dev/shm" if os.path.isdir("/dev/shm") else None)
        import atexit

        atexit.register(shutil.rmtree, _DIR["d"], True)
        _DIR["path"] = os.path.join(_DIR["d"], f"w-{os.getpid()}.db")
        SqliteWorkflowStore(_DIR["path"])
        import sqlite3

        _DIR["raw"] = sqlite3.connect(_DIR["path"])
    for t in ("events", "handlers", "ticks"):
        _DIR["raw"].execute(f"DELETE FROM {t}")
    _DIR["raw"].commit()
    return SqliteWorkflowStore(_DIR["path"], poll_interval=1.0, auto_migrate=False)


def envelope(kind: str, i: int) -> EventEnvelopeWithMetadata:
    if kind == "stop":
        return EventEnvelopeWithMetadata.from_event(StopEvent(result=f"done{i}"))
    if kind == "internal":
        return EventEnvelopeWithMetadata.from_event(StepStateChanged(name="s", step_state=StepState.RUNNING, worker_id="0",
                                                                     input_event_name="E", context_state=None))
    return EventEnvelopeWithMetadata.from_event(Event(n=i))


def expected_after(kinds: list[str], k: int, upto: int | None = None, include_internal: bool = True) -> tuple[list[int], bool]:
    """sequences a subscriber after k must receive out of the first ``upto`` appended events, and whether it ends"""
    n = len(kinds) if upto is None else upto
    out = []
    for s in range(max(k + 1, 0), n):
        if include_internal or kinds[s] != "internal":
            out.append(s)
        if kinds[s] == "stop":
            return out, True
    return out, False


# ------------------------------------------------------------------ part A: store level -----------------------
def exec_store(ex: Execution, backend: str, kinds: list[str], cursors: list[int], allow_time: bool) -> tuple[Any, list[Any]]:
    loop = VLoop()
    loop.install()
    v: list[Any] = []
    spin: list[str] = []

    def drain() -> None:
        if spin:
            return
        try:
            loop.drain(cap=3_000)
        except Livelock as e:
            spin.append(str(e))
            loop._ready.clear()

    try:
        store = make_store(backend)
        n = len(kinds)
        got: list[list[int]] = [[] for _ in cursors]
        ended = [False] * len(cursors)
        pull: dict[int, asyncio.Future] = {}
        tasks: dict[int, asyncio.Task] = {}
        appended = 0
        w = {"backend": backend}

        async def subscriber(i: int) -> None:
            async for ev in store.subscribe_events("r1", after_sequence=cursors[i]):
                got[i].append(ev.sequence)
                f = loop.create_future()  # slow consumer: the generator stays suspended at its yield
                pull[i] = f
                try:
                    await f
                finally:
                    pull.pop(i, None)
            ended[i] = True

        steps = 0
        maxc = 0
        timer_fires = 0
        while True:
            drain()
            steps += 1
            maxc = max(maxc, sum(1 for t in tasks.values() if not t.done()))
            acts: list[tuple[str, Any]] = []
            if appended < n:
                acts.append((f"append{appended}:{kinds[appended]}", ("append",)))
            for i in range(len(cursors)):
                if i not in tasks:
                    acts.append((f"subscribe{i}@{cursors[i]}", ("sub", i)))
            for i in sorted(pull):
                if not pull[i].done():
                    acts.append((f"pull{i}", ("pull", i)))
            if allow_time and loop.has_timers() and appended < n and timer_fires < 2:
                # polling makes the space cyclic: a poll that finds nothing returns to the same state, so two
                # firings per execution (before / between appends) cover the distinct behaviours
                acts.append(("poll_timer", ("time",)))
            if not acts or steps > 120:
                break
            c = ex.choose(len(acts), "act", [a[0] for a in acts])
            a = acts[c][1]
            if a[0] == "append":
                t = loop.create_task(store.append_event("r1", envelope(kinds[appended], appended)))
                appended += 1
                drain()
                if not t.done() or t.exception() is not None:
                    v.append(("append_failed", w, f"append_event did not complete: {t}"))
                    break
            elif a[0] == "sub":
                tasks[a[1]] = loop.create_task(subscriber(a[1]))
            elif a[0] == "pull":
                pull[a[1]].set_result(None)
            else:
                timer_fires += 1
                loop.fire_timers(0)
        # let polling subscribers (SQLite) observe the final log: fire poll timers a bounded number of times
        for _ in range(6):
            drain()
            progressed = False
            for i in sorted(pull):
                if not pull[i].done():
                    pull[i].set_result(None)
                    progressed = True
            drain()
            if not progressed and loop.has_timers() and backend == "sqlite":
                loop.fire_timers(0)
            elif not progressed:
                break
        drain()
        # --- oracle
        async def allq() -> list[int]:
            return [e.sequence for e in await store.query_events("r1")]
        tq = loop.create_task(allq())
        drain()
        seqs = tq.result()
        if seqs != list(range(appended)):
            v.append(("sequence_numbers_not_consecutive", w, f"after {appended} appends the log has sequences {seqs}"))
        for i, k in enumerate(cursors):
            if i not in tasks:
                continue
            want, must_end = expected_after(kinds, k, appended)
            wi = {**w, "cursor_vs_log": ("beyond_end" if k >= n else "inside")}
            if got[i] != want:
                kind = ("duplicate" if len(set(got[i])) < len(got[i]) else "missing" if set(got[i]) < set(want) else
                        "extra" if set(got[i]) > set(want) else "wrong_order_or_set")
                v.append(("subscriber_stream_wrong", {**wi, "kind": kind},
                          f"[{backend}] kinds={kinds} subscriber after {k}: yielded {got[i]}, expected {want} "
                          f"(trace {ex.labels})"))
            elif must_end and not ended[i]:
                v.append(("subscriber_does_not_end_after_terminal", wi,
                          f"[{backend}] kinds={kinds} subscriber after {k} yielded {got[i]} incl. the terminal event but did not end"))
            elif not must_end and ended[i]:
                v.append(("subscriber_ends_without_terminal", wi,
                          f"[{backend}] kinds={kinds} subscriber after {k} ended after {got[i]} although no terminal event above {k} exists"))
        if spin:
            v = [("stream_never_quiesces", w, f"[{backend}] kinds={kinds} cursors={cursors}: the event loop never became idle ({spin[0]}): a subscriber spins (trace {ex.labels})")]
        obs = {"got": got, "ended": ended, "_metrics": {"max_concurrency": maxc + 1}}
        return obs, v
    finally:
        loop.teardown()


# ------------------------------------------------------------------ part B: API level -------------------------
class _Svc:
    def __init__(self, store: Any) -> None:
        self.store = store

    def get_workflow(self, name: str) -> Any:
        return None

    async def start(self) -> None:
        pass

    async def stop(self) -> None:
        pass


def parse_frames(chunks: list[str]) -> list[tuple[int, dict[str, Any]]]:
    out = []
    for ch in chunks:
        if ch.startswith(":"):
            continue
        lines = ch.strip("\n").split("\n")
        sid = None
        data = None
        for ln in lines:
            if ln.startswith("id:"):
                sid = int(ln[3:].strip())
            elif ln.startswith("data:"):
                data = json.loads(ln[5:].strip())
        out.append((sid, data))
    return out


def exec_api(ex: Execution, backend: str, kinds: list[str], pre: int, cursor: Any, via_header: bool, include_internal: bool,
             reconnect_after: int | None, status: str) -> tuple[Any, list[Any]]:
    """``pre`` events exist when the request arrives; the rest is appended at explorer-chosen points while the
    response is consumed.  cursor: 'now' or int."""
    loop = VLoop()
    loop.install()
    v: list[Any] = []
    spin: list[str] = []

    def drain() -> None:
        if spin:
            return
        try:
            loop.drain(cap=3_000)
        except Livelock as e:
            spin.append(str(e))
            loop._ready.clear()

    try:
        store = make_store(backend)
        api = api_mod._WorkflowAPI(_Svc(store))  # type: ignore[arg-type]
        n = len(kinds)
        w = {"backend": backend, "cursor": ("now" if cursor == "now" else "numeric"), "via": "Last-Event-ID" if via_header else "after_sequence",
             "include_internal": include_internal, "reconnect": reconnect_after is not None}
        appended = 0

        def do_append() -> None:
            nonlocal appended
            t = loop.create_task(store.append_event("r1", envelope(kinds[appended], appended)))
            appended += 1
            drain()
            assert t.done() and t.exception() is None, t

        async def setup() -> None:
            await store.update(PersistentHandler(handler_id="h1", workflow_name="wf", status=status, run_id="r1",
                                                 started_at=datetime(2026, 1, 1, tzinfo=timezone.utc)))
        ts = loop.create_task(setup())
        drain()
        assert ts.done() and ts.exception() is None
        for _ in range(pre):
            do_append()

        frames: list[tuple[int, dict[str, Any]]] = []
        conn_state: dict[str, Any] = {"resp": None, "err": None, "done": False, "pull": None, "count": 0, "closed": False}

        def request(cur: Any, header: bool) -> Request:
            q = {"sse": "true", "include_internal": "true" if include_internal else "false"}
            h = {}
            if header and cur != "now":
                h["Last-Event-ID"] = str(cur)
                q["after_sequence"] = "now"  # the header must take priority
            else:
                q["after_sequence"] = str(cur)
            return Request(path_params={"handler_id": "h1"}, query_params=q, headers=h)

        async def connection(cur: Any, header: bool, stop_after: int | None) -> None:
            try:
                resp = await api._stream_events(request(cur, header))
            except HTTPException as e:
                conn_state["err"] = e.status_code
                conn_state["done"] = True
                return
            it = resp.body_iterator
            try:
                async for chunk in it:
                    for fr in parse_frames([chunk]):
                        frames.append(fr)
                        conn_state["count"] += 1
                    if stop_after is not None and conn_state["count"] >= stop_after:
                        conn_state["closed"] = True
                        break
                    f = loop.create_future()
                    conn_state["pull"] = f
                    await f
                    conn_state["pull"] = None
            finally:
                await it.aclose()
            conn_state["done"] = True

        resolved_now = appended - 1  # what 'now' must resolve to: the max sequence at request time
        task = loop.create_task(connection(cursor, via_header, reconnect_after))
        second: Any = None
        steps = 0
        timer_fires = 0
        while True:
            drain()
            steps += 1
            if conn_state["closed"] and second is None and conn_state["done"]:
                # client reconnects with the last id it saw
                last = frames[-1][0] if frames else (resolved_now if cursor == "now" else cursor)
                conn_state.update({"done": False, "closed": False, "count": 0, "err": None})
                second = loop.create_task(connection(last, True, None))
                continue
            acts: list[tuple[str, Any]] = []
            if appended < n:
                acts.append((f"append{appended}:{kinds[appended]}", ("append",)))
            if conn_state["pull"] is not None and not conn_state["pull"].done():
                acts.append(("pull", ("pull",)))
            if loop.has_timers() and appended < n and backend == "sqlite" and timer_fires < 2:
                acts.append(("poll_timer", ("time",)))
            if not acts or steps > 120:
                break
            c = ex.choose(len(acts), "act", [a[0] for a in acts])
            a = acts[c][1]
            if a[0] == "append":
                do_append()
            elif a[0] == "pull":
                conn_state["pull"].set_result(None)
            else:
                timer_fires += 1
                loop.fire_timers(0)
        for _ in range(8):
            drain()
            if conn_state["pull"] is not None and not conn_state["pull"].done():
                conn_state["pull"].set_result(None)
            elif loop.has_timers() and backend == "sqlite" and not conn_state["done"]:
                loop.fire_timers(0)
            else:
                break
        drain()
        k = resolved_now if cursor == "now" else cursor
        want, must_end = expected_after(kinds, k, appended, include_internal)
        ids = [f[0] for f in frames]
        if conn_state["err"] == 204:
            # "handler completed and everything consumed": only legitimate when nothing above k will ever come
            if want:
                v.append(("stream_refused_although_events_remain", w, f"[{backend}] kinds={kinds} pre={pre} cursor={cursor}: 204 but events {want} are above the cursor"))
        elif conn_state["err"] is not None:
            v.append(("stream_request_failed", w, f"[{backend}] status {conn_state['err']}"))
        else:
            if ids != want:
                kind = ("duplicate" if len(set(ids)) < len(ids) else "missing" if set(ids) < set(want) else "extra" if set(ids) > set(want) else "other")
                v.append(("sse_ids_wrong", {**w, "kind": kind},
                          f"[{backend}] kinds={kinds} pre={pre} cursor={cursor} header={via_header} internal={include_internal} "
                          f"reconnect_after={reconnect_after}: SSE ids {ids}, expected {want} (trace {ex.labels})"))
            elif must_end and not conn_state["done"]:
                v.append(("sse_stream_does_not_end_after_terminal", w, f"[{backend}] kinds={kinds} cursor={cursor}: ids {ids}, stream still open"))
            for sid, data in frames:
                if data is None or sid is None:
                    v.append(("sse_frame_malformed", w, f"frame without id/data: {(sid, data)}"))
                elif kinds[sid] == "stop" and data.get("type") != "StopEvent":
                    v.append(("sse_id_payload_mismatch", w, f"id {sid} carries {data.get('type')}"))
        if spin:
            v = [("stream_never_quiesces", w, f"[{backend}] kinds={kinds} pre={pre} cursor={cursor}: the event loop never became idle ({spin[0]}) (trace {ex.labels})")]
        obs = {"ids": ids[:50], "err": conn_state["err"], "_metrics": {"max_concurrency": 2}}
        return obs, v
    finally:
        loop.teardown()


# ------------------------------------------------------------------ programs ----------------------------------
NT = ("stream_never_quiesces", {"how": "a task spins without suspending"})


def kind_lists(n: int) -> list[list[str]]:
    out = [["ev"] * n]
    for p in range(n):
        k = ["ev"] * n
        k[p] = "stop"
        out.append(k)
    return out


def programs(tier: str) -> list[Program]:
    q = tier == "quick"
    ps: list[Program] = []
    for backend in ("memory", "sqlite"):
        for n in ((2, 3) if q else (2, 3, 4)):
            for kinds in kind_lists(n):
                curs = range(-1, n + 1)
                for c in curs:
                    ps.append(Program(f"store/{backend}/{''.join(x[0] for x in kinds)}/after{c}", {"backend": backend, "kinds": kinds, "cursors": [c]},
                                      (lambda ex, backend=backend, kinds=kinds, c=c: exec_store(ex, backend, kinds, [c], backend == "sqlite")),
                                      max_dev=None if n <= 3 else 6, nontermination=NT))
        # two subscribers with different cursors sharing one condition
        for kinds in ([["ev", "ev", "stop"], ["ev", "stop", "ev"]] if q else kind_lists(3)):
            for c1, c2 in ((-1, 0), (0, 1), (-1, -1)) if q else ((-1, 0), (0, 1), (-1, -1), (1, 2), (-1, 2)):
                ps.append(Program(f"store2/{backend}/{''.join(x[0] for x in kinds)}/after{c1},{c2}",
                                  {"backend": backend, "kinds": kinds, "cursors": [c1, c2]},
                                  (lambda ex, backend=backend, kinds=kinds, c1=c1, c2=c2: exec_store(ex, backend, kinds, [c1, c2], False)),
                                  max_dev=4 if q else 6, nontermination=NT))
    # API level
    shapes = [(["ev", "internal", "ev", "stop"], "running"), (["ev", "ev", "stop"], "running"), (["ev", "stop"], "completed"),
              (["internal", "ev", "ev"], "running")]
    for backend in ("memory", "sqlite"):
        for kinds, status in shapes:
            n = len(kinds)
            # (a handler is marked completed only after its terminal event was recorded: the whole log exists then)
            for pre in (range(0, n + 1) if status == "running" else (n,)):
                cursors: list[Any] = ["now"] + list(range(-1, n))
                for cur in cursors:
                    for hdr in ((False,) if cur == "now" else (False, True)):
                        for inc in (True, False):
                            if q and backend == "sqlite" and (hdr or not inc) and pre not in (0, n):
                                continue
                            ps.append(Program(
                                f"api/{backend}/{''.join(x[0] for x in kinds)}/{status}/pre{pre}/cur{cur}/hdr{int(hdr)}/int{int(inc)}",
                                {"backend": backend, "kinds": kinds, "pre": pre, "cursor": cur, "header": hdr, "internal": inc, "status": status},
                                (lambda ex, backend=backend, kinds=kinds, pre=pre, cur=cur, hdr=hdr, inc=inc, status=status:
                                 exec_api(ex, backend, kinds, pre, cur, hdr, inc, None, status)), max_dev=None if backend == "memory" else 4, nontermination=NT))
            # disconnect after k frames, reconnect with the last id seen
            for kinds2, status2 in shapes[:2]:
                for pre in (0, 2):
                    for k in (1, 2):
                        ps.append(Program(f"api-reconnect/{backend}/{''.join(x[0] for x in kinds2)}/pre{pre}/after{k}frames",
                                          {"backend": backend, "kinds": kinds2, "pre": pre, "reconnect_after": k},
                                          (lambda ex, backend=backend, kinds2=kinds2, pre=pre, k=k, status2=status2:
                                           exec_api(ex, backend, kinds2, pre, -1, False, True, k, status2)), max_dev=None if backend == "memory" else 4, nontermination=NT))
    return ps


RULE = ("store level: logs of 2-4 events with a StopEvent at every position (or none) appended at explorer-chosen points x 1-2 "
        "subscribers with every cursor -1..n+1 started at explorer-chosen points and pulling one item at a time x poll-timer firings "
        "(SQLite) - all interleavings on MemoryWorkflowStore and SqliteWorkflowStore; API level: the real _stream_events / "
        "_resolve_event_stream over a real store with after_sequence now / -1..n, Last-Event-ID, include_internal on/off, 0..n events "
        "present at request time, and disconnect-after-k + reconnect; yielded sequences / SSE ids compared with 'everything above "
        "the cursor up to and including the first terminal event, once, in order'; non-trivial = at least one schedule deviation")


def run(tier: str, seed: int) -> Any:
    return run_programs(PID, programs(tier), RULE, seed, assumptions=[
        "starlette is absent: _WorkflowAPI handler methods are called directly with a Request holder; the ASGI transport is not covered",
        "SQLite subscribers poll with asyncio.wait_for timers on the virtual clock; timers fire only when the explorer chooses",
        "single process"])


def replay(rec: dict[str, Any]) -> tuple[bool, str]:
    return replay_program(programs("thorough"), rec)

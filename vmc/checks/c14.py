"""C14 - pending retries and waiter timeouts survive idle release and restart.

A step waiting out a retry delay D and a step whose wait_for_event timeout T has not fired yet run on the real
server stack with idle_timeout in {D/4, D, 4D}; the process is optionally stopped after every persisted tick while
the timer is pending and restarted on the surviving store; all orders of idle-timer, release and retry / timeout
timer firings are explored up to the horizon (every timer below 1000 s fired).  At the horizon the step must have
been retried / the waiting step must have received its TimeoutError, and the handler must be terminal.
"""
from __future__ import annotations

from typing import Any

from vmc import idle_harness as ih
from vmc import server_harness as sh
from vmc.checks.common import Program, replay_program, run_programs
from vmc.engine import EngineExec, MonRuntime, RunConfig
from vmc.explore import Execution
from vmc.loop import VLoop
from llama_agents.server._store.sqlite.sqlite_workflow_store import SqliteWorkflowStore
from workflows.events import StartEvent

PID = "C14"
D = 8.0
KINDS: dict[str, Any] = {
    "retry_delay": {"make": lambda: ih.wf_retry_delay(D), "expected": "retried:1"},
    "waiter_timeout": {"make": lambda: ih.wf_wait_timeout(D), "expected": "timed-out"},
}
# several timers in a row, each shorter than idle_timeout (2D) but together longer, and no client event in between: every
# one of them comes due while the run is in memory, so the run must never be released on the way
CHAINS: dict[str, Any] = {
    "retry_chain": {"make": lambda: ih.wf_retry_chain(D, 3), "expected": "retried:3"},
    "waiter_chain": {"make": lambda: ih.wf_wait_chain(D, 3), "expected": "timed-out:3"},
}
KINDS_ALL = {**KINDS, **CHAINS}


def execute(ex: Execution, kind: str, backend: str, idle_timeout: float, max_crash: int, busy_ticks: int = 0) -> tuple[Any, list[Any]]:
    """``busy_ticks``: that many ticks of a process may keep its loop busy (slow persistence, a long pause) until after the
    next wake-up the run has scheduled for itself - the timer comes due while the run is in memory but not looking"""
    spec = KINDS_ALL[kind]
    # fault choice first: 0 = the process keeps running, k = it stops right after the k-th persisted tick
    k = ex.choose(max_crash + 1, "process_stop", ["never"] + [f"after_tick_{i}" for i in range(1, max_crash + 1)])
    crash_at: int | None = k or None
    sh.clear_graveyard()
    sh.reset_ids()
    ih.reset()
    path = sh.fresh_sqlite_path() if backend == "sqlite" else None
    store = sh.make_store(backend, path)
    ctl = sh.CrashControl(crash_at)
    v: list[Any] = []

    def horizon_filter(loop: VLoop) -> Any:
        return lambda h: bool(loop.timer_deadlines()) and loop.timer_deadlines()[0] < 1000

    e = EngineExec(ex, RunConfig(max_actions=60, allow_time=True, busy_ticks=busy_ticks))
    e.__enter__()
    crashed = False
    vt = 0.0
    try:
        try:
            ctl.arm(store)
            stack = sh.Stack(store, idle_timeout=idle_timeout, wrap_basic=MonRuntime)
            wf = spec["make"]()(timeout=spec.get("timeout"))
            stack.add_workflow("wf", wf)

            async def boot() -> None:
                await stack.service.start()
                await stack.service.start_workflow(wf, "h1", StartEvent())

            e.loop.create_task(boot())
            e.cfg.time_filter = horizon_filter(e.loop)
            e.drive()
        except sh.Crash:
            crashed = True
        vt = e.loop.vt
        releases1 = list(ih.RELEASES)
    finally:
        if crashed:
            sh.bury(e.loop)
            e.abandon()
        else:
            e.__exit__(None, None, None)
    if crash_at is not None and not crashed:
        return {"skipped": True, "_metrics": {"max_concurrency": 1, "releases": len(releases1)}}, []
    ctl.disarm(store)
    store2 = store if backend == "memory" else SqliteWorkflowStore(path, poll_interval=1.0, auto_migrate=False)
    loop2 = VLoop()
    loop2.vt = vt
    with EngineExec(ex, RunConfig(max_actions=60, allow_time=True, busy_ticks=busy_ticks), loop=loop2) as e2:
        ticks = ih.tick_types(loop2, store2)
        timer_pending_at_crash = False
        h0 = ih.query_handler(loop2, store2)
        idle_at_restart = bool(h0 is not None and h0.idle_since is not None)
        if crashed:
            # was the retry / waiter timer pending when the process stopped?
            types = [t.get("type") for t in ticks]
            done_marker = "waiter_timeout" in types or sum(1 for t in ticks if t.get("type") == "step_result") >= 2
            timer_pending_at_crash = not done_marker and any(t.get("type") == "step_result" for t in ticks)
            stack2 = sh.Stack(store2, idle_timeout=idle_timeout, wrap_basic=MonRuntime)
            wf2 = spec["make"]()(timeout=spec.get("timeout"))
            stack2.add_workflow("wf", wf2)
            e2.loop.create_task(stack2.service.start())
            e2.cfg.time_filter = horizon_filter(e2.loop)
            e2.drive()
        hd = ih.query_handler(loop2, store2)
        got = getattr(getattr(hd, "result", None), "result", None)
        released = bool(releases1) or bool(ih.RELEASES)
        rel_info = (releases1 + ih.RELEASES)[:1]
        rel_pending = "none"
        if rel_info:
            r = rel_info[0]
            rel_pending = ("retry_scheduled" if any(t == "TickAddEvent" for t in r.get("scheduled", [])) or any(t == "TickAddEvent" for t in r.get("tick_buffer", []))
                           else "waiter_timeout_scheduled" if any(t == "TickWaiterTimeout" for t in r.get("scheduled", []) + r.get("tick_buffer", []))
                           else "none")
        w = {"timer": kind, "restarted_while_timer_pending": bool(crashed and timer_pending_at_crash), "released_with_timer_pending": rel_pending != "none",
             "handler_marked_idle_at_restart": bool(crashed and idle_at_restart),
             "idle_timeout_vs_delay": ("shorter" if idle_timeout < D else "equal" if idle_timeout == D else "longer")}
        if busy_ticks:
            w["loop_busy_past_the_due_time"] = bool(getattr(e.h, "busy_until", 0.0) or getattr(e2.h, "busy_until", 0.0))
        desc = (f"[{backend}] {kind} delay={D} idle_timeout={idle_timeout} crash_after_tick={crash_at} schedule {ex.labels}: at the horizon (t={loop2.vt}) "
                f"handler status={getattr(hd, 'status', None)} result={got!r}, expected completed {spec['expected']!r}; released={released} ({rel_pending})")
        if not (e.capped or e2.capped):
            if hd is None or hd.status == "running":
                v.append(("timer_lost_run_stays_running", w, desc))
            elif hd.status != "completed" or got != spec["expected"]:
                v.append(("timer_effect_wrong", {**w, "status": hd.status}, desc))
        obs = {"status": getattr(hd, "status", None), "result": got, "released": released,
               "_metrics": {"max_concurrency": 2 if crashed else 1, "releases": len(releases1) + len(ih.RELEASES)}}
        return obs, v


def programs(tier: str) -> list[Program]:
    q = tier == "quick"
    ps = []
    for kind in KINDS:
        for backend in ("memory", "sqlite"):
            for it in (D / 4, D, 4 * D):
                ps.append(Program(f"{kind}/{backend}/idle_timeout={it}", {"kind": kind, "backend": backend, "idle_timeout": it},
                                  (lambda ex, kind=kind, backend=backend, it=it: execute(ex, kind, backend, it, 7 if q else 10)), max_dev=(3 if q else 6)))
            # the timer comes due while the run is in memory but its loop is busy (a slow tick), with and without a restart
            for it in ((4 * D,) if q else (D, 4 * D)):
                ps.append(Program(f"{kind}/{backend}/idle_timeout={it}/slow_tick", {"kind": kind, "backend": backend, "idle_timeout": it, "busy_ticks": 1},
                                  (lambda ex, kind=kind, backend=backend, it=it: execute(ex, kind, backend, it, 7 if q else 10, busy_ticks=(1 if q else 2))),
                                  max_dev=(3 if q else 6)))
    for kind in CHAINS:
        for backend in (("memory",) if q else ("memory", "sqlite")):
            for it in ((2 * D,) if q else (2 * D, 1.5 * D)):
                ps.append(Program(f"{kind}/{backend}/idle_timeout={it}", {"kind": kind, "backend": backend, "idle_timeout": it},
                                  (lambda ex, kind=kind, backend=backend, it=it: execute(ex, kind, backend, it, 0 if q else 4)), max_dev=(3 if q else 5)))
    return ps


RULE = ("a step waiting out a retry delay D=8 s and a step whose wait_for_event timeout T=8 s is pending, on the real server stack over "
        "MemoryWorkflowStore / SqliteWorkflowStore with idle_timeout in {D/4, D, 4D} x no restart / process stop after each of the first 7 (thorough: 10) "
        "persisted ticks + restart on the surviving store x all orders of idle-timer, release and retry / timeout timer firings up to "
        "the horizon (every timer below 1000 s fired), plus programs in which one tick keeps the loop busy until after the pending timer's due time; at the horizon the handler must be completed with the retried / timed-out "
        "result; non-trivial = at least one deviation or a restart")
from vmc.tables import _ROUND6 as _R6  # noqa: E402

RULE += _R6["C14"]



def run(tier: str, seed: int) -> Any:
    return run_programs(PID, programs(tier), RULE, seed, assumptions=[
        "virtual clock; 'horizon' = no timer below 1000 s is left (the 10^3 s bound only excludes unrelated long timers)",
        "process stop = KeyboardInterrupt-class exception out of append_tick (as in C13)"])


def replay(rec: dict[str, Any]) -> tuple[bool, str]:
    return replay_program(programs("thorough"), rec)

"""Import bootstrap: sources are imported straight from the working tree of the repository.

* ``VMC_REPO`` (default /repo) selects the tree; nothing is installed or cached.
* Third-party modules that are absent from the sandbox are served from /verif/standins.
* Aggregator ``__init__`` modules that pull absent dependencies are replaced by bare
  namespace modules whose ``__path__`` is the real directory, so the sub-modules under test
  load from the real files.
"""
from __future__ import annotations

import glob
import os
import sys
import types

VERIF = os.path.dirname(os.path.dirname(os.path.abspath(__file__)))
REPO = os.environ.get("VMC_REPO", "/repo")

_done = False


def _ns(name: str, paths: list[str]) -> types.ModuleType:
    m = sys.modules.get(name)
    if m is None:
        m = types.ModuleType(name)
        m.__path__ = []  # type: ignore[attr-defined]
        m.__package__ = name
        sys.modules[name] = m
        if "." in name:
            parent, _, child = name.rpartition(".")
            if parent in sys.modules:
                setattr(sys.modules[parent], child, m)
    for p in paths:
        if os.path.isdir(p) and p not in m.__path__:  # type: ignore[attr-defined]
            m.__path__.append(p)  # type: ignore[attr-defined]
    return m


def setup(namespaces: tuple[str, ...] = ()) -> None:
    """Idempotent. ``namespaces``: dotted package names to pre-register as bare namespaces."""
    global _done
    sys.dont_write_bytecode = True
    if not _done:
        _done = True
        srcs = sorted(glob.glob(os.path.join(REPO, "packages", "*", "src")))
        for p in [os.path.join(REPO, "src")] + srcs:
            if p not in sys.path:
                sys.path.insert(0, p)
        standins = os.path.join(VERIF, "standins")
        if standins not in sys.path:
            # after the repository sources: a stand-in can never shadow repository code
            sys.path.append(standins)
        # llama_agents spans several package src trees -> namespace over all of them
        _ns("llama_agents", [os.path.join(s, "llama_agents") for s in srcs])
    for name in namespaces:
        rel = name.split(".")
        cands = [
            os.path.join(s, *rel)
            for s in sorted(glob.glob(os.path.join(REPO, "packages", "*", "src")))
        ]
        _ns(name, cands)


def src(*rel: str) -> str:
    return os.path.join(REPO, *rel)

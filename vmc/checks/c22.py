"""C22 - resource injection honors caching and cycle detection under concurrency."""
from __future__ import annotations

from typing import Annotated, Any

from vmc.checks.common import Program, replay_program, run_programs
from vmc.engine import BasicRuntime, EngineExec, MonRuntime, RunConfig, gate, make_step, make_workflow, task_outcome
from vmc.events import A, B, C, Done
from vmc.explore import Execution
from vmc.progs import ENGINE_ASSUMPTIONS
from workflows.events import StartEvent, StopEvent
from workflows.resource import Resource
from workflows.retry_policy import retry_policy, stop_after_attempt, wait_fixed

PID = "C22"

# --- resolution-scope log (import-time wrap, no repo change): which step resolutions overlapped in time
import asyncio  # noqa: E402
from contextlib import contextmanager  # noqa: E402

from workflows.resource import ResourceManager  # noqa: E402

_SCOPES: dict[str, Any] = {"open": [], "log": [], "seq": 0, "last_by_task": {}}
_orig_scope = ResourceManager.resolution_scope


@contextmanager
def _scope(self: Any) -> Any:
    _SCOPES["seq"] += 1
    rec = {"id": _SCOPES["seq"], "overlapped": bool(_SCOPES["open"])}
    for o in _SCOPES["open"]:
        o["overlapped"] = True
    _SCOPES["open"].append(rec)
    try:
        with _orig_scope(self):
            yield
    finally:
        _SCOPES["open"].remove(rec)
        _SCOPES["log"].append(rec)
        try:
            _SCOPES["last_by_task"][id(asyncio.current_task())] = rec
        except RuntimeError:
            pass


ResourceManager.resolution_scope = _scope  # type: ignore[method-assign]

# --- cycle-error context (import-time wrap, observation only): when "Circular resource dependency" is raised for a
# resource, is that resource really being resolved by some other call right now?
from collections import Counter as _Counter  # noqa: E402

_INFLIGHT: _Counter = _Counter()
_CYCLE_CTX: list[dict[str, Any]] = []
_orig_get = ResourceManager._get


async def _get(self: Any, resource: Any) -> Any:
    name = resource.name
    others = _INFLIGHT[name]
    _INFLIGHT[name] += 1
    try:
        return await _orig_get(self, resource)
    except ValueError as x:
        if "Circular resource dependency" in str(x) and not any(c["error"] is x for c in _CYCLE_CTX):
            _CYCLE_CTX.append({"error": x, "name": name, "in_flight_elsewhere": others > 0})
        raise
    finally:
        _INFLIGHT[name] -= 1


ResourceManager._get = _get  # type: ignore[method-assign]


class Obj:
    n = 0

    def __init__(self, kind: str, deps: dict[str, Any] | None = None) -> None:
        Obj.n += 1
        self.idx = Obj.n
        self.kind = kind
        self.deps = deps or {}

    def __repr__(self) -> str:
        return f"{self.kind}#{self.idx}"


class EmptyObj(Obj):
    """a resource whose value is falsy when it is created (an empty scratch-pad dict / list, 0, '')"""

    def __bool__(self) -> bool:
        return False

    def __len__(self) -> int:
        return 0


def make_graph(spec: dict[str, Any], calls: dict[str, int], failed: dict[str, int] | None = None) -> dict[str, Any]:
    """spec: name -> {"async": bool, "cache": bool, "deps": [names]}; returns name -> Resource descriptor.
    Cycles are allowed (descriptors are created first, annotations patched afterwards)."""
    factories: dict[str, Any] = {}
    descriptors: dict[str, Any] = {}
    for name, cfg in spec.items():
        if cfg.get("alias_of"):
            continue  # a second descriptor for another entry's factory (declared below)
        deps = cfg.get("deps", [])

        def mk(name: str = name, cfg: dict[str, Any] = cfg, deps: list[str] = deps) -> Any:
            if cfg.get("async", True):
                src = f"async def make_{name}({', '.join(deps)}):\n    return await _impl(dict({', '.join(f'{d}={d}' for d in deps)}))\n"
            else:
                src = f"def make_{name}({', '.join(deps)}):\n    return _impl_sync(dict({', '.join(f'{d}={d}' for d in deps)}))\n"

            def _maybe_fail() -> None:
                # "fail_first": the factory raises on its first call (a transient fault), works afterwards
                if cfg.get("fail_first") and failed is not None and not failed.get(name):
                    failed[name] = 1
                    raise RuntimeError(f"factory make_{name} failed (transient)")

            cls_ = EmptyObj if cfg.get("falsy") else Obj

            async def _impl(kw: dict[str, Any]) -> Any:
                await gate(f"make_{name}")
                _maybe_fail()
                calls[name] = calls.get(name, 0) + 1
                return cls_(name, kw)

            def _impl_sync(kw: dict[str, Any]) -> Any:
                _maybe_fail()
                calls[name] = calls.get(name, 0) + 1
                return cls_(name, kw)

            ns: dict[str, Any] = {"_impl": _impl, "_impl_sync": _impl_sync}
            exec(src, ns)  # noqa: S102
            return ns[f"make_{name}"]

        factories[name] = mk()
        descriptors[name] = Resource(factories[name], cache=cfg.get("cache", True))
    for name, cfg in spec.items():
        if cfg.get("alias_of"):
            # the SAME factory declared once more with the other cache flag (Resource(f) and Resource(f, cache=False))
            descriptors[name] = Resource(factories[cfg["alias_of"]], cache=cfg.get("cache", True))
    for name, cfg in spec.items():
        if not cfg.get("alias_of"):
            factories[name].__annotations__ = {d: Annotated[Obj, descriptors[d]] for d in cfg.get("deps", [])}
    return descriptors


def execute(ex: Execution, graph: dict[str, Any], inject: dict[str, list[str]], mode: str,
            cyclic: bool) -> tuple[Any, list[Any]]:
    """inject: step name -> resource names; mode 'two_steps' (s1, s2 run concurrently) or 'two_workers'
    (one step, num_workers=2, two events)."""
    Obj.n = 0
    _SCOPES.update({"open": [], "log": [], "seq": 0, "last_by_task": {}})
    _INFLIGHT.clear()
    _CYCLE_CTX.clear()
    with EngineExec(ex, RunConfig()) as e:
        h = e.h
        calls: dict[str, int] = {}
        failed: dict[str, int] = {}
        desc = make_graph(graph, calls, failed)
        fail_mode = mode == "three_fail"
        if fail_mode:
            mode = "three"
        got: list[tuple[str, int, dict[str, Any]]] = []
        overlapped: dict[tuple[str, int], Any] = {}
        n_done = 3 if mode == "three" else 2

        async def start(self, ctx, ev, inv):  # noqa: ANN001
            if mode == "two_steps":
                ctx.send_event(A(uid=1))
                ctx.send_event(B(uid=2))
            elif mode == "two_workers":
                ctx.send_event(A(uid=1))
                ctx.send_event(A(uid=2))
            else:  # staggered: the second user is started by the environment at an explorer-chosen point
                ctx.send_event(A(uid=1))
            return None

        def user(name: str) -> Any:
            async def body(self, ctx, ev, inv, **res):  # noqa: ANN001
                got.append((name, ev.uid, dict(res)))
                overlapped[(name, ev.uid)] = _SCOPES["last_by_task"].get(id(asyncio.current_task()), {}).get("overlapped")
                await gate(f"{name}:{ev.uid}")
                return Done(uid=ev.uid)

            return body

        async def fin(self, ctx, ev, inv):  # noqa: ANN001
            r = ctx.collect_events(ev, [Done] * n_done)
            if r is None:
                return None
            return StopEvent(result="ok")

        steps = [make_step("start", [StartEvent], [A, B, C, None] if mode == "three" else [A, B, None], start)]
        if mode == "three":
            for sn, et in (("s1", A), ("s2", B), ("s3", C)):
                steps.append(make_step(sn, [et], [Done], user(sn),
                                       retry_policy=(retry_policy(wait=wait_fixed(0), stop=stop_after_attempt(3)) if fail_mode else None),
                                       extra_params={r: Annotated[Obj, desc[r]] for r in inject[sn]}))
        elif mode in ("two_steps", "staggered_steps"):
            steps.append(make_step("s1", [A], [Done], user("s1"),
                                   extra_params={r: Annotated[Obj, desc[r]] for r in inject["s1"]}))
            steps.append(make_step("s2", [B], [Done], user("s2"),
                                   extra_params={r: Annotated[Obj, desc[r]] for r in inject["s2"]}))
        else:
            steps.append(make_step("s1", [A], [Done], user("s1"), num_workers=2,
                                   extra_params={r: Annotated[Obj, desc[r]] for r in inject["s1"]}))

            async def sb(self, ctx, ev, inv):  # noqa: ANN001
                return None

            steps.append(make_step("s2", [B], [None], sb))
        steps.append(make_step("fin", [Done], [StopEvent, None], fin, num_workers=1))
        cls = make_workflow("Res", steps)
        wf = cls(timeout=None, runtime=MonRuntime(BasicRuntime()))
        hd = wf.run(run_id="r1")
        e.consume_stream(hd)
        if mode == "three":
            from vmc.engine import Action

            e.add_script([Action("send B", lambda: hd.ctx.send_event(B(uid=2))),
                          Action("send C", lambda: hd.ctx.send_event(C(uid=3)))])
        if mode.startswith("staggered"):
            from vmc.engine import Action

            second = B(uid=2) if mode == "staggered_steps" else A(uid=2)
            e.add_script([Action("send second user event", lambda: hd.ctx.send_event(second))])
        e.cfg.stop_when = lambda hh: hd.is_done() and hh.stream_done
        e.drive()
        out = task_outcome(hd._result_task)
        v: list[Any] = []
        w = {"mode": "three_fail" if fail_mode else mode.replace("staggered_", "two_")}
        if fail_mode and not failed and out[0] == "result":  # (a run that ended early for another reason is judged below)
            v.append(("harness_vacuity", w, "the transient factory fault never happened"))
        any_overlap = any(r["overlapped"] for r in _SCOPES["log"] + _SCOPES["open"])
        is_cycle_err = out[0] == "exception" and "Circular resource dependency" in str(out[1])
        if cyclic:
            if not is_cycle_err:
                v.append(("genuine_cycle_not_reported", w, f"cyclic graph {graph} ended with {out} (stuck={e.stuck})"))
        else:
            if is_cycle_err:
                ctx = next((c for c in _CYCLE_CTX if c["error"] is out[1]), None) or (_CYCLE_CTX[-1] if _CYCLE_CTX else {})
                v.append(("false_cycle_error", {**w, "resolutions_overlapped": any_overlap,
                                                "named_resource_being_resolved_elsewhere": bool(ctx.get("in_flight_elsewhere"))},
                          f"acyclic graph {graph}: {out[1]} (resource {ctx.get('name')} in flight elsewhere: {ctx.get('in_flight_elsewhere')})"))
            elif out[0] != "result":
                v.append(("run_failed", w, f"acyclic graph {graph} ended with {out} stuck={e.stuck}"))
            else:
                # collect every injected object, including sub-dependencies, per invocation
                def walk(o: Any, acc: dict[str, list[Any]]) -> None:
                    acc.setdefault(o.kind, []).append(o)
                    if graph[o.kind].get("cache", True):
                        return  # a cached object keeps the dependencies it was built with
                    for d in o.deps.values():
                        walk(d, acc)

                per_inv: list[dict[str, list[Any]]] = []
                for name, uid, res in got:
                    acc: dict[str, list[Any]] = {}
                    for o in res.values():
                        walk(o, acc)
                    per_inv.append(acc)
                aliased = {cfg["alias_of"] for cfg in graph.values() if cfg.get("alias_of")}
                if aliased:
                    # one factory declared with both cache flags: judged by the parameter each object was injected as
                    by_param: dict[str, list[Any]] = {}
                    for _name, _uid, res in got:
                        for pname_, o in res.items():
                            by_param.setdefault(pname_, []).append(o)
                    for pname_, objs in by_param.items():
                        cfg_ = graph[pname_]
                        base = cfg_.get("alias_of") or pname_
                        if base not in aliased:
                            continue
                        if cfg_.get("cache", True):
                            if len({id(o) for o in objs}) != 1:
                                v.append(("cached_resource_not_shared", {**w, "async": graph[base].get("async", True), "factory_also_declared_non_cached": True},
                                          f"cached declaration {pname_} of factory make_{base}: injected objects {objs}"))
                        else:
                            cached_objs = {id(o) for q, os_ in by_param.items() if graph[q].get("cache", True) and (graph[q].get("alias_of") or q) == base for o in os_}
                            if len({id(o) for o in objs}) != len(objs) or any(id(o) in cached_objs for o in objs):
                                v.append(("non_cached_resource_shared_across_invocations",
                                          {**w, "async": graph[base].get("async", True), "factory_also_declared_cached": True},
                                          f"non-cached declaration {pname_} of factory make_{base}: injected {objs}, cached declaration got {sorted(cached_objs)}"))
                for rname, cfg in graph.items():
                    if cfg.get("alias_of") or rname in aliased:
                        continue
                    seen = [o for acc in per_inv for o in acc.get(rname, [])]
                    users = [acc for acc in per_inv if rname in acc]
                    if not seen:
                        continue
                    if cfg.get("cache", True):
                        if calls.get(rname, 0) != 1:
                            v.append(("cached_resource_created_more_than_once", {**w, "async": cfg.get("async", True)},
                                      f"cached resource {rname}: factory called {calls.get(rname, 0)} times"))
                        if len({id(o) for o in seen}) != 1:
                            v.append(("cached_resource_not_shared", {**w, "async": cfg.get("async", True)},
                                      f"cached resource {rname}: injected objects {seen}"))
                    else:
                        # fresh per step invocation, shared inside one dependency resolution
                        for acc in users:
                            if len({id(o) for o in acc[rname]}) != 1:
                                v.append(("non_cached_not_shared_within_resolution", w,
                                          f"non-cached {rname} differs inside one invocation: {acc[rname]}"))
                        firsts = [acc[rname][0] for acc in users]
                        if len({id(o) for o in firsts}) != len(firsts):
                            # did every invocation that received an already-handed-out object resolve while
                            # another step's resolution was open?  (per-manager bookkeeping, known root cause)
                            seen_ids: set[int] = set()
                            all_overlapped = True
                            for (name, uid, _res), acc in zip(got, per_inv):
                                if rname not in acc:
                                    continue
                                o = acc[rname][0]
                                if id(o) in seen_ids and not overlapped.get((name, uid)):
                                    all_overlapped = False
                                seen_ids.add(id(o))
                            v.append(("non_cached_resource_shared_across_invocations",
                                      {**w, "async": cfg.get("async", True), "receiver_resolution_overlapped_another": all_overlapped},
                                      f"non-cached {rname}: invocations received {firsts} (overlap per invocation: {overlapped})"))
                        under_cached = any(c.get("cache", True) and rname in c.get("deps", []) for c in graph.values())
                        shared = len({id(o) for o in firsts}) != len(firsts)  # reported above; the count follows from it
                        # (an attempt whose resolution raised may have created the resource once more before it failed)
                        slack = sum(failed.values()) if fail_mode else 0
                        if not shared and not under_cached and not (len(users) <= calls.get(rname, 0) <= len(users) + slack):
                            v.append(("non_cached_factory_call_count", {**w, "async": cfg.get("async", True)},
                                      f"non-cached {rname}: {calls.get(rname, 0)} factory calls for {len(users)} invocations"))
        obs = {"outcome": out[0], "value": repr(out[1])[:80], "calls": dict(sorted(calls.items())),
               "_metrics": {"max_concurrency": h.max_gates}}
        return obs, v


GRAPHS: dict[str, tuple[dict[str, Any], dict[str, list[str]], bool]] = {
    # name: (graph, injection, cyclic)
    "cached_async": ({"r": {"async": True, "cache": True}}, {"s1": ["r"], "s2": ["r"]}, False),
    "cached_sync": ({"r": {"async": False, "cache": True}}, {"s1": ["r"], "s2": ["r"]}, False),
    # a cached resource whose value is falsy (an empty container): still ONE object for every step
    "cached_falsy_async": ({"r": {"async": True, "cache": True, "falsy": True}}, {"s1": ["r"], "s2": ["r"]}, False),
    "cached_falsy_sync": ({"r": {"async": False, "cache": True, "falsy": True}}, {"s1": ["r"], "s2": ["r"]}, False),
    "cached_falsy_over_noncached": ({"n": {"async": False, "cache": False, "falsy": True}, "r": {"async": True, "cache": True, "falsy": True, "deps": ["n"]}},
                                    {"s1": ["r"], "s2": ["r", "n"]}, False),
    "noncached_async": ({"n": {"async": True, "cache": False}}, {"s1": ["n"], "s2": ["n"]}, False),
    "noncached_sync": ({"n": {"async": False, "cache": False}}, {"s1": ["n"], "s2": ["n"]}, False),
    "shared_subdep": ({"z": {"async": True, "cache": False}, "x": {"async": True, "cache": False, "deps": ["z"]},
                       "y": {"async": False, "cache": False, "deps": ["z"]}}, {"s1": ["x", "y"], "s2": ["x", "y"]}, False),
    "cached_chain": ({"c": {"async": True, "cache": True}, "b": {"async": True, "cache": True, "deps": ["c"]},
                      "a": {"async": True, "cache": True, "deps": ["b"]}}, {"s1": ["a"], "s2": ["b"]}, False),
    "cached_over_noncached": ({"n": {"async": True, "cache": False}, "r": {"async": True, "cache": True, "deps": ["n"]}},
                              {"s1": ["r"], "s2": ["r", "n"]}, False),
    "cycle2": ({"p": {"async": True, "cache": True, "deps": ["q"]}, "q": {"async": True, "cache": True, "deps": ["p"]}},
               {"s1": ["p"], "s2": ["q"]}, True),
    "cycle2_sync": ({"p": {"async": False, "cache": False, "deps": ["q"]}, "q": {"async": False, "cache": False, "deps": ["p"]}},
                    {"s1": ["p"], "s2": ["p"]}, True),
    "cycle3": ({"p": {"async": True, "cache": True, "deps": ["q"]}, "q": {"async": False, "cache": True, "deps": ["t"]},
                "t": {"async": True, "cache": False, "deps": ["p"]}}, {"s1": ["p"], "s2": ["t"]}, True),
    "self_cycle": ({"p": {"async": True, "cache": True, "deps": ["p"]}}, {"s1": ["p"], "s2": ["p"]}, True),
}


THREE: dict[str, tuple[dict[str, Any], dict[str, list[str]]]] = {
    # two resolutions that can overlap (distinct async factories) + a later user of the same non-cached resource
    "three_fifo": ({"x": {"async": True, "cache": False}, "y": {"async": True, "cache": False},
                    "n": {"async": False, "cache": False}},
                   {"s1": ["x"], "s2": ["y", "n"], "s3": ["n"]}),
    "three_fifo_async_n": ({"x": {"async": True, "cache": True}, "y": {"async": True, "cache": True},
                            "n": {"async": True, "cache": False}},
                           {"s1": ["x"], "s2": ["y", "n"], "s3": ["n"]}),
    # two different async factories whose resolutions overlap and finish first-in-first-out, then the first resource again
    "three_nonlifo": ({"x": {"async": True, "cache": True}, "y": {"async": True, "cache": True}},
                      {"s1": ["x"], "s2": ["y"], "s3": ["x"]}),
    "three_nonlifo_noncached": ({"x": {"async": True, "cache": False}, "y": {"async": True, "cache": False}},
                                {"s1": ["x"], "s2": ["y"], "s3": ["x", "y"]}),
    "three_sync_first": ({"x": {"async": True, "cache": False}, "n": {"async": False, "cache": False}},
                         {"s1": ["n", "x"], "s2": ["n"], "s3": ["n"]}),
}


# one factory declared twice, cached and non-cached (both declarations share the manager's key for that factory)
THREE["both_flags_cached_first"] = ({"r": {"async": False, "cache": True}, "r_nc": {"alias_of": "r", "cache": False}},
                                    {"s1": ["r"], "s2": ["r_nc"], "s3": ["r"]})
THREE["both_flags_noncached_first"] = ({"r": {"async": True, "cache": True}, "r_nc": {"alias_of": "r", "cache": False}},
                                       {"s1": ["r_nc"], "s2": ["r"], "s3": ["r_nc", "r"]})


THREE_FAIL: dict[str, tuple[dict[str, Any], dict[str, list[str]]]] = {
    # a resolution that raises (a factory with a transient fault; the step is retried) followed by later resolutions on the
    # same ResourceManager: the non-cached resource must still be fresh for every invocation
    "fail_sync_then_fresh": ({"n": {"async": False, "cache": False}, "f": {"async": False, "cache": False, "fail_first": True}},
                             {"s1": ["n", "f"], "s2": ["n"], "s3": ["n"]}),
    "fail_async_then_fresh": ({"n": {"async": False, "cache": False}, "f": {"async": True, "cache": False, "fail_first": True}},
                              {"s1": ["n", "f"], "s2": ["n"], "s3": ["n"]}),
    "fail_nested_then_fresh": ({"n": {"async": False, "cache": False}, "f": {"async": False, "cache": False, "fail_first": True},
                                "g": {"async": True, "cache": True, "deps": ["n", "f"]}},
                               {"s1": ["g"], "s2": ["n"], "s3": ["n", "g"]}),
    # ... while ANOTHER step's resolution is open inside a slow async factory: the retry resolves the failed resource again
    # before that other resolution has finished
    "fail_async_while_other_resolves": ({"slow": {"async": True, "cache": False}, "f": {"async": True, "cache": False, "fail_first": True}},
                                        {"s1": ["f"], "s2": ["slow"], "s3": ["f"]}),
    "fail_sync_while_other_resolves": ({"slow": {"async": True, "cache": True}, "f": {"async": False, "cache": True, "fail_first": True}},
                                       {"s1": ["slow"], "s2": ["f"], "s3": ["f", "slow"]}),
    "fail_nested_while_other_resolves": ({"slow": {"async": True, "cache": False}, "f": {"async": False, "cache": False, "fail_first": True},
                                          "g": {"async": True, "cache": False, "deps": ["f"]}},
                                         {"s1": ["g"], "s2": ["slow"], "s3": ["g"]}),
}


import logging as _logging  # noqa: E402

_logging.getLogger("workflows").setLevel(_logging.CRITICAL)  # (the engine logs every failing step with a traceback)


def execute_string_annotations(ex: Execution, which: str) -> tuple[Any, list[Any]]:
    """factories whose dependencies are declared with postponed (string) annotations - every evaluation of the annotation builds a
    new Resource descriptor: a genuine cycle must still be reported as one, an acyclic chain must resolve"""
    from vmc import res_cycle as rc

    rc.CALLS.clear()
    root = {"cycle2": rc.make_alpha, "cycle1": rc.make_gamma, "chain": rc.make_top}[which]
    with EngineExec(ex, RunConfig()) as e:
        async def user(self, ctx, ev, inv, **res):  # noqa: ANN001
            return StopEvent(result=res["r"].name)

        cls = make_workflow("ResStr", [make_step("user", [StartEvent], [StopEvent], user, extra_params={"r": Annotated[rc.Thing, Resource(root)]})])
        wf = cls(timeout=None, runtime=MonRuntime(BasicRuntime()))
        try:
            hd = wf.run(run_id="r1")
        except Exception as x:  # noqa: BLE001  (a cycle may already be reported when the workflow is validated)
            out: tuple[str, Any] = ("exception", x)
        else:
            e.consume_stream(hd)
            e.cfg.stop_when = lambda hh: hd.is_done() and hh.stream_done
            e.drive()
            out = task_outcome(hd._result_task)
        v: list[Any] = []
        w = {"mode": "string_annotations", "graph": which}
        is_cycle_err = out[0] == "exception" and "Circular resource dependency" in str(out[1])
        if which.startswith("cycle"):
            if not is_cycle_err:
                v.append(("genuine_cycle_not_reported", w, f"cycle written with string annotations ended with {out[0]} {type(out[1]).__name__}: {str(out[1])[:120]}"))
        elif is_cycle_err:
            v.append(("false_cycle_error", {**w, "resolutions_overlapped": False, "named_resource_being_resolved_elsewhere": False}, f"acyclic chain: {out[1]}"))
        elif out[0] != "result":
            v.append(("run_failed", w, f"acyclic chain written with string annotations ended with {out}"))
        return {"outcome": out[0], "_metrics": {"max_concurrency": 1}}, v


def execute_config_two_instances(ex: Execution, mutate_first: bool) -> tuple[Any, list[Any]]:
    """two instances of one workflow class take their settings from the same JSON file (ResourceConfig): the model object is created once
    PER INSTANCE - both steps of an instance get the same object, the other instance gets its own (what one instance does to its
    settings must not show in the other)"""
    import json as _json
    import os as _os
    import tempfile as _tf

    from pydantic import BaseModel

    from workflows.resource import ResourceConfig

    class Settings(BaseModel):
        hosts: list[str]
        retries: int = 1

    d = _tf.mkdtemp(prefix="vmc-c22-")
    path = _os.path.join(d, "settings.json")
    open(path, "w").write(_json.dumps({"pool": {"hosts": ["primary"], "retries": 2}}))
    got: dict[str, list[Any]] = {"i1": [], "i2": []}
    try:
        with EngineExec(ex, RunConfig()) as e:
            def mk(tag: str) -> Any:
                async def first(self, ctx, ev, inv, **res):  # noqa: ANN001
                    got[tag].append(res["cfg"])
                    if mutate_first and tag == "i1":
                        res["cfg"].hosts.append("failover-of-i1")
                    await gate(f"{tag}:first")
                    return A(uid=1)

                async def second(self, ctx, ev, inv, **res):  # noqa: ANN001
                    got[tag].append(res["cfg"])
                    return StopEvent(result=list(res["cfg"].hosts))

                ann = {"cfg": Annotated[Settings, ResourceConfig(config_file=path, path_selector="pool")]}
                return make_workflow("CfgWf", [make_step("first", [StartEvent], [A], first, extra_params=ann),
                                               make_step("second", [A], [StopEvent], second, extra_params=ann)])

            cls1, cls2 = mk("i1"), mk("i2")
            rt = MonRuntime(BasicRuntime())
            h1 = cls1(timeout=None, runtime=rt).run(run_id="r1")
            h2 = cls2(timeout=None, runtime=rt).run(run_id="r2")
            e.cfg.stop_when = lambda hh: h1.is_done() and h2.is_done()
            e.drive()
            out1, out2 = task_outcome(h1._result_task), task_outcome(h2._result_task)
        v: list[Any] = []
        w = {"mode": "config_two_instances", "first_instance_mutates": mutate_first}
        if out1[0] != "result" or out2[0] != "result":
            v.append(("run_failed", w, f"runs ended {out1} / {out2}"))
        else:
            for tag in ("i1", "i2"):
                if len(got[tag]) == 2 and got[tag][0] is not got[tag][1]:
                    v.append(("cached_resource_created_more_than_once", w, f"instance {tag}: its two steps received two different settings objects"))
            if got["i1"] and got["i2"] and got["i1"][0] is got["i2"][0]:
                v.append(("cached_resource_shared_between_workflow_instances", w, "both workflow instances were handed the same settings object"))
            r2 = getattr(out2[1], "result", out2[1])
            if r2 != ["primary"]:
                v.append(("cached_resource_shared_between_workflow_instances", w, f"the second instance saw hosts {r2}, the file says ['primary']"))
        return {"o": [out1[0], out2[0]], "_metrics": {"max_concurrency": 2}}, v
    finally:
        import shutil as _sh

        _sh.rmtree(d, ignore_errors=True)


def programs(tier: str) -> list[Program]:
    ps = []
    for mf in (False, True):
        ps.append(Program(f"config_two_instances(mutate_first={mf})", {"mode": "config_two_instances", "mutate_first": mf},
                          (lambda ex, mf=mf: execute_config_two_instances(ex, mf)), max_dev=3, min_concurrency=0))
    for which in ("cycle2", "cycle1", "chain"):
        ps.append(Program(f"string_annotations/{which}", {"graph": which, "mode": "string_annotations"},
                          (lambda ex, which=which: execute_string_annotations(ex, which)), min_concurrency=0))
    for gname, (graph, inject) in THREE_FAIL.items():
        ps.append(Program(f"{gname}/three_fail", {"graph": gname, "mode": "three_fail"},
                          (lambda ex, graph=graph, inject=inject: execute(ex, graph, inject, "three_fail", False)),
                          max_dev=(None if tier != "quick" else 4)))
    for gname, (graph, inject) in THREE.items():
        ps.append(Program(f"{gname}/three", {"graph": gname, "mode": "three"},
                          (lambda ex, graph=graph, inject=inject: execute(ex, graph, inject, "three", False)),
                          max_dev=(None if tier != "quick" else 4)))
    for gname, (graph, inject, cyclic) in GRAPHS.items():
        for mode in ("two_steps", "two_workers", "staggered_steps", "staggered_workers"):
            ps.append(Program(f"{gname}/{mode}", {"graph": gname, "mode": mode},
                              (lambda ex, graph=graph, inject=inject, mode=mode, cyclic=cyclic:
                               execute(ex, graph, inject, mode, cyclic)),
                              max_dev=(None if tier != "quick" else 5),
                              min_concurrency=0))
    return ps


RULE = ("dependency graphs over <=3 resources (sync/async factories with an inner suspension point, cached / "
        "non-cached, values that are falsy when created, one factory declared with both flags, shared sub-dependency, 1-, 2- and 3-cycles) injected into two steps that overlap and into two "
        "invocations of a num_workers=2 step, and resolutions that follow one that raised (factory with a transient fault, step "
        "retried) x all interleavings of factory and step suspension points; factory call "
        "counts, identities of injected objects and cycle errors are compared with the documented caching rules; "
        "non-trivial = at least one schedule deviation")
from vmc.tables import _ROUND6 as _R6  # noqa: E402

RULE += _R6["C22"]
from vmc.tables import _ROUND7 as _R7  # noqa: E402

RULE += _R7["C22"]
from vmc.tables import _ROUND8 as _R8  # noqa: E402

RULE += _R8["C22"]



def run(tier: str, seed: int) -> Any:
    return run_programs(PID, programs(tier), RULE, seed, assumptions=ENGINE_ASSUMPTIONS)


def replay(rec: dict[str, Any]) -> tuple[bool, str]:
    return replay_program(programs("thorough"), rec)

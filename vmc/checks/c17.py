"""C17 - the client's auto-reconnecting event stream delivers each event once.

The real WorkflowClient.get_workflow_events runs over httpx.MockTransport on the virtual loop; every response body is
produced by the real server code (_WorkflowAPI._stream_events over a MemoryWorkflowStore) for the cursor the client
asked for, and is cut with httpx.ReadError at EVERY byte offset (1 drop), at every pair of offsets (2 consecutive
drops, smaller configurations), for several chunkings, with heartbeat comments interleaved, plus 1..4 consecutive
connection failures (the reconnect limit).
"""
from __future__ import annotations

import asyncio
from datetime import datetime, timezone
from typing import Any
from urllib.parse import parse_qs, urlparse

import httpx

from vmc import bootstrap

bootstrap.setup(("llama_agents.server",))

import logging  # noqa: E402

logging.getLogger("llama_agents").setLevel(logging.ERROR)
logging.getLogger("httpx").setLevel(logging.ERROR)

from vmc.checks.grid import run_grid  # noqa: E402
from vmc.loop import VLoop  # noqa: E402
from llama_agents.client.client import WorkflowClient  # noqa: E402
from llama_agents.client.protocol.serializable_events import EventEnvelopeWithMetadata  # noqa: E402
from llama_agents.server import _api as api_mod  # noqa: E402
from llama_agents.server._store.abstract_workflow_store import PersistentHandler  # noqa: E402
from llama_agents.server._store.memory_workflow_store import MemoryWorkflowStore  # noqa: E402
from starlette.exceptions import HTTPException  # noqa: E402
from starlette.requests import Request  # noqa: E402
from workflows.events import Event, StepState, StepStateChanged, StopEvent  # noqa: E402

PID = "C17"


class _Svc:
    def __init__(self, store: Any) -> None:
        self.store = store

    def get_workflow(self, name: str) -> Any:
        return None


def envelope(kind: str, i: int) -> EventEnvelopeWithMetadata:
    if kind == "s":
        return EventEnvelopeWithMetadata.from_event(StopEvent(result=f"done{i}"))
    if kind == "i":
        return EventEnvelopeWithMetadata.from_event(StepStateChanged(name="s", step_state=StepState.RUNNING, worker_id="0",
                                                                     input_event_name="E", context_state=None))
    return EventEnvelopeWithMetadata.from_event(Event(n=i, text="é\nx"))


class Cut(httpx.AsyncByteStream):
    def __init__(self, body: bytes, cut: int | None, chunk: int) -> None:
        self.body, self.cut, self.chunk = body, cut, chunk

    async def __aiter__(self) -> Any:
        end = len(self.body) if self.cut is None else self.cut
        pos = 0
        while pos < end:
            nxt = min(end, pos + self.chunk) if self.chunk else end
            yield self.body[pos:nxt]
            pos = nxt
        if self.cut is not None:
            raise httpx.ReadError("connection dropped")

    async def aclose(self) -> None:
        pass


def run_client(kinds: str, cursor: int, include_internal: bool, cuts: list[int | None], chunk: int, heartbeats: bool,
               connect_failures: int = 0, max_attempts: int = 3) -> dict[str, Any]:
    """cuts[j] = byte offset at which the j-th *successful* response is cut (None = delivered completely)."""
    loop = VLoop()
    loop.install()
    try:
        store = MemoryWorkflowStore()
        api = api_mod._WorkflowAPI(_Svc(store))  # type: ignore[arg-type]
        out: dict[str, Any] = {"yielded": [], "last_seq_at_yield": [], "error": None, "requests": [], "body_lens": []}

        async def setup() -> None:
            await store.update(PersistentHandler(handler_id="h1", workflow_name="wf", status="completed", run_id="r1",
                                                 started_at=datetime(2026, 1, 1, tzinfo=timezone.utc)))
            for i, k in enumerate(kinds):
                await store.append_event("r1", envelope(k, i))

        state = {"responses": 0, "fail": connect_failures}

        async def handler(request: httpx.Request) -> httpx.Response:
            q = parse_qs(urlparse(str(request.url)).query)
            out["requests"].append(q.get("after_sequence", ["?"])[0])
            if state["fail"] > 0:
                state["fail"] -= 1
                raise httpx.ConnectError("connection refused")
            req = Request(path_params={"handler_id": "h1"}, query_params={k: v[0] for k, v in q.items()},
                          headers=dict(request.headers))
            try:
                resp = await api._stream_events(req)
            except HTTPException as e:
                return httpx.Response(e.status_code)
            chunks = []
            async for ch in resp.body_iterator:
                chunks.append(ch)
                if heartbeats:
                    chunks.append(": heartbeat\n\n")
            body = "".join(chunks).encode()
            j = state["responses"]
            state["responses"] += 1
            cut = cuts[j] if j < len(cuts) else None
            out["body_lens"].append(len(body))
            if cut is not None and cut > len(body):
                cut = None
            return httpx.Response(200, headers={"content-type": "text/event-stream"}, stream=Cut(body, cut, chunk))

        async def main() -> None:
            await setup()
            client = WorkflowClient(httpx_client=httpx.AsyncClient(transport=httpx.MockTransport(handler), base_url="http://t"))
            stream = client.get_workflow_events("h1", include_internal_events=include_internal, after_sequence=cursor,
                                                max_reconnect_attempts=max_attempts)
            try:
                async for ev in stream:
                    out["yielded"].append((ev.type, ev.value.get("_data", {}).get("n") if isinstance(ev.value, dict) else None))
                    out["last_seq_at_yield"].append(stream.last_sequence)
            except BaseException as e:  # noqa: BLE001
                out["error"] = type(e).__name__

        t = loop.create_task(main())
        for _ in range(50):
            loop.drain()
            if t.done():
                break
            if loop.has_timers():
                loop.fire_timers(0)
            else:
                break
        out["finished"] = t.done()
        if t.done() and not t.cancelled() and t.exception() is not None:
            out["error"] = "task:" + type(t.exception()).__name__
        return out
    finally:
        loop.teardown()


def expected(kinds: str, cursor: int, include_internal: bool) -> list[int]:
    out = []
    for s in range(max(cursor + 1, 0), len(kinds)):
        if include_internal or kinds[s] != "i":
            out.append(s)
        if kinds[s] == "s":
            break
    return out


def check(kinds: str, cursor: int, inc: bool, cuts: list[int | None], chunk: int, hb: bool, fails: int = 0) -> tuple[list[Any], dict[str, Any]]:
    o = run_client(kinds, cursor, inc, cuts, chunk, hb, connect_failures=fails)
    want = expected(kinds, cursor, inc)
    want_types = [{"e": "Event", "i": "StepStateChanged", "s": "StopEvent"}[kinds[s]] for s in want]
    v: list[Any] = []
    w = {"drops": sum(c is not None for c in cuts), "connect_failures": fails, "include_internal": inc, "heartbeats": hb}
    desc = f"kinds={kinds} cursor={cursor} internal={inc} cuts={cuts} chunk={chunk} hb={hb} fails={fails} requests={o['requests']}"
    if not o["finished"]:
        v.append(("client_stream_hangs", w, f"{desc}: iteration never finished"))
        return v, o
    if fails > 3:
        if o["error"] != "ConnectionError":
            v.append(("no_error_beyond_reconnect_limit", w, f"{desc}: expected ConnectionError, got error={o['error']} yielded={o['last_seq_at_yield']}"))
        return v, o
    if o["error"] is not None:
        v.append(("client_stream_raises", {**w, "exc": o["error"]}, f"{desc}: raised {o['error']} after {o['last_seq_at_yield']}"))
        return v, o
    got_types = [t for t, _ in o["yielded"]]
    if o["last_seq_at_yield"] != want or got_types != want_types:
        seqs = o["last_seq_at_yield"]
        kind = ("duplicate" if len(set(seqs)) < len(seqs) else "missing" if set(seqs) < set(want) else "wrong")
        v.append(("events_not_delivered_exactly_once", {**w, "kind": kind},
                  f"{desc}: yielded sequences {seqs} types {got_types}; expected {want} {want_types}"))
    return v, o


def work(case: Any) -> Any:
    kinds, cursor, inc, chunk, hb, mode = case
    v: list[Any] = []
    n = 0
    nontriv = 0
    # the uninterrupted run gives the first body length
    vv, o0 = check(kinds, cursor, inc, [], chunk, hb)
    n += 1
    v += vv
    L0 = o0["body_lens"][0] if o0["body_lens"] else 0
    if mode == "fails":
        for f in (1, 2, 3, 4):
            vv, _ = check(kinds, cursor, inc, [], chunk, hb, fails=f)
            n += 1
            nontriv += 1
            v += vv
            for c0 in range(0, L0 + 1, max(1, L0 // 7)):
                # a drop after some successful traffic resets the attempt counter: 3 more failures must be survived
                pass
    else:
        for c0 in range(0, L0 + 1):
            vv, o1 = check(kinds, cursor, inc, [c0], chunk, hb)
            n += 1
            nontriv += 1
            v += vv
            if mode == "double" and len(o1["body_lens"]) > 1:
                L1 = o1["body_lens"][1]
                for c1 in range(0, L1 + 1):
                    vv, _ = check(kinds, cursor, inc, [c0, c1], chunk, hb)
                    n += 1
                    nontriv += 1
                    v += vv
    seen = set()
    out = []
    for c, w, d in v:
        key = (c, repr(sorted(w.items())))
        if key not in seen:
            seen.add(key)
            out.append((c, w, d, None))
    return n, nontriv, out, {"case": list(case), "first_body_bytes": L0, "client_runs": n}, n * 3


RULE = ("streams of 1-4 events (with/without internal events, StopEvent last) in a real MemoryWorkflowStore, served by the real "
        "_WorkflowAPI._stream_events for whatever cursor the client sends; the real WorkflowClient.get_workflow_events over "
        "httpx.MockTransport with httpx.ReadError injected at every byte offset of the response (1 drop; 2 consecutive drops at "
        "every pair of offsets for the smaller configurations), chunk sizes 1 / 7 / whole body, heartbeat comments interleaved, "
        "every numeric start cursor, and 1-4 consecutive connection failures; yielded events and last_sequence at every yield "
        "compared with 'each event after the cursor once, in order'; non-trivial = runs with at least one injected fault")


def cases(tier: str) -> list[Any]:
    q = tier == "quick"
    cs: list[Any] = []
    for kinds in (("s", "es", "eis", "eies") if q else ("s", "es", "ees", "eis", "ies", "eies", "eeis")):
        for cursor in range(-1, len(kinds)):
            for inc in (True, False):
                for chunk in (0, 1, 7):
                    for hb in (False, True):
                        if q and (chunk == 7 or (hb and chunk == 1)) and len(kinds) > 2:
                            continue
                        cs.append((kinds, cursor, inc, chunk, hb, "single"))
                cs.append((kinds, cursor, inc, 0, False, "fails"))
    for kinds in (("es",) if q else ("es", "eis", "ees")):
        for cursor in (-1, 0):
            for chunk in ((0,) if q else (0, 1)):
                cs.append((kinds, cursor, True, chunk, False, "double"))
    return cs


def run(tier: str, seed: int) -> Any:
    return run_grid(PID, RULE, cases(tier), work, seed=seed, chunksize=1, assumptions=[
        "the transport is httpx.MockTransport; a dropped connection is httpx.ReadError raised by the response byte stream "
        "after the chosen number of bytes; connection failures are httpx.ConnectError",
        "response bodies come from the real server handler over the stand-in Request holder (no ASGI transport)",
        "numeric start cursors (the property's scope); the run is complete (StopEvent recorded, handler completed)"],
        extra={"configurations": len(cases(tier))})


def replay(rec: dict[str, Any]) -> tuple[bool, str]:
    _, _, v, _, _ = work(tuple(rec["case"]))
    return (not v), f"case={rec['case']}\n" + "\n".join(f"VIOLATED {c} {w}: {d}" for c, w, d, _ in v)

"""MANIFEST.setup_cmd: nothing to build; verify interpreters, sources and stand-ins."""
import os
import sys


def main() -> int:
    os.environ.setdefault("PYTHONDONTWRITEBYTECODE", "1")
    sys.dont_write_bytecode = True
    from vmc import bootstrap

    bootstrap.setup()
    import workflows  # noqa: F401
    from workflows.runtime import control_loop  # noqa: F401
    import pydantic  # noqa: F401

    print("vmc setup ok: python", sys.version.split()[0], "repo", bootstrap.REPO)
    conda = "/root/miniconda/bin/python"
    print("C33 interpreter (cryptography):", conda, "present" if os.path.exists(conda) else "MISSING - C33 will exit 2 (not runnable)")
    for d in ("evidence", "replays"):
        os.makedirs(os.path.join(bootstrap.VERIF, d), exist_ok=True)
    return 0


if __name__ == "__main__":
    sys.exit(main())

"""C02 - every emitted event reaches each accepting step exactly once."""
from __future__ import annotations

from collections import Counter
from typing import Any

from vmc.checks.common import replay_program, run_programs
from vmc.engine import Action, gate, make_step, make_workflow
from vmc.events import A, Ab, Ask, B, C, Done, Resp, Work
from vmc.progs import ENGINE_ASSUMPTIONS, Oracle, Spec, to_programs
from workflows.events import InputRequiredEvent, StartEvent, StopEvent, UnhandledEvent
from workflows.runtime.types.ticks import TickAddEvent

PID = "C02"


def _accepts(h: Any) -> dict[str, list[type]]:
    return {n: list(f._step_config.accepted_events) for n, f in h.workflow._get_steps().items()}


def on_tick(h: Any, tick: Any, adapter: Any) -> None:
    """(a) per processed add-event tick: the runner-state delta equals the dict-router reference"""
    if not isinstance(tick, TickAddEvent):
        return
    r = h.runners[-1]
    if h.pre_runner is not r or h.pre_state is None:
        return
    if tick.attempts:
        # a retry is a re-queue for the step that failed, not a new emission: nobody else may see the event again
        for name in _accepts(h):
            pre_ws, post_ws = h.pre_state.workers[name], r.state.workers[name]
            n_pre = sum(1 for a in pre_ws.queue if a.event is tick.event) + sum(1 for ip in pre_ws.in_progress if ip.event is tick.event)
            n_post = sum(1 for a in post_ws.queue if a.event is tick.event) + sum(1 for ip in post_ws.in_progress if ip.event is tick.event)
            want = 1 if name == tick.step_name else 0
            resolved = [w for w in post_ws.collected_waiters if w.resolved_event is tick.event and
                        not any(pw.waiter_id == w.waiter_id and pw.resolved_event is tick.event for pw in pre_ws.collected_waiters)]
            if n_post - n_pre != want or (resolved and name != tick.step_name):
                h.violate("retry_delivered_beyond_the_failed_step", {"retry_addressed": tick.step_name is not None},
                          f"retry tick of {type(tick.event).__name__} (attempt {tick.attempts}, step {tick.step_name!r}) -> step {name}: "
                          f"delivered {n_post - n_pre}x, expected {want}x; waiters resolved {[w.waiter_id for w in resolved]}")
        return
    ev, target = tick.event, tick.step_name
    acc = _accepts(h)
    any_handled = False
    for name in acc:
        pre_ws, post_ws = h.pre_state.workers[name], r.state.workers[name]

        def cnt(ws: Any, e: Any) -> int:
            return sum(1 for a in ws.queue if a.event is e) + sum(1 for ip in ws.in_progress if ip.event is e)

        delta = cnt(post_ws, ev) - cnt(pre_ws, ev)
        waiting = [w for w in pre_ws.collected_waiters
                   if w.resolved_event is None and not getattr(w, "timed_out", False)  # (a wait whose timeout has fired is over)
                   and w.waiting_for_event is type(ev)
                   and all(getattr(ev, k, None) == v for k, v in w.requirements.items())
                   and (w.requirements or not w.has_requirements)]
        addressed = target is None or target == name
        already = [w for w in pre_ws.collected_waiters
                   if w.resolved_event is not None and w.waiting_for_event is type(ev)]
        if already and addressed:
            # the step's wait was already satisfied but its replay has not finished: the property
            # does not say whether a further matching event is an input or ignored -> not compared
            # (duplicate resumption is C10's subject)
            any_handled = True
            continue
        if waiting and addressed:
            want = 0  # received as wait result, not as new input
            any_handled = True
            resolved = [w for w in post_ws.collected_waiters if w.resolved_event is ev]
            if not resolved:
                h.violate("waiter_not_resolved", {"step": name}, f"{type(ev).__name__} should resolve a waiter of {name}")
            else:
                h.c02_accepted_as_wait_result = getattr(h, "c02_accepted_as_wait_result", []) + [(name, resolved[0].waiter_id, ev)]
        else:
            want = 1 if (type(ev) in acc[name] and addressed) else 0
            any_handled = any_handled or bool(want)
            stolen = [w for w in post_ws.collected_waiters if w.resolved_event is ev and
                      not any(pw.waiter_id == w.waiter_id and pw.resolved_event is ev for pw in pre_ws.collected_waiters)]
            if stolen and not addressed:
                h.violate("targeted_event_resolves_waiter_of_other_step",
                          {"emission": "targeted", "waiter_step_accepts_type": type(ev) in acc[name]},
                          f"{type(ev).__name__} addressed to step {target!r} resolved waiter "
                          f"{stolen[0].waiter_id} of step {name}")
        if delta != want:
            h.violate("routing_delta", {"want": want, "got": delta, "targeted": target is not None,
                                        "accepts": type(ev) in acc[name]},
                      f"tick {type(ev).__name__}(target={target}) -> step {name}: delivered {delta}x, expected {want}x")
    h.c02_emissions = getattr(h, "c02_emissions", [])
    h.c02_emissions.append((ev, target, any_handled))


def final(h: Any, e: Any, state: dict[str, Any]) -> None:
    acc = _accepts(h)
    # (b1) no body ever sees a type its step does not accept
    for inv in h.invocations:
        if type(inv.ev) not in acc[inv.step]:
            h.violate("delivered_to_non_accepting_step", {"step": inv.step, "type": type(inv.ev).__name__},
                      f"step {inv.step} was invoked with {type(inv.ev).__name__}")
    out = state["hd"]._result_task
    finished = out.done() and not out.cancelled() and out.exception() is None
    if not finished:
        h.violate("run_did_not_complete", {}, f"run outcome {out} stuck={e.stuck}: some delivery never happened "
                                               f"(trace {h.trace})")
        return
    # (b2) behavioural exactly-once: new-input entries per (step, event)
    entries: Counter = Counter()
    waiting_pairs = set()
    failed_pairs = set()
    for inv in h.invocations:
        key = (inv.step, id(inv.ev))
        # a retry is the re-run of an input on which THIS step failed before; anything else is a new entry
        is_retry = getattr(inv.retry, "retry_number", 0) > 0 and key in failed_pairs
        if inv.exc is not None and type(inv.exc).__name__ != "WaitingForEvent":
            failed_pairs.add(key)
        if key in waiting_pairs:  # replay of a step that was waiting on this input
            continue
        if not is_retry:
            entries[key] += 1
        if type(inv.exc).__name__ == "WaitingForEvent":
            waiting_pairs.add(key)
    for ev, target, _handled in getattr(h, "c02_emissions", []):
        for name in acc:
            want = 1 if (type(ev) in acc[name] and (target is None or target == name)) else 0
            if name in h.c02_waiter_steps and type(ev) in h.c02_wait_types:
                continue  # judged by the per-tick oracle (wait result vs input)
            got = entries.get((name, id(ev)), 0)
            if got != want:
                h.violate("delivery_count", {"want": want, "got": got, "targeted": target is not None},
                          f"{type(ev).__name__}#{getattr(ev, 'uid', '')} (target={target}) entered step {name} {got}x, expected {want}x")
    # (b2') an event RETURNED by a step is an emission like any other: it must have been routed (one add-event tick)
    from workflows.events import Event as _Event

    routed = {id(ev) for ev, _t, _h in getattr(h, "c02_emissions", [])}
    for inv in h.invocations:
        if inv.exited and inv.exc is None and isinstance(inv.result, _Event) and not isinstance(inv.result, StopEvent) \
                and id(inv.result) not in routed:
            h.violate("returned_event_never_routed", {"type_kind": "InputRequiredEvent" if isinstance(inv.result, InputRequiredEvent) else "plain"},
                      f"step {inv.step} returned {type(inv.result).__name__}#{getattr(inv.result, 'uid', '')}, but it was never handed to the steps")
    # (b2'') an event accepted as a step's wait result is what that step's wait_for_event returns
    if h.spec.params.get("records_wait_results"):
        for name, wid, ev in getattr(h, "c02_accepted_as_wait_result", []):
            got = [r for w, r in WAIT_RESULTS if w == wid]
            if not any(r is ev for r in got):
                h.violate("wait_result_not_received", {"step": name, "got": "TimeoutError" if "TimeoutError" in got else ("nothing" if not got else "another_event")},
                          f"{type(ev).__name__}#{getattr(ev, 'uid', '')} resolved wait {wid!r} of step {name}, but the waiting invocation got {got!r} from wait_for_event")
    # (b3) one UnhandledEvent per unroutable event, none for InputRequiredEvent
    unh = Counter(u.event_type for u in h.published if isinstance(u, UnhandledEvent))
    want_unh: Counter = Counter()

    for ev, target, handled in getattr(h, "c02_emissions", []):
        if not handled and not isinstance(ev, InputRequiredEvent):
            want_unh[type(ev).__name__] += 1
    if unh != want_unh:
        h.violate("unhandled_event_reports", {"want": dict(want_unh), "got": dict(unh)},
                  f"UnhandledEvent reports {dict(unh)}, expected {dict(want_unh)}")


# ------------------------------------------------------------------------------- programs
def wf_multi(n_done: int, with_waiter: str | None = None) -> type:
    async def start(self, ctx, ev, inv):  # noqa: ANN001
        ctx.send_event(A(uid=1))            # broadcast -> sa1, sa2
        ctx.send_event(Ab(uid=2))           # subclass of A: nobody accepts exactly Ab -> unhandled
        ctx.send_event(B(uid=3), step="sb1")  # targeted: sb1 only (sa2 also accepts B)
        if with_waiter:
            ctx.send_event(Work(uid=7))
        await gate("start")
        return C(uid=4)                     # returned -> sc

    def consumer(name: str) -> Any:
        async def body(self, ctx, ev, inv):  # noqa: ANN001
            await gate(f"{name}:{type(ev).__name__}{ev.uid}")
            return Done(uid=ev.uid)

        return body

    async def sc(self, ctx, ev, inv):  # noqa: ANN001
        await gate("sc")
        ctx.send_event(Done(uid=ev.uid))
        return Ask(uid=40)  # InputRequiredEvent nobody accepts: published, never "unhandled"

    async def sw(self, ctx, ev, inv):  # noqa: ANN001
        if isinstance(ev, Resp):  # Resp delivered as a NEW input (sw accepts Resp too)
            await gate(f"sw:Resp{ev.uid}")
            return Done(uid=200 + ev.uid)
        req = {"key": "k"} if with_waiter == "req" else None
        r = await ctx.wait_for_event(Resp, timeout=None, waiter_id="w", requirements=req)
        await gate("sw")
        return Done(uid=100 + r.uid)

    async def sr(self, ctx, ev, inv):  # noqa: ANN001
        await gate(f"sr{ev.uid}")
        return Done(uid=ev.uid)

    async def fin(self, ctx, ev, inv):  # noqa: ANN001
        r = ctx.collect_events(ev, [Done] * n_done)
        if r is None:
            return None
        return StopEvent(result=sorted(e.uid for e in r))

    steps = [
        make_step("start", [StartEvent], [C, A, B] + ([Work, Resp] if with_waiter else []), start),
        make_step("sa1", [A], [Done], consumer("sa1"), num_workers=1),
        make_step("sa2", [A, B], [Done], consumer("sa2"), num_workers=2),
        make_step("sb1", [B], [Done], consumer("sb1"), num_workers=1),
        make_step("sc", [C], [Ask, Done], sc),
        make_step("fin", [Done], [StopEvent, None], fin, num_workers=1),
    ]
    if with_waiter:
        steps.append(make_step("sw", [Work, Resp], [Done], sw, num_workers=1))
        steps.append(make_step("sr", [Resp], [Done], sr, num_workers=1))
    return make_workflow("Multi", steps)


def wf_equal(k: int, w: int, ext: int = 0) -> type:
    """k (+ext external) field-for-field equal events for a step with fewer workers: equal events wait in the
    step queue together"""
    async def start(self, ctx, ev, inv):  # noqa: ANN001
        for _ in range(k):
            ctx.send_event(Work(uid=0))
        return None

    async def work(self, ctx, ev, inv):  # noqa: ANN001
        await gate(f"work#{len([i for i in inv_log if i is not None])}")
        return Done(uid=0)

    inv_log: list[Any] = []

    async def fin(self, ctx, ev, inv):  # noqa: ANN001
        r = ctx.collect_events(ev, [Done] * (k + ext))
        if r is None:
            return None
        return StopEvent(result=len(r))

    return make_workflow("Equal", [
        make_step("start", [StartEvent], [Work, None], start),
        make_step("work", [Work], [Done], work, num_workers=w),
        make_step("fin", [Done], [StopEvent, None], fin, num_workers=1),
    ])


def wf_pool_wait(k: int, w: int) -> type:
    """a pool step (num_workers=w < k events) whose LAST input suspends in wait_for_event while siblings are still in
    flight: slots are freed and re-used out of start order, and the wait result must go to the invocation that waits"""
    async def start(self, ctx, ev, inv):  # noqa: ANN001
        for i in range(k):
            ctx.send_event(Work(uid=i))
        return None

    async def work(self, ctx, ev, inv):  # noqa: ANN001
        if ev.uid == k - 1:
            r = await ctx.wait_for_event(Resp, timeout=None, waiter_id="wp")
            await gate(f"work{ev.uid}:after-wait")
            return Done(uid=100 + r.uid)
        await gate(f"work{ev.uid}")
        return Done(uid=ev.uid)

    async def fin(self, ctx, ev, inv):  # noqa: ANN001
        r = ctx.collect_events(ev, [Done] * k)
        if r is None:
            return None
        return StopEvent(result=sorted(e.uid for e in r))

    return make_workflow("PoolWait", [
        make_step("start", [StartEvent], [Work, None], start),
        make_step("work", [Work], [Done], work, num_workers=w),
        make_step("fin", [Done], [StopEvent, None], fin, num_workers=1),
    ])


WAIT_RESULTS: list[tuple[str, Any]] = []  # (waiter id, what wait_for_event gave the waiting invocation) of the current execution


def wf_wait_behind_busy(timeout: float) -> type:
    """a single-worker step: its first input waits for Resp (with a timeout), its second input then keeps the only slot
    busy; the answer arrives in time, so the waiting invocation's re-entry is queued behind the busy one - and the wait's
    timeout elapses while it is still queued.  The answer was accepted as the wait result and must be what the wait returns"""
    WAIT_RESULTS.clear()  # (the workflow class is built anew for every execution)

    async def start(self, ctx, ev, inv):  # noqa: ANN001
        ctx.send_event(Work(uid=0))
        ctx.send_event(Work(uid=1))
        return None

    async def work(self, ctx, ev, inv):  # noqa: ANN001
        if ev.uid == 0:
            try:
                r = await ctx.wait_for_event(Resp, timeout=timeout, waiter_id="wb")
            except TimeoutError:
                WAIT_RESULTS.append(("wb", "TimeoutError"))
                return Done(uid=-1)
            WAIT_RESULTS.append(("wb", r))
            return Done(uid=100 + r.uid)
        await gate(f"work{ev.uid}")
        return Done(uid=ev.uid)

    async def fin(self, ctx, ev, inv):  # noqa: ANN001
        r = ctx.collect_events(ev, [Done] * 2)
        if r is None:
            return None
        return StopEvent(result=sorted(e.uid for e in r))

    return make_workflow("WaitBehindBusy", [
        make_step("start", [StartEvent], [Work, None], start),
        make_step("work", [Work], [Done], work, num_workers=1),
        make_step("fin", [Done], [StopEvent, None], fin, num_workers=1),
    ])


def wf_pool_wait_requirements(k: int, w: int) -> type:
    """every invocation of a pool step waits for ITS OWN answer (requirements key = its uid) and leaves the waiter id to the
    library (default id): the waits are different waits, each answer must reach the invocation that asked for it"""
    async def start(self, ctx, ev, inv):  # noqa: ANN001
        for i in range(k):
            ctx.send_event(Work(uid=i))
        return None

    async def work(self, ctx, ev, inv):  # noqa: ANN001
        r = await ctx.wait_for_event(Resp, requirements={"key": str(ev.uid)}, timeout=None)
        WAIT_RESULTS.append((f"req{ev.uid}", r))
        return Done(uid=100 * ev.uid + r.uid)

    async def fin(self, ctx, ev, inv):  # noqa: ANN001
        r = ctx.collect_events(ev, [Done] * k)
        if r is None:
            return None
        return StopEvent(result=sorted(e.uid for e in r))

    WAIT_RESULTS.clear()
    return make_workflow("PoolWaitReq", [
        make_step("start", [StartEvent], [Work, None], start),
        make_step("work", [Work], [Done], work, num_workers=w),
        make_step("fin", [Done], [StopEvent, None], fin, num_workers=1),
    ])


def pool_req_scripts(k: int) -> Any:
    def mk(state: dict[str, Any]) -> list[list[Action]]:
        return [[Action(f"ext Resp key={i}", (lambda i=i: state["hd"].ctx.send_event(Resp(uid=7 + i, key=str(i)))))] for i in range(k)]

    return mk


def wf_retry_siblings() -> type:
    """a step with a retry policy fails on the first attempt of every input while a sibling accepts the same type: the
    re-queued input is for the failed step only (one input was broadcast, one was addressed to the flaky step)"""
    from workflows.retry_policy import retry_policy, stop_after_attempt, wait_fixed

    async def start(self, ctx, ev, inv):  # noqa: ANN001
        ctx.send_event(Work(uid=1))
        ctx.send_event(Work(uid=2), step="flaky")
        return None

    async def flaky(self, ctx, ev, inv):  # noqa: ANN001
        n = ctx.retry_info().retry_number
        await gate(f"flaky{ev.uid}#{n}")
        if n == 0:
            raise RuntimeError(f"first attempt of Work{ev.uid}")
        return Done(uid=ev.uid)

    async def steady(self, ctx, ev, inv):  # noqa: ANN001
        await gate(f"steady{ev.uid}")
        return Done(uid=10 + ev.uid)

    async def fin(self, ctx, ev, inv):  # noqa: ANN001
        r = ctx.collect_events(ev, [Done] * 3)
        if r is None:
            return None
        await gate("fin")
        return StopEvent(result=sorted(e.uid for e in r))

    return make_workflow("RetrySiblings", [
        make_step("start", [StartEvent], [Work, None], start),
        make_step("flaky", [Work], [Done], flaky, num_workers=2, retry_policy=retry_policy(wait=wait_fixed(0), stop=stop_after_attempt(3))),
        make_step("steady", [Work], [Done], steady, num_workers=1),
        make_step("fin", [Done], [StopEvent, None], fin, num_workers=1),
    ])


def wf_request_consumed(waiter: bool) -> type:
    """a step RETURNS an InputRequiredEvent subclass that another step accepts (or, ``waiter``, waits for): it is a request for
    the outside world on the stream AND an ordinary event for the steps that take it"""
    async def start(self, ctx, ev, inv):  # noqa: ANN001
        if waiter:
            ctx.send_event(Work(uid=1))
        await gate("start")
        return Ask(uid=7)

    async def auto(self, ctx, ev, inv):  # noqa: ANN001
        await gate(f"auto{ev.uid}")
        return Done(uid=ev.uid)

    async def waits(self, ctx, ev, inv):  # noqa: ANN001
        r = await ctx.wait_for_event(Ask, timeout=None, waiter_id="wa")
        await gate("waits")
        return Done(uid=100 + r.uid)

    async def fin(self, ctx, ev, inv):  # noqa: ANN001
        r = ctx.collect_events(ev, [Done] * (2 if waiter else 1))
        if r is None:
            return None
        return StopEvent(result=sorted(e.uid for e in r))

    steps = [make_step("start", [StartEvent], [Ask, Work] if waiter else [Ask], start),
             make_step("auto", [Ask], [Done], auto),
             make_step("fin", [Done], [StopEvent, None], fin, num_workers=1)]
    if waiter:
        steps.append(make_step("waits", [Work], [Done], waits))
    return make_workflow("RequestConsumed", steps)


def pool_wait_scripts(state: dict[str, Any]) -> list[list[Action]]:
    return [[Action("ext Resp9 broadcast", lambda: state["hd"].ctx.send_event(Resp(uid=9)))]]


def equal_ext_scripts(n: int) -> Any:
    def mk(state: dict[str, Any]) -> list[list[Action]]:
        return [[Action(f"ext Work0 (equal) #{i}", lambda: state["hd"].ctx.send_event(Work(uid=0)))] for i in range(n)]

    return mk


def ext_scripts(state: dict[str, Any]) -> list[list[Action]]:
    return [
        [Action("ext B5 broadcast", lambda: state["hd"].ctx.send_event(B(uid=5)))],
        [Action("ext A6 -> sa2", lambda: state["hd"].ctx.send_event(A(uid=6), step="sa2"))],
    ]


def waiter_scripts(targeted_first: bool) -> Any:
    def mk(state: dict[str, Any]) -> list[list[Action]]:
        sc = []
        if targeted_first:
            sc.append(Action("ext Resp8 -> sr (targeted)", lambda: state["hd"].ctx.send_event(Resp(uid=8), step="sr")))
        sc.append(Action("ext Resp9 broadcast", lambda: state["hd"].ctx.send_event(Resp(uid=9))))
        return [sc]

    return mk


def req_waiter_scripts(state: dict[str, Any]) -> list[list[Action]]:
    return [[Action("ext Resp8(key=other) broadcast", lambda: state["hd"].ctx.send_event(Resp(uid=8, key="other")))],
            [Action("ext Resp9(key=k) broadcast", lambda: state["hd"].ctx.send_event(Resp(uid=9, key="k")))]]


def _mk_exec(spec: Spec) -> Spec:
    return spec


def specs(tier: str) -> list[Spec]:
    q = tier == "quick"
    sp = [
        # deliveries: A1->sa1,sa2; B3->sb1; C4->sc(+Done); B5->sa2,sb1; A6->sa2  => 7 Done
        Spec("multi_ext", {}, lambda: wf_multi(7), scripts=ext_scripts, max_dev=(2 if q else 4), tags=("multi",)),
        # without external sends: 4 Done
        Spec("multi", {}, lambda: wf_multi(4), max_dev=(3 if q else None), tags=("multi",)),
        # waiter: + Work7->sw (waits), Resp9 -> sw as wait result (sw accepts Resp but must not get it as input),
        # sr gets it as input: Done(109), Done(9) => 6 Done
        Spec("waiter_broadcast", {}, lambda: wf_multi(6, "w"), scripts=waiter_scripts(False),
             max_dev=(2 if q else 4), tags=("waiter",)),
        # targeted Resp8 -> sr only: must not resolve sw's waiter; then Resp9 resolves it => 7 Done
        Spec("waiter_targeted", {}, lambda: wf_multi(7, "w"), scripts=waiter_scripts(True),
             max_dev=(2 if q else 4), tags=("waiter", "targeted")),
        # waiter WITH requirements in a step that also accepts the type: a non-matching Resp8 is an ordinary new
        # input for sw (and sr); the matching Resp9 is its wait result (and sr's input).
        # Done: 4 base + sw:Resp8 (208) + sr 8 + sw wait (109) + sr 9 = 8
        Spec("waiter_requirements", {}, lambda: wf_multi(8, "req"), scripts=req_waiter_scripts,
             max_dev=(2 if q else 4), tags=("waiter", "requirements")),
        # field-for-field equal events (distinct objects) queued behind a saturated step
        Spec("equal_events(k=3,w=1)", {}, lambda: wf_equal(3, 1), tags=("equal",)),
        Spec("equal_events(k=4,w=2)", {}, lambda: wf_equal(4, 2), max_dev=(3 if q else None), tags=("equal",)),
        Spec("equal_events_ext(k=2,w=1,ext=2)", {}, lambda: wf_equal(2, 1, 2), scripts=equal_ext_scripts(2),
             max_dev=(3 if q else None), tags=("equal",)),
        Spec("pool_wait(k=3,w=2)", {"waiter_steps": ["work"], "send_when_waiting": True}, lambda: wf_pool_wait(3, 2),
             max_dev=(4 if q else None), tags=("waiter", "pool")),
        Spec("pool_wait(k=4,w=3)", {"waiter_steps": ["work"], "send_when_waiting": True}, lambda: wf_pool_wait(4, 3),
             max_dev=(3 if q else 5), tags=("waiter", "pool")),
        Spec("wait_behind_busy(timeout=5)", {"waiter_steps": ["work"], "send_when_waiting": True, "records_wait_results": True},
             lambda: wf_wait_behind_busy(5.0), max_dev=(3 if q else None), tags=("pool", "waiter", "delay")),
        Spec("pool_wait_own_requirements(k=2,w=2)", {"waiter_steps": ["work"], "answers_when_all_wait": 2}, lambda: wf_pool_wait_requirements(2, 2),
             max_dev=(3 if q else None), tags=("pool", "waiter")),
        Spec("retry_siblings", {"waiter_steps": []}, wf_retry_siblings, max_dev=(3 if q else None), tags=("retry",)),
        Spec("request_event_consumed_by_a_step", {"waiter_steps": []}, lambda: wf_request_consumed(False), tags=("hitl",)),
        Spec("request_event_awaited_by_a_step", {"waiter_steps": ["waits"], "wait_types": ["Ask"]}, lambda: wf_request_consumed(True),
             max_dev=(3 if q else None), tags=("hitl", "waiter")),
    ]
    return sp


def _prep(h: Any) -> None:
    WAIT_RESULTS.clear()


def _oracle() -> Oracle:
    def on_q(h: Any) -> None:
        if not hasattr(h, "c02_waiter_steps"):
            h.c02_waiter_steps = set(h.spec.params.get("waiter_steps", ["sw"]))
            h.c02_wait_types = {Ask} if h.spec.params.get("wait_types") == ["Ask"] else {Resp}
        if h.spec.params.get("answers_when_all_wait") and not getattr(h, "c02_resp_script", False) and h.runners:
            # the client answers once every invocation waits (an answer sent before its waiter exists is dropped by design)
            n_waiting = sum(1 for i in h.invocations if i.step == "work" and type(i.exc).__name__ == "WaitingForEvent")
            if n_waiting >= h.spec.params["answers_when_all_wait"]:
                h.c02_resp_script = True
                for sc in pool_req_scripts(h.spec.params["answers_when_all_wait"])(h.state):
                    h.state["e"].add_script(sc)
        if h.spec.params.get("send_when_waiting") and not getattr(h, "c02_resp_script", False) and h.runners:
            # the client answers once the run waits (an answer sent before the waiter exists is dropped by design)
            if any(ws.collected_waiters for ws in h.runners[-1].state.workers.values()):
                h.c02_resp_script = True
                for sc in pool_wait_scripts(h.state):
                    h.state["e"].add_script(sc)

    return Oracle(on_quiescent=on_q, on_tick=on_tick, final=final)


ORACLE = _oracle()

RULE = ("multi-accept workflow graphs (overlapping exact types, a subclass event, targeted and broadcast "
        "ctx.send_event, returned events, external broadcast/targeted sends, a waiting step that also accepts the "
        "awaited type, field-for-field equal events queued behind a saturated step, a pool step one of whose inputs suspends in "
        "wait_for_event while its siblings free and re-use worker slots out of start order, a step that fails and is retried while a sibling "
        "accepts the same type, an InputRequiredEvent subclass returned by one step and accepted / awaited by another) x all schedules within the stated deviation bound; per processed add-event tick the runner "
        "state delta is compared with a dict router, and body entries / UnhandledEvent reports are counted at the "
        "end (runs end only after a fan-in of every delivery); non-trivial = at least one schedule deviation")
from vmc.tables import _ROUND6 as _R6  # noqa: E402

RULE += _R6["C02"]
from vmc.tables import _ROUND7 as _R7  # noqa: E402

RULE += _R7["C02"]
from vmc.tables import _ROUND8 as _R8  # noqa: E402

RULE += _R8["C02"]



def execute_two_runs(ex: Any, spin_a: int, spin_b: int) -> tuple[Any, list[Any]]:
    """two runs on one event loop (one runtime): run B's step sends two events ``spin_b`` loop iterations after its gate, run A's
    only step returns its StopEvent ``spin_a`` iterations after its gate, and the two gates may be released in the same loop
    iteration - over the spin grid the END of run A falls into every loop iteration around run B's ctx.send_event calls.
    Every event run B's step sent must reach run B's accepting step exactly once, whatever other runs do meanwhile"""
    import asyncio as _aio

    from vmc.engine import BasicRuntime, EngineExec, MonRuntime, RunConfig, task_outcome

    with EngineExec(ex, RunConfig(pair_release=True)) as e:
        rt = MonRuntime(BasicRuntime())
        got: list[int] = []

        async def fan(self, ctx, ev, inv):  # noqa: ANN001
            await gate("B.fan")
            for _ in range(spin_b):
                await _aio.sleep(0)
            ctx.send_event(Work(uid=1))
            ctx.send_event(Work(uid=2))
            return None

        async def sink(self, ctx, ev, inv):  # noqa: ANN001
            got.append(ev.uid)
            r = ctx.collect_events(ev, [Work] * 2)
            if r is None:
                return None
            return StopEvent(result=sorted(x.uid for x in r))

        async def only(self, ctx, ev, inv):  # noqa: ANN001
            await gate("A.only")
            for _ in range(spin_a):
                await _aio.sleep(0)
            return StopEvent(result="a")

        cls_b = make_workflow("RunB", [make_step("fan", [StartEvent], [Work, None], fan), make_step("sink", [Work], [StopEvent, None], sink, num_workers=1)])
        cls_a = make_workflow("RunA", [make_step("only", [StartEvent], [StopEvent], only)])
        ha = cls_a(timeout=None, runtime=rt).run(run_id="ra")
        hb = cls_b(timeout=None, runtime=rt).run(run_id="rb")
        e.cfg.stop_when = lambda hh: ha.is_done() and hb.is_done()
        e.drive()
        v: list[Any] = []
        out_a, out_b = task_outcome(ha._result_task), task_outcome(hb._result_task)
        w = {"runs_on_one_loop": 2}
        desc = f"spin_a={spin_a} spin_b={spin_b} schedule {ex.labels}"
        if sorted(got) != [1, 2]:
            v.append(("delivery_count", {**w, "want": 1, "got": ("0" if len(got) < 2 else ">1")},
                      f"{desc}: run B's step sent Work#1 and Work#2; its accepting step was entered with {got} (run A ended {out_a[0]})"))
        elif out_b[0] != "result" or getattr(out_b[1], "result", out_b[1]) != [1, 2]:
            v.append(("run_did_not_complete", w, f"{desc}: run B ended {out_b}"))
        if out_a[0] != "result":
            v.append(("run_did_not_complete", w, f"{desc}: run A ended {out_a}"))
        return {"got": sorted(got), "_metrics": {"max_concurrency": 2}}, v


def programs(tier: str) -> list[Any]:
    from vmc.checks.common import Program

    ps = to_programs(specs(tier), ORACLE)
    for spin_a in ((0,) if tier == "quick" else (0, 1, 3)):
        for spin_b in range(0, 14 if tier == "quick" else 20):
            ps.append(Program(f"two_runs(spin_a={spin_a},spin_b={spin_b})", {"spin_a": spin_a, "spin_b": spin_b},
                              (lambda ex, sa=spin_a, sb=spin_b: execute_two_runs(ex, sa, sb)), max_dev=3))
    return ps


def run(tier: str, seed: int) -> Any:
    return run_programs(PID, programs(tier), RULE, seed, assumptions=ENGINE_ASSUMPTIONS)


def replay(rec: dict[str, Any]) -> tuple[bool, str]:
    return replay_program(programs("thorough"), rec)

"""C36 - idle runs are released after the idle timeout and reloaded on demand.

In-process stack: a workflow that stores state, then waits for 1-2 external responses, runs on the real
ServerRuntimeDecorator(IdleReleaseDecorator(PersistenceDecorator(BasicRuntime))) + _WorkflowService over a
MemoryWorkflowStore / SqliteWorkflowStore with idle_timeout in {0.5, 5, 60}; each response is sent at an
explorer-chosen point (before the idle timer, in the same loop iteration, after the release); all interleavings of
sends, idle-timer firings and step completions are explored.  DBOS stack: see the DBOS section of this module.
"""
from __future__ import annotations

from typing import Any

from vmc import idle_harness as ih
from vmc import server_harness as sh
from vmc.checks.common import Program, replay_program, run_programs
from vmc.engine import Action, EngineExec, MonRuntime, RunConfig, task_outcome
from vmc.events import Resp
from vmc.explore import Execution
from workflows.events import StartEvent, StopEvent, WorkflowIdleEvent

PID = "C36"
from llama_agents.server._store.sqlite import sqlite_workflow_store as _sws  # noqa: E402

_sws._TICK_PAGE_SIZE = 3  # configuration constant: the short tick logs of these programs span several pages when a released run is reloaded


def execute(ex: Execution, backend: str, idle_timeout: float, n_waits: int, stack_kind: str = "in_process",
            lifecycle_row: str = "n/a", yielding: bool = False, noise: bool = False) -> tuple[Any, list[Any]]:
    noise_sends: list[Any] = []
    sh.clear_graveyard()
    sh.reset_ids()
    ih.reset()
    v: list[Any] = []
    w = {"stack": stack_kind, "lifecycle_row": lifecycle_row}
    if noise:
        w["unhandled_event_sent"] = True
    cfg = RunConfig(max_actions=60, allow_time=True, pair_time=True)
    lifecycle_db = None
    if stack_kind == "dbos":
        import sqlite3

        import dbos as dbos_standin

        lifecycle_db = sh.fresh_sqlite_path()
        c = sqlite3.connect(lifecycle_db)
        c.executescript(ih.lifecycle_ddl())
        c.commit()
        c.close()
        dbos_standin.DBOS._reset()
    store = sh.make_store(backend)
    if yielding:
        sh.make_yielding(store)  # handler reads really suspend (network-backed store)
    with EngineExec(ex, cfg) as e:
        if stack_kind == "dbos":
            stack: Any = ih.DbosStack(store, lifecycle_db, idle_timeout)
            dbos_standin.DBOS.delete_workflow_async = classmethod(stack._delete)  # type: ignore[method-assign,assignment]
            # the polling interval of a sender that finds the run 'releasing' (0.5 s) produces timers: bounded below
        else:
            stack = sh.Stack(store, idle_timeout=idle_timeout, wrap_basic=MonRuntime)
        wf = ih.wf_wait(n_waits)(timeout=None)
        stack.add_workflow("wf", wf)

        def is_released() -> bool:
            if stack_kind == "dbos":
                return ih.lifecycle_state(lifecycle_db) == "released"
            return "run1" not in stack.idle._active_run_ids

        async def boot() -> None:
            await stack.service.start()
            await stack.service.start_workflow(wf, "h1", StartEvent())
            if lifecycle_row == "created_by_harness":
                # nothing in the repository ever calls RunLifecycleLock.create (recorded finding); with this variant the
                # harness registers the run so that the rest of the release / resume protocol can be explored
                await stack.lock.create("run1")

        e.loop.create_task(boot())
        sends: list[Any] = []
        state = {"scripts_added": 0, "idle_marks": 0, "last_idle": None, "released_seen": 0, "idle_at": None}

        def on_quiescent(h: Any) -> None:
            hd = ih.query_handler(e.loop, store)
            if hd is None:
                return
            released = is_released()
            live = len(ih.LIVE["loops"].get("run1", []))
            idle_announcements = sum(1 for ev in h.published if isinstance(ev, WorkflowIdleEvent))
            if idle_announcements > state["idle_marks"]:
                state["idle_marks"] = idle_announcements
                state["idle_at"] = e.loop.vt
            # the run announced idle for the (i+1)-th time: it waits for response i, the client may send it at any later point
            while state["scripts_added"] < min(n_waits, idle_announcements):
                i = state["scripts_added"]
                state["scripts_added"] += 1

                def send(i: int = i) -> None:
                    sends.append((i, e.loop.vt, e.loop.create_task(stack.service.send_event("h1", ih.WAIT_TYPES[i](uid=100 + i))), state["idle_marks"]))

                e.add_script([Action(f"send {ih.WAIT_TYPES[i].__name__}#{100 + i}", send)])
            desc = f"[{stack_kind}/{backend}/row={lifecycle_row}] idle_timeout={idle_timeout} waits={n_waits} t={e.loop.vt} schedule {ex.labels}"
            sent_since_idle = any(s[1] >= state["idle_at"] and s[3] >= state["idle_marks"] for s in sends) if state["idle_at"] is not None else False
            store_op_in_flight = any(g.label == "store.query" for g in h.pending_gates())
            if store_op_in_flight:
                return  # a (yielding) store read is in flight: the operation that issued it has not finished yet
            if hd.status == "running" and state["idle_at"] is not None and not sent_since_idle and not any(not s[2].done() for s in sends) \
                    and not any(not t.done() for _, t in noise_sends):
                idle_for = e.loop.vt - state["idle_at"]
                if idle_for > idle_timeout + 1e-9 and not released:
                    v.append(("idle_run_not_released_after_timeout", w, f"{desc}: idle for {idle_for}s, still in memory (live loops {live})"))
                elif not released and not any(d - e.loop.vt < 1000 for d in e.loop.timer_deadlines()) \
                        and not any(not t.done() for t in getattr(stack.idle, "_background_tasks", ())):
                    # idle, in memory, and nothing is scheduled that could ever release it (the only timers left are the
                    # waits' own 2000 s timeouts): it will stay in memory however long it idles
                    v.append(("idle_run_not_released_after_timeout", {**w, "release_timer": "none_pending"},
                              f"{desc}: idle since t={state['idle_at']}, still in memory and no release timer is pending"))
            if released:
                if live:
                    v.append(("released_run_still_has_live_control_loop", w, f"{desc}: released but {live} control loop(s) alive"))
                if hd.status == "running" and hd.idle_since is None and not any(not s[2].done() for s in sends):
                    v.append(("released_handler_not_marked_idle", w, f"{desc}: released, idle_since is None"))

        cfg.on_quiescent.append(on_quiescent)
        # wait_for_event's default timeout (2000 s) is a timer too: it belongs to C10 / C14, not to this property
        cfg.time_filter = lambda h: bool(e.loop.timer_deadlines()) and e.loop.timer_deadlines()[0] - e.loop.vt < 1000

        def advance() -> None:
            # the clock moves on without any timer coming due (so a later idle mark is younger than a pending stale timer)
            ds = e.loop.timer_deadlines()
            d = 0.3 * idle_timeout
            if not ds or ds[0] > e.loop.vt + d:
                e.loop.advance(d)

        e.add_script([Action("clock+0.3*idle_timeout", advance)])
        if noise:
            # an event no step accepts (and no wait asks for), sent by a client at any point: it is activity like any other -
            # the run is unhandled-event-idle again afterwards and must be released idle_timeout later
            from vmc.events import Work

            def send_noise() -> None:
                noise_sends.append((e.loop.vt, e.loop.create_task(stack.service.send_event("h1", Work(uid=77)))))

            e.add_script([Action("send Work#77 (no step accepts it)", send_noise)])
        idle_times: list[float] = []
        e.h.on_publish.append(lambda h, ev, ad: ih.LIVE["log"].append(("idle", "run1", e.loop.vt)) if isinstance(ev, WorkflowIdleEvent) else None)
        e.drive()
        hd = ih.query_handler(e.loop, store)
        desc = f"[{stack_kind}/{backend}/row={lifecycle_row}] idle_timeout={idle_timeout} waits={n_waits} schedule {ex.labels}"
        # release never earlier than idle_timeout after the run (last) announced idle
        last_idle_t = None
        rel_iter = iter(ih.RELEASES)
        for entry in ih.LIVE["log"]:
            if entry[0] == "idle":
                last_idle_t = entry[2]
            elif entry[0] == "release":
                r = next(rel_iter)
                if last_idle_t is not None and r["t"] - last_idle_t < idle_timeout - 1e-9:
                    v.append(("released_before_idle_timeout_elapsed", w, f"{desc}: released at t={r['t']}, idle since t={last_idle_t}, idle_timeout={idle_timeout}"))
        for r in ih.RELEASES:
            if r.get("queued") or r.get("in_progress"):
                v.append(("released_while_work_pending", w, f"{desc}: released with {r}"))
        want = "before-wait:" + ",".join(str(100 + i) for i in range(n_waits))
        for i, t_sent, task, _marks in sends:
            out = task_outcome(task)
            if out[0] != "result":
                v.append(("send_event_to_idle_or_released_run_failed", {**w, "exc": type(out[1]).__name__ if out[1] is not None else out[0]},
                          f"{desc}: send of Resp#{100 + i} at t={t_sent} ended {out}"))
        if len(sends) == n_waits and all(s[2].done() for s in sends) and not e.capped:
            got = getattr(getattr(hd, "result", None), "result", None)
            if hd is None or hd.status != "completed" or got != want:
                v.append(("reloaded_run_does_not_continue_from_where_it_stopped", {**w, "released_before_event": bool(ih.RELEASES)},
                          f"{desc}: all responses sent; handler status={getattr(hd, 'status', None)} result={got!r} expected {want!r}; "
                          f"releases={len(ih.RELEASES)} loops_started={ih.LIVE['started']}"))
        elif not e.capped and len(sends) < n_waits:
            v.append(("run_never_became_idle_again", w, f"{desc}: only {len(sends)} of {n_waits} responses could be sent"))
        if any(n > 1 for n in ih.LIVE["max"].values()):
            v.append(("two_live_control_loops", w, f"{desc}: {ih.LIVE['max']}"))
        obs = {"status": getattr(hd, "status", None), "releases": len(ih.RELEASES), "loops": dict(ih.LIVE["started"]),
               "_metrics": {"max_concurrency": 1 + len(sends), "releases": len(ih.RELEASES)}}
        return obs, v


def wf_counter() -> Any:
    """a human-in-the-loop shape: the run does nothing until the client sends something; Work bumps a counter in the state,
    Done finishes with it.  The first step of a continued run does not open the state store."""
    from vmc.engine import make_step, make_workflow
    from vmc.events import Bump as Work, Finish as Done

    async def begin(self, ctx, ev, inv):  # noqa: ANN001
        return None

    async def bump(self, ctx, ev, inv):  # noqa: ANN001
        await ctx.store.set("count", await ctx.store.get("count", default=0) + 1)
        return None

    async def finish(self, ctx, ev, inv):  # noqa: ANN001
        return StopEvent(result=await ctx.store.get("count", default=0))

    return make_workflow("Counter", [make_step("begin", [StartEvent], [None], begin), make_step("bump", [Work], [None], bump),
                                     make_step("finish", [Done], [StopEvent], finish)])


def execute_continued(ex: Execution, backend: str, idle_timeout: float) -> tuple[Any, list[Any]]:
    """a handler's first run finishes with count=2; the handler is started again (the new run continues from the finished run's
    context, i.e. it is STARTED WITH state), idles, and gets one more bump and the finish at explorer-chosen points - before the
    idle timer, or after the release (reloaded on demand).  It must finish with 3."""
    from vmc.events import Bump as Work, Finish as Done

    sh.clear_graveyard()
    sh.reset_ids()
    ih.reset()
    v: list[Any] = []
    w = {"stack": "in_process", "run_started_with_state": True}
    cfg = RunConfig(max_actions=60, allow_time=True, pair_time=True)
    store = sh.make_store(backend)
    with EngineExec(ex, cfg) as e:
        stack = sh.Stack(store, idle_timeout=idle_timeout, wrap_basic=MonRuntime)
        wf = wf_counter()(timeout=None)
        stack.add_workflow("wf", wf)
        info: dict[str, Any] = {}

        async def first() -> None:
            await stack.service.start()
            await stack.service.start_workflow(wf, "h1", StartEvent())
            for _ in range(2):
                await stack.service.send_event("h1", Work(uid=1))
            await stack.service.send_event("h1", Done(uid=1))

        t = e.loop.create_task(first())
        e.loop.drain()
        h1 = ih.query_handler(e.loop, store)
        first_result = getattr(getattr(h1, "result", None), "result", None)
        if task_outcome(t)[0] != "result" or h1 is None or h1.status != "completed" or first_result != 2:
            raise RuntimeError(f"harness: the first run did not finish with 2: {task_outcome(t)} {getattr(h1, 'status', None)} {first_result!r}")

        async def again() -> None:
            data = await stack.service.start_workflow(wf, "h1", StartEvent())
            info["run_id"] = data.run_id

        t2 = e.loop.create_task(again())
        e.loop.drain()
        if task_outcome(t2)[0] != "result":
            raise RuntimeError(f"harness: the handler could not be started again: {task_outcome(t2)}")
        sends: list[Any] = []
        e.add_script([Action("send Work (bump)", lambda: sends.append(e.loop.create_task(stack.service.send_event("h1", Work(uid=2))))),
                      Action("send Done (finish)", lambda: sends.append(e.loop.create_task(stack.service.send_event("h1", Done(uid=2)))))])
        cfg.time_filter = lambda h: bool(e.loop.timer_deadlines()) and e.loop.timer_deadlines()[0] - e.loop.vt < 1000
        e.drive()
        hd = ih.query_handler(e.loop, store)
        got = getattr(getattr(hd, "result", None), "result", None)
        rels = [r for r in ih.RELEASES if r.get("run_id") == info.get("run_id")]
        desc = f"[in_process/{backend}] continued handler, idle_timeout={idle_timeout} schedule {ex.labels}"
        for i, task in enumerate(sends):
            out = task_outcome(task)
            if out[0] != "result":
                v.append(("send_event_to_idle_or_released_run_failed", {**w, "exc": type(out[1]).__name__ if out[1] is not None else out[0]},
                          f"{desc}: send {i} ended {out}"))
        if len(sends) == 2 and all(s.done() for s in sends) and not e.capped:
            if hd is None or hd.status != "completed" or got != 3:
                v.append(("reloaded_run_does_not_continue_from_where_it_stopped", {**w, "released_before_event": bool(rels)},
                          f"{desc}: first run finished with 2, the continued run got one more bump; handler status={getattr(hd, 'status', None)} "
                          f"result={got!r} expected 3; releases of the continued run={len(rels)}"))
        if any(n > 1 for n in ih.LIVE["max"].values()):
            v.append(("two_live_control_loops", w, f"{desc}: {ih.LIVE['max']}"))
        obs = {"status": getattr(hd, "status", None), "result": got, "releases": len(rels),
               "_metrics": {"max_concurrency": 1 + len(sends), "releases": len(rels)}}
        return obs, v


def wf_two_waits_busy() -> Any:
    """one step waits for two answers in turn, another keeps the run busy at first (so that a restarted server resumes the handler)"""
    from vmc.engine import gate, make_step, make_workflow
    from vmc.events import Done

    async def ask(self, ctx, ev, inv):  # noqa: ANN001
        a = await ctx.wait_for_event(Resp, waiter_id="w0")
        b = await ctx.wait_for_event(Done, waiter_id="w1")
        return StopEvent(result=f"{a.uid},{b.uid}")

    async def keeper(self, ctx, ev, inv):  # noqa: ANN001
        await gate("keeper")
        return None

    return make_workflow("TwoWaitsBusy", [make_step("ask", [StartEvent], [StopEvent], ask), make_step("keeper", [StartEvent], [None], keeper)])


def execute_restart_then_idle(ex: Execution, backend: str, idle_timeout: float) -> tuple[Any, list[Any]]:
    """the server is stopped while a handler is busy; the restarted server's start-up pass reads that run's tick log slowly (a store
    whose reads suspend) - meanwhile a client's answer reloads the run on demand, the run works, goes idle and is released.  When the
    slow read finally returns, the released run must stay released (or be released again): idle longer than idle_timeout => not in memory"""
    from llama_agents.server._store.sqlite.sqlite_workflow_store import SqliteWorkflowStore
    from vmc.events import Done
    from vmc.loop import VLoop

    sh.clear_graveyard()
    sh.reset_ids()
    ih.reset()
    path = sh.fresh_sqlite_path() if backend == "sqlite" else None
    store = sh.make_store(backend, path)
    ctl = sh.CrashControl(2)  # after the waiting step has registered its first wait; the other step is still running
    e1 = EngineExec(ex, RunConfig(max_actions=40, allow_time=False))
    e1.__enter__()
    crashed = False
    try:
        try:
            ctl.arm(store)
            stack = sh.Stack(store, idle_timeout=idle_timeout, wrap_basic=MonRuntime)
            wf = wf_two_waits_busy()(timeout=None)
            stack.add_workflow("wf", wf)

            async def boot() -> None:
                await stack.service.start()
                await stack.service.start_workflow(wf, "h1", StartEvent())

            e1.loop.create_task(boot())
            e1.cfg.gate_filter = lambda hh, g: False  # (the busy step stays busy until the process stops)
            e1.drive()
        except sh.Crash:
            crashed = True
        vt = e1.loop.vt
    finally:
        if crashed:
            sh.bury(e1.loop)
            e1.abandon()
        else:
            e1.__exit__(None, None, None)
        ctl.disarm(store)
    if not crashed:
        raise RuntimeError("harness: the first process was not stopped")
    store2 = store if backend == "memory" else SqliteWorkflowStore(path, poll_interval=1.0, auto_migrate=False)
    loop2 = VLoop()
    loop2.vt = vt
    v: list[Any] = []
    w = {"stack": "in_process", "after_restart": True, "startup_read_slow": True}
    with EngineExec(ex, RunConfig(max_actions=60, allow_time=True), loop=loop2) as e2:
        import asyncio as _aio

        late = _aio.Event()
        first_read = {"taken": False}
        orig_stream = store2.stream_ticks

        async def stream_ticks(run_id: str) -> Any:
            slow = not first_read["taken"]
            first_read["taken"] = True
            got = [t async for t in orig_stream(run_id)]
            if slow:
                await late.wait()  # the start-up pass's read of the log is in flight for a long time
            for t in got:
                yield t

        store2.stream_ticks = stream_ticks  # type: ignore[method-assign]
        stack2 = sh.Stack(store2, idle_timeout=idle_timeout, wrap_basic=MonRuntime)
        wf2 = wf_two_waits_busy()(timeout=None)
        stack2.add_workflow("wf", wf2)
        boot2 = e2.loop.create_task(stack2.service.start())
        sends: list[Any] = []
        e2.add_script([Action("send Resp#1 (reloads the run on demand)", lambda: sends.append(e2.loop.create_task(stack2.service.send_event("h1", Resp(uid=1)))))])
        e2.add_script([Action("the start-up pass's slow read returns", late.set)])
        e2.cfg.time_filter = lambda h: bool(e2.loop.timer_deadlines()) and e2.loop.timer_deadlines()[0] - e2.loop.vt < 1000
        e2.drive()
        hd = ih.query_handler(e2.loop, store2)
        run_id = getattr(hd, "run_id", None)
        in_memory = run_id in stack2.idle._active_run_ids or bool(ih.LIVE["loops"].get(run_id))
        desc = f"[in_process/{backend}] restarted server, slow start-up read, idle_timeout={idle_timeout}, schedule {ex.labels}"
        if late.is_set() and boot2.done() and hd is not None and hd.status == "running" and hd.idle_since is not None and sends and all(t.done() for t in sends):
            from vmc.loop import BASE_WALL

            idle_for = e2.loop.vt - (hd.idle_since.timestamp() - BASE_WALL)
            pending_release = any(d - e2.loop.vt < 1000 for d in e2.loop.timer_deadlines())
            if in_memory and idle_for > idle_timeout + 1e-9 and not pending_release:
                v.append(("idle_run_not_released_after_timeout", {**w, "release_timer": "none_pending"},
                          f"{desc}: the handler has been idle for {idle_for:.1f}s, the run is in memory again and nothing is scheduled that would release it"))
        # the run must still be usable: the second answer completes it
        if late.is_set() and boot2.done() and not v and hd is not None and hd.status == "running":
            t = e2.loop.create_task(stack2.service.send_event("h1", Done(uid=2)))
            e2.drive()
            hd2 = ih.query_handler(e2.loop, store2)
            got = getattr(getattr(hd2, "result", None), "result", None)
            if t.done() and (hd2 is None or hd2.status != "completed" or got != "1,2") and not e2.capped:
                v.append(("reloaded_run_does_not_continue_from_where_it_stopped", {**w, "released_before_event": bool(ih.RELEASES)},
                          f"{desc}: after both answers the handler is {getattr(hd2, 'status', None)} with result {got!r}, expected completed '1,2'"))
        obs = {"status": getattr(hd, "status", None), "in_memory": in_memory, "releases": len(ih.RELEASES),
               "_metrics": {"max_concurrency": 2, "releases": len(ih.RELEASES)}}
        return obs, v


def programs(tier: str) -> list[Program]:
    q = tier == "quick"
    ps = []
    for row in ("never_created", "created_by_harness"):
        for it in ((5.0,) if q else (0.5, 5.0, 60.0)):
            for n in (1, 2):
                ps.append(Program(f"dbos/lifecycle_row={row}/idle_timeout={it}/waits={n}", {"stack": "dbos", "row": row, "idle_timeout": it, "waits": n},
                                  (lambda ex, it=it, n=n, row=row: execute(ex, "memory", it, n, "dbos", row)), max_dev=None if n == 1 else (3 if q else 5)))
    ps.append(Program("in_process/memory/yielding_store/idle_timeout=5.0/waits=1", {"backend": "memory", "yielding": True, "idle_timeout": 5.0, "waits": 1},
                      (lambda ex: execute(ex, "memory", 5.0, 1, "in_process", "n/a", True)), max_dev=(3 if q else 5)))
    for backend in (("memory",) if q else ("memory", "sqlite")):
        ps.append(Program(f"in_process/{backend}/idle_timeout=5.0/waits=1/unhandled_event", {"backend": backend, "idle_timeout": 5.0, "waits": 1, "noise": True},
                          (lambda ex, backend=backend: execute(ex, backend, 5.0, 1, "in_process", "n/a", False, True)), max_dev=(4 if q else None)))
    for backend in (("memory",) if q else ("memory", "sqlite")):
        ps.append(Program(f"in_process/{backend}/idle_timeout=5.0/restart_slow_startup_read", {"backend": backend, "idle_timeout": 5.0, "restart": True},
                          (lambda ex, backend=backend: execute_restart_then_idle(ex, backend, 5.0)), max_dev=(4 if q else 6)))
    for backend in ("memory", "sqlite"):
        ps.append(Program(f"in_process/{backend}/idle_timeout=5.0/continued_handler", {"backend": backend, "idle_timeout": 5.0, "continued": True},
                          (lambda ex, backend=backend: execute_continued(ex, backend, 5.0)), max_dev=(4 if q else None)))
    for backend in ("memory", "sqlite"):
        for it in ((0.5, 60.0) if q else (0.5, 5.0, 60.0)):
            for n in (1, 2):
                ps.append(Program(f"in_process/{backend}/idle_timeout={it}/waits={n}", {"backend": backend, "idle_timeout": it, "waits": n},
                                  (lambda ex, backend=backend, it=it, n=n: execute(ex, backend, it, n)), max_dev=None if n == 1 else (3 if q else 5)))
    return ps


RULE = ("in-process stack: a workflow that stores state and waits for 1-2 external responses on the real server stack over "
        "MemoryWorkflowStore / SqliteWorkflowStore, idle_timeout in {0.5, (5,) 60}; each response is sent at an explorer-chosen point once "
        "the run is idle (before the idle timer, in the same loop iteration as the timer, after the release), optionally an event no "
        "step accepts sent at any point x all interleavings of "
        "sends, idle-timer firings and step completions; in every quiescent state: idle longer than idle_timeout => released (out of "
        "memory, no live control loop, idle_since set); finally every send succeeded and the run completed with the state it had "
        "stored before waiting and all responses; non-trivial = at least one schedule deviation")
from vmc.tables import _ROUND6 as _R6  # noqa: E402

RULE += _R6["C36"]
from vmc.tables import _ROUND7 as _R7  # noqa: E402

RULE += _R7["C36"]
from vmc.tables import _ROUND8 as _R8  # noqa: E402

RULE += _R8["C36"]



def run(tier: str, seed: int) -> Any:
    res = run_programs(PID, programs(tier), RULE, seed, assumptions=[
        "_TICK_PAGE_SIZE of the SQLite store is set to 3 by the harness so that the tick log a reload replays spans several pages",
        "virtual clock: datetime.now() in the idle-release / store modules follows the loop's virtual time",
        "responses are sent only once the run waits for them (an event sent before its waiter exists is dropped by design)",
        "DBOS stack: the real DBOSIdleReleaseDecorator + SqliteRunLifecycleLock (real DB file) run over the in-process BasicRuntime, which "
        "stands in for DBOSRuntime; the dbos library is a two-function stand-in (retrieve_workflow_async -> previous in-process run, "
        "delete_workflow_async -> forget it); DBOSRuntime itself and Postgres are not executed"])
    rel = res.extra.get("releases", 0)
    if not rel:
        res.sanity_errors.append("vacuity: no execution ever released a run")
    return res


def replay(rec: dict[str, Any]) -> tuple[bool, str]:
    return replay_program(programs("thorough"), rec)

"""C26 - idle release and resume never lose an event or double-run a workflow.

In-process stack: workflows waiting for two responses (two concurrent senders), a fan-out whose consumers are busy
while the run is (spuriously) flagged idle, a delayed retry and a waiter timeout as internal wake-ups, on the real
server stack; all interleavings of idle-timer firings, releases, sends and step completions.
DBOS lifecycle: the real DBOSIdleReleaseDecorator + SqliteRunLifecycleLock with TWO replicas (separate decorator and
lock instances, one lifecycle DB file, one store, one shared in-process runtime standing in for the DBOS cluster),
senders on both replicas, and a releaser that stops between begin_release and complete_release.
"""
from __future__ import annotations

from typing import Any

from vmc import idle_harness as ih
from vmc import server_harness as sh
from vmc.checks.common import Program, replay_program, run_programs
from vmc.engine import Action, EngineExec, MonRuntime, RunConfig, gate, task_outcome
from vmc.explore import Execution
from workflows.events import StartEvent, WorkflowIdleEvent

PID = "C26"

WORKFLOWS: dict[str, Any] = {
    "wait2": {"make": lambda: ih.wf_wait(2), "sends": 2, "expected": "before-wait:100,101", "horizon": 1000.0},
    "wait1": {"make": lambda: ih.wf_wait(1), "sends": 1, "expected": "before-wait:100", "horizon": 1000.0},
    # a second, unrelated event (no step accepts it) from another client races the awaited response: both may find the run released
    "wait1_two_senders": {"make": lambda: ih.wf_wait(1), "sends": 1, "extra": [900, 901], "expected": "before-wait:100", "horizon": 1000.0},
    "busy_fan": {"make": ih.wf_busy_fan, "sends": 0, "expected": "fan:1,2", "horizon": 1000.0},
    "retry_delay": {"make": lambda: ih.wf_retry_delay(8.0), "sends": 0, "expected": "retried:1", "horizon": 1000.0},
    "wait_timeout": {"make": lambda: ih.wf_wait_timeout(8.0), "sends": 0, "expected": "timed-out", "horizon": 1000.0},
}


def _busy_kind(r: dict[str, Any]) -> str:
    if r.get("in_progress"):
        return "step_running"
    if r.get("queued"):
        return "event_queued"
    if any(t == "TickAddEvent" for t in r.get("scheduled", [])):
        return "retry_scheduled"
    if any(t in ("TickAddEvent", "TickStepResult") for t in r.get("tick_buffer", [])):
        return "tick_buffered"
    return "none"


def execute(ex: Execution, wname: str, backend: str, idle_timeout: float, yielding: bool = False) -> tuple[Any, list[Any]]:
    spec = WORKFLOWS[wname]
    sh.clear_graveyard()
    sh.reset_ids()
    ih.reset()
    store = sh.make_store(backend)
    if yielding:
        sh.make_yielding(store)
    v: list[Any] = []
    w = {"stack": "in_process", "workflow": wname}
    cfg = RunConfig(max_actions=90 if yielding else 70, allow_time=True)
    with EngineExec(ex, cfg) as e:
        stack = sh.Stack(store, idle_timeout=idle_timeout, wrap_basic=MonRuntime)
        wf = spec["make"]()(timeout=None)
        stack.add_workflow("wf", wf)

        async def boot() -> None:
            await stack.service.start()
            await stack.service.start_workflow(wf, "h1", StartEvent())

        e.loop.create_task(boot())
        sends: list[Any] = []
        state = {"scripts_added": 0}
        # observation only: the statuses written to the handler row, in order (root-cause context for the oracle below)
        status_writes: list[str] = []
        _orig_update = store.update

        status_writers: list[str] = []

        async def _logged_update(handler: Any) -> None:
            import inspect

            names = [f.function for f in inspect.stack()[1:12]]
            status_writers.append("idle_announcement" if any(n in ("write_to_event_stream", "_record_idle") for n in names) and "send_event" not in names
                                  else "send_event" if "send_event" in names else "reload" if "_ensure_active_run_locked" in names
                                  else "release" if any("release" in n for n in names) else "other")
            status_writes.append(handler.status)
            await _orig_update(handler)

        store.update = _logged_update  # type: ignore[method-assign]

        def on_quiescent(h: Any) -> None:
            idle_announcements = sum(1 for ev in h.published if isinstance(ev, WorkflowIdleEvent))
            # both senders become available once the run waits for the first response: the second one may then be early
            # (dropped by design), so responses are offered one per idle announcement, as in C36, but the two clients act
            # independently of each other afterwards
            while state["scripts_added"] < min(spec["sends"], idle_announcements):
                i = state["scripts_added"]
                state["scripts_added"] += 1

                def send(i: int = i) -> None:
                    if any(s[0] == i for s in sends):
                        return
                    sends.append((i, e.loop.vt, e.loop.create_task(stack.service.send_event("h1", ih.WAIT_TYPES[i](uid=100 + i)))))

                e.add_script([Action(f"send {ih.WAIT_TYPES[i].__name__}#{100 + i}", send)])
            if idle_announcements and not state.get("extra_added"):
                state["extra_added"] = 1
                for uid in spec.get("extra", []):
                    def send_extra(uid: int = uid) -> None:
                        from vmc.events import D

                        extra_sends.append((uid, e.loop.vt, e.loop.create_task(stack.service.send_event("h1", D(uid=uid)))))

                    e.add_script([Action(f"send unrelated D#{uid}", send_extra)])
                if spec.get("extra"):
                    # two clients hit the server in the same loop iteration (both find the run in the same state)
                    def send_both() -> None:
                        from vmc.events import D

                        if any(s[0] == 0 for s in sends) or any(x[0] == 902 for x in extra_sends):
                            return
                        sends.append((0, e.loop.vt, e.loop.create_task(stack.service.send_event("h1", ih.WAIT_TYPES[0](uid=100)))))
                        extra_sends.append((902, e.loop.vt, e.loop.create_task(stack.service.send_event("h1", D(uid=902)))))

                    e.add_script([Action("send Resp#100 and D#902 in the same loop iteration", send_both)])
            live = len(ih.LIVE["loops"].get("run1", []))
            if live > 1:
                v.append(("two_live_control_loops_for_one_run", w, f"t={e.loop.vt} {live} control loops alive; schedule {ex.labels}"))

        extra_sends: list[Any] = []
        cfg.on_quiescent.append(on_quiescent)
        cfg.time_filter = lambda h: bool(e.loop.timer_deadlines()) and e.loop.timer_deadlines()[0] - e.loop.vt < spec["horizon"]
        e.h.on_publish.append(lambda h, ev, ad: ih.LIVE["log"].append(("idle", "run1", e.loop.vt)) if isinstance(ev, WorkflowIdleEvent) else None)
        e.drive()
        hd = ih.query_handler(e.loop, store)
        ticks = ih.tick_types(e.loop, store)
        desc = f"[{backend}] {wname} idle_timeout={idle_timeout} schedule {ex.labels}"
        for r in ih.RELEASES:
            kind = _busy_kind(r)
            if kind != "none":
                v.append(("released_while_work_pending", {**w, "pending": kind}, f"{desc}: released with {r}"))
        if any(n > 1 for n in ih.LIVE["max"].values()):
            v.append(("two_live_control_loops_for_one_run", w, f"{desc}: max simultaneously live loops {ih.LIVE['max']}"))
        started = ih.LIVE["started"].get("run1", 0)
        if started > len(ih.RELEASES) + 1:
            v.append(("more_than_one_resumer_per_release", w, f"{desc}: {started} control loops started for {len(ih.RELEASES)} releases"))
        released_busy = any(_busy_kind(r) != "none" for r in ih.RELEASES)
        # update_handler_status() is read-modify-write: with a store whose read suspends, a row read before the run ended can
        # be written back after the terminal status (recorded finding); everything that follows from it carries this flag
        first_terminal = next((i for i, st in enumerate(status_writes) if st in ("completed", "failed", "cancelled")), None)
        stale_overwrite = first_terminal is not None and any(st == "running" for st in status_writes[first_terminal + 1:])
        # ... and the idle flag can be stale the other way round (recorded C03 / C26 findings: idle announced while an event is
        # already on its way): the release then aborts a run that is just finishing - its last tick (with the StopEvent
        # result) is persisted, the terminal status never written, and the next event restarts the finished log from scratch
        ended_in_log = any(td.get("type") == "step_result" and any(
            r.get("type") == "result" and "StopEvent" in str((r.get("result") or {}).get("qualified_name", "")) for r in td.get("result", []))
            for td in ticks)
        aborted_while_finishing = bool(ih.RELEASES) and ended_in_log and first_terminal is None
        if yielding:
            w = {**w, "terminal_status_overwritten_by_stale_row": stale_overwrite, "release_aborted_run_while_it_finished": aborted_while_finishing}
            if stale_overwrite:
                # who wrote the stale row back: a client's send_event bookkeeping (the recorded read-modify-write finding), or
                # the run's own idle announcement (which the control loop awaits, so it cannot be overtaken by the run's end)
                w["stale_row_written_by"] = sorted({status_writers[i] for i in range(first_terminal + 1, len(status_writes)) if status_writes[i] == "running"})
        for i, t_sent, task in sends:
            out = task_outcome(task)
            if out[0] != "result":
                v.append(("send_event_failed", {**w, "exc": type(out[1]).__name__ if out[1] is not None else out[0]}, f"{desc}: send #{100 + i} ended {out}"))
            want_uid = 100 + i
            if not any(td.get("type") == "add_event" and td.get("event", {}).get("value", {}).get("uid") == want_uid for td in ticks):
                v.append(("sent_event_never_processed", {**w, "after_busy_release": released_busy}, f"{desc}: event #{want_uid} sent at t={t_sent} is not in the tick log"))
        handler_done_at_send = False
        for uid, t_sent, task in extra_sends:
            out = task_outcome(task)
            if out[0] == "exception" and type(out[1]).__name__ == "HandlerCompletedError":
                continue  # the run had already completed: nothing to deliver to
            if out[0] != "result":
                v.append(("send_event_failed", {**w, "exc": type(out[1]).__name__ if out[1] is not None else out[0]}, f"{desc}: send D#{uid} ended {out}"))
            elif not any(td.get("type") == "add_event" and td.get("event", {}).get("value", {}).get("uid") == uid for td in ticks):
                if yielding and getattr(hd, "status", None) == "completed":
                    # with a suspending store the service's "is the handler still running?" read can be older than the
                    # run's completion: an unrelated event accepted for a run that has just finished has nobody to go to
                    continue
                if getattr(hd, "status", None) != "completed" or True:
                    v.append(("sent_event_never_processed", {**w, "after_busy_release": released_busy, "unrelated_event": True},
                              f"{desc}: event D#{uid} accepted at t={t_sent} is not in the tick log (handler {getattr(hd, 'status', None)})"))
        if not e.capped and spec["sends"] and len(sends) == spec["sends"]:
            got = getattr(getattr(hd, "result", None), "result", None)
            if hd is None or hd.status != "completed" or got != spec["expected"]:
                pend = sorted({_busy_kind(r) for r in ih.RELEASES})
                v.append(("run_does_not_complete_after_release_and_resume", {**w, "released_with": pend, "kind": ("stays_running" if getattr(hd, "status", None) == "running" else "other")},
                          f"{desc}: handler status={getattr(hd, 'status', None)} result={got!r} expected {spec['expected']!r}; releases={ih.RELEASES}"))
        obs = {"status": getattr(hd, "status", None), "releases": len(ih.RELEASES), "loops": started,
               "_metrics": {"max_concurrency": 1 + len(sends), "releases": len(ih.RELEASES)}}
        return obs, v


# ------------------------------------------------------------------ DBOS lifecycle, two replicas --------------
def execute_dbos(ex: Execution, n_waits: int, idle_timeout: float, releaser_crashes: bool,
                 releaser_stalls: bool = False) -> tuple[Any, list[Any]]:
    import sqlite3

    import dbos as dbos_standin
    from workflows.plugins.basic import BasicRuntime

    sh.clear_graveyard()
    sh.reset_ids()
    ih.reset()
    v: list[Any] = []
    w = {"stack": "dbos", "releaser_crashes": releaser_crashes}
    if releaser_stalls:
        w["releaser_stalls"] = True
    lifecycle_db = sh.fresh_sqlite_path()
    c = sqlite3.connect(lifecycle_db)
    c.executescript(ih.lifecycle_ddl())
    c.commit()
    c.close()
    dbos_standin.DBOS._reset()
    store = sh.make_store("memory")
    cfg = RunConfig(max_actions=90, allow_time=True)
    with EngineExec(ex, cfg) as e:
        a = ih.DbosStack(store, lifecycle_db, idle_timeout, name="A")
        b = ih.DbosStack(store, lifecycle_db, idle_timeout, name="B")
        b.basic = a.basic  # one DBOS cluster: a run can be reached from either replica
        b.persistence._decorated._decorated = a.basic  # Binding(MonRuntime)._decorated
        dbos_standin.DBOS.delete_workflow_async = classmethod(a._delete)  # type: ignore[method-assign,assignment]
        wfa = ih.wf_wait(n_waits)(timeout=None)
        a.add_workflow("wf", wfa)
        wfb = ih.wf_wait(n_waits)(timeout=None)
        b.add_workflow("wf", wfb)

        async def boot() -> None:
            await a.service.start()
            await b.service.start()
            await a.service.start_workflow(wfa, "h1", StartEvent())
            await a.lock.create("run1")  # (never done by the repository: C36's recorded finding)

        e.loop.create_task(boot())
        sends: list[Any] = []
        state = {"scripts_added": 0, "crashed": False}
        if releaser_crashes:
            # replica A stops right after begin_release(): its _await_and_mark_released never runs
            orig = a.idle._await_and_mark_released

            async def never(run_id: str, external: Any) -> None:
                state["crashed"] = True
                await e.loop.create_future()

            a.idle._await_and_mark_released = never  # type: ignore[method-assign]

            def jump() -> None:
                e.loop.advance(121.0)

            e.add_script([Action("clock+121s (beyond CRASH_TIMEOUT_SECONDS)", jump)])

        if releaser_stalls:
            # replica A is paused right after begin_release() (a frozen container, a long GC pause) and continues
            # whenever the explorer lets it - possibly after another replica took the run over
            orig_mark = a.idle._await_and_mark_released

            async def stalled(run_id: str, external: Any) -> None:
                await gate("replica A continues after its pause")
                await orig_mark(run_id, external)

            a.idle._await_and_mark_released = stalled  # type: ignore[method-assign]

            def jump2() -> None:
                e.loop.advance(121.0)

            e.add_script([Action("clock+121s (beyond CRASH_TIMEOUT_SECONDS)", jump2)])

        def on_quiescent(h: Any) -> None:
            idle_announcements = sum(1 for ev in h.published if isinstance(ev, WorkflowIdleEvent))
            while state["scripts_added"] < min(n_waits, idle_announcements):
                i = state["scripts_added"]
                state["scripts_added"] += 1
                for rep in (a, b):
                    # each response may be delivered through either replica (the client's load balancer decides):
                    # two scripts, whichever is chosen first wins, the other becomes a no-op
                    def send(i: int = i, rep: Any = rep) -> None:
                        if any(s[0] == i for s in sends):
                            return
                        sends.append((i, e.loop.vt, e.loop.create_task(rep.service.send_event("h1", ih.WAIT_TYPES[i](uid=100 + i))), rep.name))

                    e.add_script([Action(f"send #{100 + i} via {rep.name}", send)])
            live = len(ih.LIVE["loops"].get("run1", []))
            if live > 1:
                v.append(("two_live_control_loops_for_one_run", w, f"t={e.loop.vt} {live} control loops alive; schedule {ex.labels}"))

        cfg.on_quiescent.append(on_quiescent)
        polls = {"n": 0}

        def time_ok(h: Any) -> bool:
            ds = e.loop.timer_deadlines()
            if not ds or ds[0] - e.loop.vt >= 1000:
                return False
            if ds[0] - e.loop.vt <= 0.5 + 1e-9:  # a sender polling the 'releasing' state every 0.5 s: bounded
                polls["n"] += 1
                return polls["n"] <= 6
            return True

        cfg.time_filter = time_ok
        e.drive()
        hd = ih.query_handler(e.loop, store)
        ticks = ih.tick_types(e.loop, store)
        desc = f"[dbos x2] waits={n_waits} idle_timeout={idle_timeout} crash={releaser_crashes} stall={releaser_stalls} schedule {ex.labels}"
        if any(n > 1 for n in ih.LIVE["max"].values()):
            v.append(("two_live_control_loops_for_one_run", w, f"{desc}: {ih.LIVE['max']}"))
        n_releases = sum(1 for td in ticks if td.get("type") == "idle_release")
        started = ih.LIVE["started"].get("run1", 0)
        if started > n_releases + 1:
            v.append(("more_than_one_resumer_per_release", w, f"{desc}: {started} control loops for {n_releases} releases"))
        for i, t_sent, task, via in sends:
            out = task_outcome(task)
            if out[0] != "result":
                v.append(("send_event_failed", {**w, "exc": type(out[1]).__name__ if out[1] is not None else out[0]}, f"{desc}: send #{100 + i} via {via} ended {out}"))
        got = getattr(getattr(hd, "result", None), "result", None)
        want = "before-wait:" + ",".join(str(100 + i) for i in range(n_waits))
        all_sent = len({s[0] for s in sends}) == n_waits
        poll_budget_exhausted = polls["n"] > 6  # the bounded poll loop was cut: not a maximal execution, nothing to judge
        if all_sent and not e.capped and not poll_budget_exhausted and (hd is None or hd.status != "completed" or got != want):
            lc = ih.lifecycle_state(lifecycle_db)
            v.append(("sent_event_never_processed", {**w, "lifecycle_state_at_end": lc, "clock_jumped": e.loop.vt > 100},
                      f"{desc}: all responses sent ({[(s[0], s[3], s[1]) for s in sends]}), handler status={getattr(hd, 'status', None)} "
                      f"result={got!r} expected {want!r}; lifecycle={lc}; loops started {started}; t={e.loop.vt}"))
        obs = {"status": getattr(hd, "status", None), "loops": started, "releases": n_releases,
               "_metrics": {"max_concurrency": 2 + len(sends), "releases": n_releases}}
        return obs, v


def programs(tier: str) -> list[Program]:
    q = tier == "quick"
    ps = []
    for wname in WORKFLOWS:
        for backend in (("memory",) if q and wname not in ("wait2",) else ("memory", "sqlite")):
            for it in ((2.0,) if q else (2.0, 8.0, 30.0)):
                ps.append(Program(f"in_process/{wname}/{backend}/idle_timeout={it}", {"workflow": wname, "backend": backend, "idle_timeout": it},
                                  (lambda ex, wname=wname, backend=backend, it=it: execute(ex, wname, backend, it)),
                                  max_dev=(3 if q else 5)))
    # a store whose handler reads really suspend (network store): other tasks run between a read and what follows it
    for backend in (("memory",) if q else ("memory", "sqlite")):
        ps.append(Program(f"in_process/wait1/{backend}/yielding_store", {"workflow": "wait1", "backend": backend, "yielding": True},
                          (lambda ex, backend=backend: execute(ex, "wait1", backend, 2.0, True)), max_dev=(4 if q else 6)))
    # ... and with several independent senders: three parties can meet at the per-run reload lock while one of them is
    # suspended inside it (releaser on its store read, a sender queued behind it, another sender arriving later)
    ps.append(Program("in_process/wait1_two_senders/memory/yielding_store", {"workflow": "wait1_two_senders", "backend": "memory", "yielding": True},
                      (lambda ex: execute(ex, "wait1_two_senders", "memory", 2.0, True)), max_dev=(3 if q else 5)))
    for n in (1, 2):
        for crash in (False, True):
            ps.append(Program(f"dbos_two_replicas/waits={n}/releaser_crashes={crash}", {"waits": n, "crash": crash},
                              (lambda ex, n=n, crash=crash: execute_dbos(ex, n, 5.0, crash)), max_dev=(3 if q else 5)))
        ps.append(Program(f"dbos_two_replicas/waits={n}/releaser_stalls", {"waits": n, "stall": True},
                          (lambda ex, n=n: execute_dbos(ex, n, 5.0, False, True)), max_dev=(4 if q else 5)))
    # two resumers of one run: a restarted server's start-up pass and the on-demand reload triggered by a client's event, over a
    # store whose reads suspend (C13's driver): the event must be processed exactly once and the run resumed by one of them
    from vmc.checks import c13 as _c13

    for backend in (("memory",) if q else ("memory", "sqlite")):
        for k in ((2, 3) if q else range(1, 8)):
            ps.append(Program(f"restart_vs_on_demand_reload/{backend}/network_store/stop_after_tick_{k:02d}",
                              {"workflow": "restart_vs_on_demand_reload", "backend": backend, "crash_at": k},
                              (lambda ex, backend=backend, k=k: _c13.execute(ex, "wait_busy_answer_after_restart", backend, k, network=True)),
                              max_dev=(4 if q else 5)))
    return ps


RULE = ("in-process stack: {two sequential waits answered by two independent senders, one wait, a fan-out whose consumers are busy "
        "while the run is flagged idle, a delayed retry, a waiter timeout} x idle_timeout relative to the delays x all interleavings of "
        "idle-timer firings, releases, sends and step completions: live control loops per run <= 1 at every quiescent point, run state "
        "inspected at the instant of every release (nothing queued / running / scheduled), loops started <= releases + 1, every sent "
        "event in the tick log and reflected in the result; DBOS lifecycle: the real DBOSIdleReleaseDecorator + SqliteRunLifecycleLock "
        "with two replicas on one lifecycle DB file, each response delivered through either replica, and a releaser that stops "
        "between begin_release and complete_release with the clock jumping beyond CRASH_TIMEOUT_SECONDS; non-trivial = >= 1 deviation")
from vmc.tables import _ROUND7 as _R7  # noqa: E402

RULE += _R7["C26"]



def run(tier: str, seed: int) -> Any:
    res = run_programs(PID, programs(tier), RULE, seed, assumptions=[
        "virtual clock; datetime.now() in the idle-release / lifecycle / store modules follows it",
        "DBOS half: DBOSRuntime and the dbos library are not executed: one in-process BasicRuntime shared by both replicas stands "
        "for the DBOS cluster (a run can be awaited, messaged and deleted from either replica); the lifecycle row is created by the "
        "harness (the repository never creates it - C36's recorded finding); SQLite lifecycle operations are atomic per call in one "
        "process, cross-process interleaving inside one operation is not modelled"])
    if not res.extra.get("releases", 0):
        res.sanity_errors.append("vacuity: no execution ever released a run")
    return res


def replay(rec: dict[str, Any]) -> tuple[bool, str]:
    return replay_program(programs("thorough"), rec)

"""C23 - workflow validation accepts exactly the well-formed graphs.

Exhaustive enumeration of step sets: every pair of step configs (1-2 accepted types, 0-2 returned types) over an
8- (quick) / 10-class (thorough) event alphabet, every triple over a 5-class alphabet (thorough), @catch_error
handler layouts (wildcard / scoped / covering another handler / double claims / bad budgets, both discovery
orders), and all workflow- and step-level skip_graph_checks settings on the graphs whose event connectivity is
sound; fed as StepConfig dicts to the real _validate_workflow and - for a systematic subset - through generated
Workflow classes and the public Workflow.validate().  Oracle: an independent restatement of the stated rules.
"""
from __future__ import annotations

import itertools
from typing import Any, Optional, Union

from vmc import bootstrap

bootstrap.setup()

from vmc.checks.grid import run_grid  # noqa: E402
from workflows import Workflow, step  # noqa: E402
from workflows.decorators import StepConfig, catch_error  # noqa: E402
from workflows.errors import WorkflowConfigurationError, WorkflowValidationError  # noqa: E402
from workflows.events import Event, HumanResponseEvent, InputRequiredEvent, StartEvent, StepFailedEvent, StopEvent  # noqa: E402
from workflows.representation.validate import _validate_workflow  # noqa: E402

PID = "C23"


class S1(StartEvent):
    pass


class S2(StartEvent):
    pass


class T1(StopEvent):
    pass


class T2(StopEvent):
    pass


class A(Event):
    pass


class B(Event):
    pass


class IREs(InputRequiredEvent):
    pass


class HREs(HumanResponseEvent):
    pass


IRE, HRE = InputRequiredEvent, HumanResponseEvent
ALPHA10 = [S1, S2, T1, T2, A, B, IRE, IREs, HRE, HREs]
ALPHA8 = [S1, S2, T1, T2, A, B, IREs, HREs]
ALPHA5 = [S1, T1, A, IRE, HRE]
NAME = {c: c.__name__ for c in ALPHA10 + [StepFailedEvent]}


def cfg(accepts: Any, returns: Any, skip: Any = (), role: str = "step", for_steps: Any = None, max_rec: Any = 1) -> StepConfig:
    return StepConfig(accepted_events=list(accepts), event_name="ev", return_types=list(returns) or [type(None)], context_parameter=None,
                      num_workers=4, retry_policy=None, resources=[], skip_graph_checks=list(skip), role=role,  # type: ignore[arg-type]
                      catch_error_for_steps=(list(for_steps) if for_steps is not None else None), catch_error_max_recoveries=max_rec)


# ------------------------------------------------------------------ reference ---------------------------------
def ref(steps: dict[str, StepConfig], wf_skip: frozenset[str]) -> tuple[str, Any]:
    """('accept', hitl_flag) or ('reject', rule)"""
    if not steps:
        return ("reject", "no_steps")
    accepted = {n: [e for e in c.accepted_events] for n, c in steps.items()}
    returned = {n: [e for e in c.return_types if e is not type(None)] for n, c in steps.items()}
    starts = {e for es in accepted.values() for e in es if issubclass(e, StartEvent)}
    if len(starts) != 1:
        return ("reject", "exactly_one_start_event")
    stops = {e for es in returned.values() for e in es if issubclass(e, StopEvent)}
    if len(stops) != 1:
        return ("reject", "exactly_one_stop_event")
    if any(issubclass(e, StopEvent) for es in accepted.values() for e in es):
        return ("reject", "stop_event_consumed")
    start = next(iter(starts))
    consumed = {e for es in accepted.values() for e in es}
    produced = {e for es in returned.values() for e in es} | {start}
    boundary_in = (InputRequiredEvent, HumanResponseEvent, StopEvent, StepFailedEvent)
    boundary_out = (InputRequiredEvent, HumanResponseEvent, StopEvent)
    if any(not issubclass(e, boundary_in) for e in consumed - produced):
        return ("reject", "consumed_never_produced")
    if any(not issubclass(e, boundary_out) for e in produced - consumed):
        return ("reject", "produced_never_consumed")
    hitl = any(issubclass(e, InputRequiredEvent) for e in produced) or any(issubclass(e, HumanResponseEvent) for e in consumed)
    # catch_error handlers
    handlers = [(n, c) for n, c in steps.items() if c.role == "catch_error"]
    hnames = {n for n, _ in handlers}
    for n, c in handlers:
        mr = c.catch_error_max_recoveries
        if not isinstance(mr, int) or mr < 1:
            return ("reject", "handler_budget")
    if sum(1 for _, c in handlers if c.catch_error_for_steps is None) > 1:
        return ("reject", "two_wildcards")
    claimed: set[str] = set()
    for n, c in handlers:
        for t in c.catch_error_for_steps or []:
            if t not in steps:
                return ("reject", "handler_unknown_step")
            if t in hnames:
                return ("reject", "handler_covers_handler")
            if t in claimed:
                return ("reject", "step_claimed_twice")
            claimed.add(t)
    # graph checks (each can be skipped for the workflow, reachability / dead_end also per step)
    ev_types = consumed | {e for es in returned.values() for e in es}
    consumers: dict[Any, list[str]] = {}
    for n, es in accepted.items():
        for e in es:
            consumers.setdefault(e, []).append(n)
    if "reachability" not in wf_skip:
        seen_steps: set[str] = set(hnames)
        frontier_events = {start} | {e for e in ev_types if issubclass(e, HumanResponseEvent)}
        seen_events: set[Any] = set()
        todo_steps = list(hnames)
        todo_events = list(frontier_events)
        while todo_steps or todo_events:
            while todo_events:
                e = todo_events.pop()
                if e in seen_events:
                    continue
                seen_events.add(e)
                for n in consumers.get(e, []):
                    if n not in seen_steps:
                        seen_steps.add(n)
                        todo_steps.append(n)
            while todo_steps:
                n = todo_steps.pop()
                for e in returned[n]:
                    if e not in seen_events:
                        todo_events.append(e)
        if any(n not in seen_steps and "reachability" not in steps[n].skip_graph_checks for n in steps):
            return ("reject", "unreachable_step")
    if "terminal_event" not in wf_skip:
        if any(not consumers.get(e) and not issubclass(e, (StopEvent, InputRequiredEvent)) for e in ev_types):
            return ("reject", "non_output_event_without_consumer")
    if "dead_end" not in wf_skip:
        # steps that can reach an output event: fixpoint
        good: set[str] = set()
        changed = True
        while changed:
            changed = False
            for n in steps:
                if n in good:
                    continue
                for e in returned[n]:
                    if issubclass(e, (StopEvent, InputRequiredEvent)) or any(m in good for m in consumers.get(e, [])):
                        good.add(n)
                        changed = True
                        break
        if any(returned[n] and n not in good and "dead_end" not in steps[n].skip_graph_checks for n in steps):
            return ("reject", "dead_end_step")
    return ("accept", hitl)


def real(steps: dict[str, StepConfig], wf_skip: frozenset[str]) -> tuple[str, Any]:
    try:
        r = _validate_workflow(steps, "WF", set(wf_skip))  # type: ignore[arg-type]
        return ("accept", r.uses_hitl)
    except (WorkflowConfigurationError, WorkflowValidationError) as e:
        return ("reject", type(e).__name__ + ": " + str(e).splitlines()[0][:90])


def describe(steps: dict[str, StepConfig]) -> str:
    return "; ".join(f"{n}({'|'.join(NAME.get(e, str(e)) for e in c.accepted_events)})->"
                     f"{'|'.join(NAME.get(e, 'None') for e in c.return_types)}"
                     f"{' skip=' + ','.join(c.skip_graph_checks) if c.skip_graph_checks else ''}"
                     f"{' [catch_error for=' + str(c.catch_error_for_steps) + ' max=' + repr(c.catch_error_max_recoveries) + ']' if c.role == 'catch_error' else ''}"
                     for n, c in steps.items())


def compare(steps: dict[str, StepConfig], wf_skip: frozenset[str], v: list[Any]) -> bool:
    want, got = ref(steps, wf_skip), real(steps, wf_skip)
    if want[0] != got[0]:
        v.append(("accept_reject_differs", {"expected": want[0], "rule": want[1] if want[0] == "reject" else "all_rules_hold",
                                           "skip": bool(wf_skip) or any(c.skip_graph_checks for c in steps.values())},
                  f"steps {describe(steps)} wf_skip={sorted(wf_skip)}: validate -> {got}, rules say {want}"))
    elif want[0] == "accept" and want[1] != got[1]:
        sub = any(e is not InputRequiredEvent and e is not HumanResponseEvent and issubclass(e, (InputRequiredEvent, HumanResponseEvent))
                  for c in steps.values() for e in list(c.accepted_events) + list(c.return_types))
        v.append(("hitl_flag_wrong", {"expected": want[1], "only_subclasses_involved": sub and InputRequiredEvent not in
                                      [e for c in steps.values() for e in c.return_types] and HumanResponseEvent not in
                                      [e for c in steps.values() for e in c.accepted_events]},
                  f"steps {describe(steps)}: validate returned HITL flag {got[1]}, expected {want[1]}"))
    return want[0] == "accept"


def step_configs(alpha: list[Any]) -> list[tuple[tuple[Any, ...], tuple[Any, ...]]]:
    acc = [c for k in (1, 2) for c in itertools.combinations(alpha, k)]
    ret = [c for k in (0, 1, 2) for c in itertools.combinations(alpha, k)]
    return [(a, r) for a in acc for r in ret]


SKIPS = [frozenset(s) for k in range(4) for s in itertools.combinations(("reachability", "terminal_event", "dead_end"), k)]
STEP_SKIPS = [(), ("reachability",), ("dead_end",), ("reachability", "dead_end")]


def connectivity_ok(steps: dict[str, StepConfig]) -> bool:
    r = ref(steps, frozenset(("reachability", "terminal_event", "dead_end")))
    return r[0] == "accept"


# ------------------------------------------------------------------ public API path ---------------------------
def make_class(specs: dict[str, tuple[tuple[Any, ...], tuple[Any, ...]]], skip: tuple[str, ...] = ()) -> Any:
    ns: dict[str, Any] = {"__module__": "vmc.dynamic23"}
    for name, (acc, ret) in specs.items():
        async def fn(self, ev):  # type: ignore[no-untyped-def]
            return None
        fn.__name__ = name
        fn.__qualname__ = f"WF.{name}"
        rets = [type(None)] if not ret else list(ret)
        fn.__annotations__ = {"ev": acc[0] if len(acc) == 1 else Union[tuple(acc)],  # type: ignore[dict-item]
                              "return": rets[0] if len(rets) == 1 else Union[tuple(rets)]}  # type: ignore[dict-item]
        ns[name] = step(fn)
    return type("WF", (Workflow,), ns)


def public_validate(specs: dict[str, tuple[tuple[Any, ...], tuple[Any, ...]]]) -> tuple[str, Any]:
    try:
        cls = make_class(specs)
        wf = cls()
        return ("accept", wf.validate())
    except (WorkflowConfigurationError, WorkflowValidationError) as e:
        return ("reject", type(e).__name__)


# ------------------------------------------------------------------ work --------------------------------------
def work(case: Any) -> Any:
    kind, arg, lo, hi = case
    v: list[Any] = []
    n = 0
    nontriv = 0
    if kind == "pairs":
        alpha = {"a8": ALPHA8, "a10": ALPHA10}[arg]
        scs = step_configs(alpha)
        for i in range(lo, hi):
            a1, r1 = scs[i]
            for j in range(i, len(scs)):
                a2, r2 = scs[j]
                steps = {"s1": cfg(a1, r1), "s2": cfg(a2, r2)}
                n += 1
                ok = compare(steps, frozenset(), v)
                if ok or connectivity_ok(steps):
                    nontriv += 1
                    for ws in SKIPS:
                        for k1 in STEP_SKIPS:
                            for k2 in (STEP_SKIPS if ws != frozenset() or k1 else STEP_SKIPS[1:]):
                                st = {"s1": cfg(a1, r1, k1), "s2": cfg(a2, r2, k2)}
                                n += 1
                                compare(st, ws, v)
            if i == lo:
                n += 1
                compare({"s1": cfg(a1, r1)}, frozenset(), v)
        for i in range(lo, hi):
            compare({"only": cfg(*scs[i])}, frozenset(), v)
            n += 1
    elif kind == "triples":
        scs = step_configs(ALPHA5)
        for i in range(lo, hi):
            for j in range(i, len(scs)):
                for k in range(j, len(scs)):
                    steps = {"s1": cfg(*scs[i]), "s2": cfg(*scs[j]), "s3": cfg(*scs[k])}
                    n += 1
                    if compare(steps, frozenset(), v):
                        nontriv += 1
    elif kind == "sfe_pairs":
        # StepFailedEvent as an ordinary member of the alphabet (returned by a step, accepted by a plain step): it is a
        # boundary event on the consuming side only, under every workflow-level skip set
        alpha = {"a4": [S1, T1, A, StepFailedEvent], "a5": [S1, T1, A, IRE, StepFailedEvent]}[arg]
        scs = step_configs(alpha)
        for i in range(lo, hi):
            a1, r1 = scs[i]
            for j in range(i, len(scs)):
                a2, r2 = scs[j]
                if StepFailedEvent not in a1 + r1 + a2 + r2:
                    continue
                for ws in SKIPS:
                    n += 1
                    if compare({"s1": cfg(a1, r1), "s2": cfg(a2, r2)}, ws, v):
                        nontriv += 1
    elif kind == "handlers":
        base = {"begin": cfg((S1,), (A,)), "work": cfg((A,), (T1,))}
        hret = [(T1,), (A,), ()]
        layouts: list[Any] = [None, ["begin"], ["work"], ["begin", "work"], ["nope"], ["h_a"], ["h_z"], ["work", "h_z"], ["work", "work"], []]
        budgets = [1, 2, 0, -1, True, "1", 1.0, None]
        for f1 in layouts:
            for m1 in budgets:
                for r1 in hret:
                    steps = dict(base)
                    steps["h_a"] = cfg((StepFailedEvent,), r1, role="catch_error", for_steps=f1, max_rec=m1)
                    n += 1
                    nontriv += 1
                    compare(steps, frozenset(), v)
        for f1, f2 in itertools.product(layouts, repeat=2):
            for order in (("h_a", "h_z"), ("h_z", "h_a")):
                for pos in ("after", "before"):
                    hs = {"h_a": cfg((StepFailedEvent,), (T1,), role="catch_error", for_steps=f1),
                          "h_z": cfg((StepFailedEvent,), (A,), role="catch_error", for_steps=f2)}
                    ordered = {k: hs[k] for k in order}
                    steps = {**base, **ordered} if pos == "after" else {**ordered, **base}
                    n += 1
                    nontriv += 1
                    compare(steps, frozenset(), v)
    elif kind == "public":
        scs = step_configs(ALPHA5)
        for i in range(lo, hi):
            for j in range(i, len(scs)):
                specs = {"s1": scs[i], "s2": scs[j]}
                steps = {"s1": cfg(*scs[i]), "s2": cfg(*scs[j])}
                want = ref(steps, frozenset())
                got = public_validate(specs)
                n += 1
                if want[0] == "accept":
                    nontriv += 1
                if want[0] != got[0]:
                    v.append(("public_validate_differs", {"expected": want[0]}, f"Workflow.validate() on {describe(steps)} -> {got}, rules say {want}"))
                elif want[0] == "accept" and want[1] != got[1]:
                    v.append(("hitl_flag_wrong", {"expected": want[1], "only_subclasses_involved": False, "via": "Workflow.validate"},
                              f"Workflow.validate() on {describe(steps)} returned {got[1]}, expected {want[1]}"))
    seen = set()
    out = []
    for c, w, d in v:
        key = (c, repr(sorted(w.items())))
        if key not in seen:
            seen.add(key)
            out.append((c, w, d, None))
    return n, nontriv, out, {"kind": kind, "range": [lo, hi], "graphs": n}


RULE = ("all pairs of step configs (1-2 accepted x 0-2 returned types) over an 8-class (quick: 2 start, 2 stop, 2 plain, "
        "InputRequired subclass, HumanResponse subclass) / 10-class (thorough: + the two base classes) event alphabet; every pair "
        "whose event connectivity is sound is re-validated under all 8 workflow-level skip sets x 4 x 4 step-level skip lists; all "
        "triples over a 5-class alphabet (thorough); all pairs that mention StepFailedEvent as an ordinary returned / accepted type over a 4-class "
        "(thorough 5-class) alphabet under all 8 workflow-level skip sets; 1-2 @catch_error handlers over 10 for_steps layouts x 8 budgets x both discovery "
        "orders and positions; all pairs over the 5-class alphabet also through generated Workflow classes and Workflow.validate(); "
        "accept/reject and the HITL flag compared with an independent restatement of the rules; non-trivial = graphs with sound "
        "connectivity / handler layouts")


def run(tier: str, seed: int) -> Any:
    alpha = "a8" if tier == "quick" else "a10"
    n = len(step_configs(ALPHA8 if tier == "quick" else ALPHA10))
    stepn = 12 if tier == "quick" else 16
    cases: list[Any] = [("pairs", alpha, i, min(n, i + stepn)) for i in range(0, n, stepn)]
    cases.append(("handlers", "", 0, 0))
    n5 = len(step_configs(ALPHA5))
    cases += [("public", "", i, min(n5, i + 8)) for i in range(0, n5, 8)]
    sfe_alpha = "a4" if tier == "quick" else "a5"
    n_sfe = len(step_configs([S1, T1, A, StepFailedEvent] if tier == "quick" else [S1, T1, A, IRE, StepFailedEvent]))
    cases += [("sfe_pairs", sfe_alpha, i, min(n_sfe, i + 8)) for i in range(0, n_sfe, 8)]
    if tier != "quick":
        cases += [("triples", "", i, min(n5, i + 2)) for i in range(0, n5, 2)]
    return run_grid(PID, RULE, cases, work, seed=seed, chunksize=1, assumptions=[
        "boundary events are InputRequiredEvent / HumanResponseEvent / StopEvent subclasses (and StepFailedEvent on the consuming side), "
        "as the validation docstrings state; resource validation is outside the statement",
        "step configs are built directly (StepConfig) except for the 5-class subset that goes through @step and Workflow.validate()"],
        extra={"step_configs": n})


def replay(rec: dict[str, Any]) -> tuple[bool, str]:
    _, _, v, _ = work(tuple(rec["case"]))
    return (not v), f"case={rec['case']}\n" + "\n".join(f"VIOLATED {c} {w}: {d}" for c, w, d, _ in v)

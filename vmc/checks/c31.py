"""C31 - timeout and cancellation stop the run cleanly and keep it resumable."""
from __future__ import annotations

import json
from typing import Any

from vmc.checks.common import Program, replay_program, run_programs
from vmc.engine import Action, BasicRuntime, EngineExec, MonRuntime, RunConfig, gate, make_step, make_workflow, stream_repr, task_outcome
from vmc.explore import Execution
from vmc.progs import ENGINE_ASSUMPTIONS, wf_chain, wf_fan
from vmc.checks.c12 import wf_retry_chain
from workflows import Context
from workflows.errors import WorkflowCancelledByUser, WorkflowTimeoutError
from workflows.events import StopEvent, WorkflowCancelledEvent, WorkflowTimedOutEvent
from workflows.runtime.types.ticks import TickStepResult

PID = "C31"

def wf_wait_retry() -> Any:
    """three wake-ups pending at once, scheduled in the order: run timeout, a waiter's own (2000 s) timeout, a 1 s retry
    delay.  Nothing ever answers the wait, so only the run timeout ends the run."""
    from vmc.events import A, B, Resp
    from workflows.events import StartEvent
    from workflows.retry_policy import retry_policy, stop_after_attempt, wait_fixed

    async def start(self, ctx, ev, inv):  # noqa: ANN001
        ctx.send_event(A(uid=1))
        await gate("start")
        return B(uid=2)

    async def ask(self, ctx, ev, inv):  # noqa: ANN001
        r = await ctx.wait_for_event(Resp, waiter_id="w")
        return StopEvent(result=f"answered:{r.uid}")

    async def flaky(self, ctx, ev, inv):  # noqa: ANN001
        await gate(f"flaky{inv.retry.retry_number}")
        if inv.retry.retry_number == 0:
            raise RuntimeError("once")
        return None

    return make_workflow("WaitRetry", [
        make_step("start", [StartEvent], [A, B], start),
        make_step("ask", [A], [StopEvent], ask),
        make_step("flaky", [B], [None], flaky, retry_policy=retry_policy(wait=wait_fixed(1), stop=stop_after_attempt(3)))])


def wf_spin(n: int = 6) -> Any:
    """after a first (suspending) step, n steps that complete back to back without ever suspending"""
    from vmc.events import A
    from workflows.events import StartEvent

    async def first(self, ctx, ev, inv):  # noqa: ANN001
        await gate("first")
        return A(uid=0)

    async def spin(self, ctx, ev, inv):  # noqa: ANN001
        return A(uid=ev.uid + 1) if ev.uid < n else StopEvent(result="spun")

    return make_workflow("Spin", [make_step("first", [StartEvent], [A], first), make_step("spin", [A], [A, StopEvent], spin)])


FAMILIES = {
    "spin": (wf_spin, "spun"),
    "chain2": (lambda: wf_chain(2), "chain2"),
    "chain3": (lambda: wf_chain(3), "chain3"),
    "fan(2,2)": (lambda: wf_fan(2, 2), [0, 1]),
    "fan(3,2)": (lambda: wf_fan(3, 2), [0, 1, 2]),
    "retry_delay": (lambda: wf_retry_chain(2.0), "ok@2"),
    "wait_retry": (wf_wait_retry, None),
}


def execute(ex: Execution, family: str, mode: str, via_handler: bool = False) -> tuple[Any, list[Any]]:
    """``via_handler``: the cancel request is made through the public handler API with a wait that gives up at once
    (``await handler.cancel_run(timeout=0)``) - giving up waiting must not do anything to the run"""
    mk, expected_result = FAMILIES[family]
    with EngineExec(ex, RunConfig(pair_time=(mode in ("timeout", "timeout_hang")), busy_ticks=(1 if mode == "timeout_busy" else 0))) as e:
        h = e.h
        cls = mk()
        timeout = 10.0 if mode in ("timeout", "timeout_hang", "timeout_busy") else None
        hang = {"on": False}
        if mode.endswith("_hang"):
            # from an explorer-chosen point on, the steps that are running block for good: only timers can fire
            e.cfg.gate_filter = lambda hh, g: not hang["on"]
            e.add_script([Action("running steps block from now on", lambda: hang.update(on=True))])
        wf = cls(timeout=timeout, runtime=MonRuntime(BasicRuntime()))
        state = {"hd": wf.run(run_id="r1")}
        hd = state["hd"]
        e.consume_stream(hd)
        live_at_timeout: dict[str, Any] = {}
        entered_after_cancel: list[str] = []
        marks: dict[str, Any] = {}

        def on_tick(hh: Any, tick: Any, adapter: Any) -> None:
            t = getattr(tick, "type", "")
            if t == "timeout":
                import time as _t

                rec = hh.scheduled_due.get(id(tick))
                if rec is not None and rec[1] is tick:
                    # (a tick that kept the loop busy past the due time excuses exactly that much: timeout_busy programs)
                    marks["timeout_late_by"] = _t.time() - max(rec[0], getattr(hh, "busy_until", 0.0))
                # steps with live bodies at the moment the timeout is processed
                marks["live_at_timeout"] = sorted(n for n, lst in hh.live.items() if lst)
                marks["stop_processed_before_timeout"] = marks.get("stop_processed", False)
            if t == "cancel_run":
                marks["cancel_idx"] = len(hh.invocations)
            if isinstance(tick, TickStepResult):
                for r in tick.result:
                    if isinstance(getattr(r, "result", None), StopEvent):
                        marks["stop_processed"] = True

        h.on_tick.append(on_tick)
        if mode in ("cancel", "cancel_resume", "cancel_resume_x2", "cancel_resume_timeout_hang"):
            if via_handler:
                e.add_script([Action("handler.cancel_run(timeout=0)", lambda: (marks.setdefault("cancel_requested_at_bodies", len(h.invocations)),
                                                                            e.loop.create_task(hd.cancel_run(timeout=0.0))))])
            else:
                e.add_script([Action("cancel_run", lambda: (marks.setdefault("cancel_requested_at_bodies", len(h.invocations)), hd.ctx._workflow_cancel_run()))])
        if mode == "cancel" and family == "spin":
            # the cancel request and the completion of the running step in the same loop iteration: the request is in the run's
            # mailbox while the non-suspending steps that follow are still to come
            def cancel_and_release() -> None:
                if "cancel_requested_at_bodies" in marks:
                    return
                marks["cancel_requested_at_bodies"] = len(h.invocations)
                hd.ctx._workflow_cancel_run()
                for g in h.pending_gates():
                    g.fut.set_result(None)

            e.add_script([Action("cancel_run + the running step completes (same loop iteration)", cancel_and_release)])
        e.cfg.stop_when = lambda hh: hd.is_done() and hh.stream_done
        e.drive()
        out = task_outcome(hd._result_task)
        v: list[Any] = []
        w = {"mode": mode, "family": family.split("(")[0]}
        if via_handler:
            w["cancel_via"] = "handler.cancel_run(timeout=0)"
        pub = h.published
        if out[0] != "pending" and isinstance(out[1], (WorkflowTimeoutError, WorkflowCancelledByUser)):
            # the run has ended by timeout / cancellation: it "stops cleanly" - no step body of it is still executing
            still = sorted(n for n, lst in h.live.items() if lst)
            if still:
                v.append(("step_still_executing_after_the_run_ended", {**w, "outcome": type(out[1]).__name__},
                          f"the run ended with {type(out[1]).__name__} but bodies of {still} are still live (trace {h.trace})"))
        if out[0] == "pending" and mode == "cancel_resume_timeout_hang":
            pass  # the steps blocked before the cancel request was made: nothing to resume (covered by timeout_hang)
        elif out[0] == "pending":
            v.append(("run_never_finishes", {**w, "steps_block_for_good": hang["on"]}, f"stuck={e.stuck} trace={h.trace}"))
        elif isinstance(out[1], WorkflowTimeoutError):
            tev = [x for x in pub if isinstance(x, WorkflowTimedOutEvent)]
            if len(tev) != 1 or not isinstance(pub[-1], WorkflowTimedOutEvent):
                v.append(("timed_out_event_missing_or_not_last", w, f"stream tail {stream_repr(pub, False)[-3:]}"))
            else:
                want = marks.get("live_at_timeout")
                if sorted(tev[0].active_steps) != want:
                    v.append(("active_steps_wrong", w, f"WorkflowTimedOutEvent.active_steps={sorted(tev[0].active_steps)}, "
                                                       f"steps with live bodies: {want}"))
            if marks.get("timeout_late_by", 0.0) > 1e-6:
                v.append(("run_timeout_fires_late", w, f"the run timeout was due {marks['timeout_late_by']:.3f}s (virtual) before it was acted on: "
                                                        "the loop slept past it"))
            if marks.get("stop_processed_before_timeout"):
                v.append(("finished_run_timed_out", w, "the StopEvent result tick was processed before the timeout tick, "
                                                       "yet the run failed with WorkflowTimeoutError"))
            if mode not in ("timeout", "timeout_hang", "timeout_busy"):
                v.append(("unexpected_timeout", w, "timeout without a configured timeout"))
        elif isinstance(out[1], WorkflowCancelledByUser):
            cev = [x for x in pub if isinstance(x, WorkflowCancelledEvent)]
            if len(cev) != 1 or not isinstance(pub[-1], WorkflowCancelledEvent):
                v.append(("cancelled_event_missing_or_not_last", w, f"stream tail {stream_repr(pub, False)[-3:]}"))
            idx = marks.get("cancel_idx")
            if idx is not None and len(h.invocations) > idx:
                v.append(("step_entered_after_cancel", w, f"bodies entered after the cancel tick: "
                                                          f"{[(i.step) for i in h.invocations[idx:]]}"))
            # the context left behind can be serialized and resumed
            try:
                snap = json.loads(json.dumps(hd.ctx.to_dict()))
            except Exception as ex_:  # noqa: BLE001
                v.append(("context_not_serializable_after_cancel", w, f"ctx.to_dict() raised {ex_!r}"))
                snap = None
            if snap is not None and mode == "cancel_resume_timeout_hang":
                # the resumed run has a timeout; its steps may block for good at any point: it must then time out
                wf2 = cls(timeout=10.0, runtime=MonRuntime(BasicRuntime()))
                h.stream_done = False
                n_pub = len(h.published)
                hd2 = wf2.run(ctx=Context.from_dict(wf2, snap), run_id="r2")
                e.consume_stream(hd2)
                e.cfg.stop_when = lambda hh: hd2.is_done() and hh.stream_done
                e.stuck = False
                e.drive()
                out2 = task_outcome(hd2._result_task)
                pub2 = h.published[n_pub:]
                if out2[0] == "pending":
                    v.append(("resumed_run_never_times_out", {**w, "steps_block_for_good": hang["on"]},
                              f"the resumed run (timeout 10 s) is still unfinished with nothing left to happen; trace {h.trace[-8:]}"))
                elif isinstance(out2[1], WorkflowTimeoutError):
                    if not pub2 or not isinstance(pub2[-1], WorkflowTimedOutEvent):
                        v.append(("timed_out_event_missing_or_not_last", {**w, "resumed": True}, f"stream tail {stream_repr(pub2, False)[-3:]}"))
                elif out2[0] != "result" or out2[1].result != expected_result:
                    v.append(("resumed_run_after_cancel_does_not_complete", {**w, "pending_delayed_retry_at_cancel": False},
                              f"resumed run ended {out2}"))
            if snap is not None and mode in ("cancel_resume", "cancel_resume_x2"):
                wf2 = cls(timeout=None, runtime=MonRuntime(BasicRuntime()))
                h.stream_done = False
                hd2 = wf2.run(ctx=Context.from_dict(wf2, snap), run_id="r2")
                e.consume_stream(hd2)
                if mode == "cancel_resume_x2":
                    # the resumed run may be cancelled again, at any point, and resumed a second time
                    e.add_script([Action("cancel_run (resumed run)", lambda: hd2.ctx._workflow_cancel_run())])
                e.cfg.stop_when = lambda hh: hd2.is_done() and hh.stream_done
                e.stuck = False
                e.drive()
                out2 = task_outcome(hd2._result_task)
                if mode == "cancel_resume_x2" and isinstance(out2[1], WorkflowCancelledByUser):
                    w = {**w, "second_cancel": True}
                    try:
                        snap2 = json.loads(json.dumps(hd2.ctx.to_dict()))
                    except Exception as ex_:  # noqa: BLE001
                        v.append(("context_not_serializable_after_cancel", w, f"ctx.to_dict() of the resumed run raised {ex_!r}"))
                        snap2 = None
                    if snap2 is not None:
                        wf3 = cls(timeout=None, runtime=MonRuntime(BasicRuntime()))
                        h.stream_done = False
                        hd3 = wf3.run(ctx=Context.from_dict(wf3, snap2), run_id="r3")
                        e.consume_stream(hd3)
                        e.cfg.stop_when = lambda hh: hd3.is_done() and hh.stream_done
                        e.stuck = False
                        e.drive()
                        out2 = task_outcome(hd3._result_task)
                pending_retry = any(getattr(t, "type", "") == "add_event" and t.attempts
                                    for r in h.runners[:1] for _, _, t in r.scheduled_wakeups)
                if out2[0] != "result" or out2[1].result != expected_result:
                    v.append(("resumed_run_after_cancel_does_not_complete",
                              {**w, "pending_delayed_retry_at_cancel": pending_retry},
                              f"resumed run ended {out2} (stuck={e.stuck}), expected result {expected_result!r}"))
        elif out[0] == "result":
            if family == "spin" and mode == "cancel" and "cancel_requested_at_bodies" in marks \
                    and len(h.invocations) - marks["cancel_requested_at_bodies"] > 3:
                # the request was in the mailbox while more than three further steps were started one after the other: each
                # time the loop chose what to handle next, the request was ready and passed over
                v.append(("cancel_request_starved_until_the_run_finished", w,
                          f"cancel_run was requested after {marks['cancel_requested_at_bodies']} step entries; {len(h.invocations) - marks['cancel_requested_at_bodies']} "
                          f"more steps were entered and the run returned {out[1]!r}"))
            if mode in ("timeout", "timeout_hang", "timeout_busy") and not marks.get("stop_processed"):
                v.append(("result_without_stop", w, "run returned a result but no StopEvent tick was seen"))
        else:
            v.append(("unexpected_outcome", w, f"{out}"))
        obs = {"outcome": out[0], "value": repr(out[1])[:60], "_metrics": {"max_concurrency": h.max_concurrency}}
        return obs, v


def programs(tier: str) -> list[Program]:
    q = tier == "quick"
    ps = []
    fams = ["chain2", "fan(2,2)", "retry_delay", "wait_retry", "spin"] + ([] if q else ["chain3", "fan(3,2)"])
    for fam in fams:
        for mode in ("timeout", "cancel", "cancel_resume", "cancel_resume_x2", "timeout_hang", "cancel_resume_timeout_hang", "timeout_busy"):
            if fam == "wait_retry" and mode not in ("timeout", "timeout_busy"):
                continue
            if mode == "timeout_busy" and fam not in ("chain2", "retry_delay", "wait_retry"):
                continue
            if mode.endswith("_hang") and fam not in ("chain2", "fan(2,2)"):
                continue
            if fam == "spin" and mode not in ("cancel", "timeout"):
                continue
            if mode == "cancel_resume_x2" and fam == "retry_delay":
                continue  # (the delayed-retry finding is already shown by the single cancel)
            ps.append(Program(f"{mode}/{fam}", {"family": fam, "mode": mode},
                              (lambda ex, fam=fam, mode=mode: execute(ex, fam, mode)),
                              max_dev=(4 if q else 6)))
    for fam in ("chain2", "fan(2,2)"):
        for mode in ("cancel", "cancel_resume"):
            ps.append(Program(f"{mode}/{fam}/via_handler_timeout0", {"family": fam, "mode": mode, "via_handler": True},
                              (lambda ex, fam=fam, mode=mode: execute(ex, fam, mode, via_handler=True)), max_dev=(4 if q else 6)))
    return ps


RULE = ("timeout (timer firing) or cancel_run arriving at every quiescent point of chain, fan-out and delayed-retry "
        "workflows x all step completion orders; WorkflowTimedOutEvent.active_steps vs steps with live bodies, "
        "the timeout tick acted on at the virtual instant it was scheduled for (also with a waiter timeout and a retry delay pending), "
        "no timeout after a processed StopEvent, WorkflowCancelledEvent then WorkflowCancelledByUser, no body "
        "entered after the cancel tick, ctx.to_dict() works and the resumed run completes with the reference "
        "result - also when the resumed run is itself cancelled at any point and resumed a second time; in the timeout_busy programs one tick keeps the loop busy until after the next scheduled wake-up (the timeout must then be acted on as soon as the loop is free); in the *_hang programs the running steps "
        "block for good from an explorer-chosen point on, and the (fresh or resumed) run with a timeout must then end with WorkflowTimeoutError; non-trivial = at least one schedule deviation")
from vmc.tables import _ROUND6 as _R6  # noqa: E402

RULE += _R6["C31"]
from vmc.tables import _ROUND8 as _R8  # noqa: E402

RULE += _R8["C31"]



def run(tier: str, seed: int) -> Any:
    return run_programs(PID, programs(tier), RULE, seed, assumptions=ENGINE_ASSUMPTIONS)


def replay(rec: dict[str, Any]) -> tuple[bool, str]:
    return replay_program(programs("thorough"), rec)

"""C30 - a workflow instance never runs more concurrent runs than its limit."""
from __future__ import annotations

import gc
from typing import Any

from vmc.checks.common import Program, replay_program, run_programs
from vmc.engine import Action, BasicRuntime, EngineExec, MonRuntime, RunConfig, gate, make_step, make_workflow, task_outcome
from vmc.explore import Execution
from vmc.progs import ENGINE_ASSUMPTIONS
from workflows.events import StartEvent, StopEvent

PID = "C30"


def wf_cls() -> type:
    async def start(self, ctx, ev, inv):  # noqa: ANN001
        tag = ev.get("tag")
        nth = self._order.count(tag)  # (a run resumed from a snapshot executes the same StartEvent again)
        self._active.append(tag)
        self._peak = max(self._peak, len(self._active))
        self._order.append(tag)
        try:
            await gate(f"run{tag}" + (f"#{nth + 1}" if nth else ""))
        finally:
            self._active.remove(tag)
        return StopEvent(result=tag)

    return make_workflow("Limited", [make_step("start", [StartEvent], [StopEvent], start)])


def execute(ex: Execution, n_runs: int, limit: int | None, second_instance: bool, hard_cancel: bool,
            staggered: bool, resumed: bool = False, named: bool = False, limit2: int | None = None, n2: int = 1) -> tuple[Any, list[Any]]:
    """``named``: both instances are constructed with the same explicit workflow_name; ``limit2`` / ``n2``: the second instance's own
    limit and number of runs"""
    with EngineExec(ex, RunConfig()) as e:
        rt = MonRuntime(BasicRuntime())
        cls = wf_cls()

        def mk(lim: int | None = limit) -> Any:
            wf = cls(timeout=None, runtime=rt, num_concurrent_runs=lim, **({"workflow_name": "shared-name"} if named else {}))
            wf._active, wf._peak, wf._order = [], 0, []
            return wf

        wf1 = mk()
        wf2 = mk(limit2 if limit2 is not None else limit) if second_instance else None
        lim2 = limit2 if limit2 is not None else limit
        handlers: dict[str, Any] = {}
        cancelled: set[str] = set()

        def start_run(wf: Any, tag: str) -> None:
            handlers[tag] = wf.run(run_id=f"run-{tag}", tag=tag)

        tags1 = [f"a{i}" for i in range(n_runs)]
        first = tags1 if not staggered else tags1[:1]
        for t in first:
            start_run(wf1, t)
        scripts = []
        if staggered:
            for t in tags1[1:]:
                scripts.append([Action(f"start {t}", (lambda t=t: start_run(wf1, t)))])
        tags2 = [f"b{i}" for i in range(n2)] if wf2 is not None else []
        for t in tags2:
            scripts.append([Action(f"start {t} (other instance)", (lambda t=t: start_run(wf2, t)))])
        if hard_cancel:
            def do_cancel() -> None:
                # hard-cancel a run that has not started executing yet (if any) - or, in the "executing" variant, one that holds a slot
                for t in tags1:
                    if t in handlers and ((t in wf1._active) if hard_cancel == "executing" else (t not in wf1._order)) \
                            and not handlers[t].is_done() and t not in cancelled:
                        import warnings

                        with warnings.catch_warnings():
                            warnings.simplefilter("ignore")
                            handlers[t].cancel()
                        cancelled.add(t)
                        return

            scripts.append([Action("hard-cancel an executing run" if hard_cancel == "executing" else "hard-cancel a queued run", do_cancel)])
        expected = set(tags1) | set(tags2)
        if resumed:
            def do_resume() -> None:
                # the context of a run that is executing its step is serialized and run again on the same instance (from
                # Context.from_dict): that is one more run of the instance and needs a slot like any other
                import json

                from workflows import Context

                for t in tags1:
                    if t in wf1._active and f"{t}r" not in handlers:
                        snap = json.loads(json.dumps(handlers[t].ctx.to_dict()))
                        handlers[f"{t}r"] = wf1.run(ctx=Context.from_dict(wf1, snap), run_id=f"run-{t}-resumed")
                        expected.add(f"{t}r")
                        return

            scripts.append([Action("resume a snapshot of an executing run", do_resume)])
        for sc in scripts:
            e.add_script(sc)
        e.cfg.stop_when = lambda hh: all(t in handlers and handlers[t].is_done() for t in expected)
        v: list[Any] = []
        w = {"limit": limit, "hard_cancel": bool(hard_cancel)}
        if hard_cancel == "executing":
            w["cancelled_run_was_executing"] = True
        if named:
            w["instances_share_an_explicit_name"] = True
        if resumed:
            w["with_resumed_run"] = True

        def on_q(hh: Any) -> None:
            if limit is not None and len(wf1._active) > limit:
                v.append(("limit_exceeded", w, f"{len(wf1._active)} runs of one instance execute steps, limit {limit}"))
            # a separate instance is never delayed by the first: once started and drained it is executing
            if wf2 is not None and lim2 is not None and len(wf2._active) > lim2:
                v.append(("limit_exceeded", {**w, "instance": "second", "limit": lim2}, f"{len(wf2._active)} runs of the second instance execute steps, limit {lim2}"))
            if wf2 is not None:
                waiting2 = [t for t in tags2 if t in handlers and not handlers[t].is_done() and t not in wf2._order]
                if waiting2 and (lim2 is None or len(wf2._active) < lim2):
                    v.append(("other_instance_delayed", w, f"run {waiting2[0]} of a second instance waits although that instance has a free slot "
                                                            f"(its active runs {sorted(wf2._active)}; first instance {sorted(wf1._active)})"))

        e.cfg.on_quiescent.append(on_q)
        e.drive()
        if limit is not None and wf1._peak > limit:
            v.append(("limit_exceeded", w, f"peak {wf1._peak} concurrent runs, limit {limit}"))
        for t in sorted(expected):
            if t in cancelled:
                continue
            hd = handlers.get(t)
            out = task_outcome(hd._result_task) if hd is not None else ("never started", None)
            if out[0] != "result":
                v.append(("run_never_executes", w, f"run {t} ended {out} (stuck={e.stuck}); order {wf1._order}"))
        gc.collect(0)
        obs = {"order": wf1._order, "peak": wf1._peak, "cancelled": sorted(cancelled),
               "_metrics": {"max_concurrency": wf1._peak + (wf2._peak if wf2 else 0)}}
        return obs, v


def execute_successor(ex: Execution, old_limit: int, new_limit: int) -> tuple[Any, list[Any]]:
    """Instances come and go on one runtime: instances with limit ``old_limit`` run and are garbage-collected, later
    instances with another limit are created (some of them at the address of a collected one: the runtime keys its
    bookkeeping by id()).  Every later instance must obey ITS limit."""
    with EngineExec(ex, RunConfig()) as e:
        rt = MonRuntime(BasicRuntime())
        cls = wf_cls()

        def mk(limit: int) -> Any:
            wf = cls(timeout=None, runtime=rt, num_concurrent_runs=limit)
            wf._active, wf._peak, wf._order = [], 0, []
            return wf

        # phase 1: a batch of short-lived instances, one finished run each (default schedule: phase 1 is set-up, not explored)
        old_ids = set()
        for k in range(24):
            wf = mk(old_limit)
            old_ids.add(id(wf))
            hd = wf.run(run_id=f"old-{k}", tag=f"o{k}")
            e.loop.drain()
            for g in e.h.pending_gates():
                g.fut.set_result(None)
            e.loop.drain()
            assert hd.is_done()
            del wf, hd
        # the harness log must not keep the finished runs (and through them the instances) alive
        import weakref

        h = e.h
        for lst in (h.invocations, h.runners, h.published, h.ticks, h.internal_sends, h.gates, h.trace):
            lst.clear()
        for lst in h.live.values():
            lst.clear()
        h.scheduled_due.clear()
        h.pre_state = h.pre_runner = None
        e.loop.drain()
        gc.collect()
        # phase 2: new instances until one lands on a recycled address (others are kept alive so the allocator moves on)
        keep, wf2 = [], None
        for _ in range(200):
            cand = mk(new_limit)
            if id(cand) in old_ids:
                wf2 = cand
                break
            keep.append(cand)
        recycled = wf2 is not None
        if wf2 is None:
            wf2 = keep[-1]
        handlers = {}
        tags = [f"n{i}" for i in range(3)]
        for t in tags:
            handlers[t] = wf2.run(run_id=f"new-{t}", tag=t)
        v: list[Any] = []
        w = {"limit": new_limit, "predecessor_limit": old_limit, "address_recycled": recycled}

        def on_q(hh: Any) -> None:
            if len(wf2._active) > new_limit:
                v.append(("limit_exceeded", w, f"{len(wf2._active)} runs of one instance execute steps, limit {new_limit} "
                                               f"(an earlier, collected instance at the same address had limit {old_limit})"))
            if len(wf2._active) < min(new_limit, sum(1 for t in tags if not handlers[t].is_done())):
                v.append(("run_never_executes", w, f"only {len(wf2._active)} runs execute although the limit is {new_limit} "
                                                   f"and {sum(1 for t in tags if not handlers[t].is_done())} are unfinished"))

        e.cfg.on_quiescent.append(on_q)
        e.cfg.stop_when = lambda hh: all(handlers[t].is_done() for t in tags)
        e.drive()
        if wf2._peak > new_limit:
            v.append(("limit_exceeded", w, f"peak {wf2._peak} concurrent runs, limit {new_limit}"))
        for t in tags:
            out = task_outcome(handlers[t]._result_task)
            if out[0] != "result":
                v.append(("run_never_executes", w, f"run {t} ended {out} (stuck={e.stuck})"))
        obs = {"peak": wf2._peak, "recycled": recycled, "_metrics": {"max_concurrency": wf2._peak, "address_recycled": int(recycled)}}
        return obs, v


def execute_nested(ex: Execution, limit: int, n_children: int) -> tuple[Any, list[Any]]:
    """a run whose step starts ``n_children`` further runs of ITS OWN workflow instance and goes on (it does not wait for them): the
    children are runs of the instance like any other - with the parent they never exceed the limit, and each of them executes"""
    with EngineExec(ex, RunConfig()) as e:
        rt = MonRuntime(BasicRuntime())
        handlers: dict[str, Any] = {}

        async def start(self, ctx, ev, inv):  # noqa: ANN001
            tag = ev.get("tag")
            self._active.append(tag)
            self._peak = max(self._peak, len(self._active))
            self._order.append(tag)
            try:
                if tag == "root":
                    for i in range(n_children):
                        handlers[f"child{i}"] = self.run(run_id=f"run-child{i}", tag=f"child{i}")
                await gate(f"run{tag}")
            finally:
                self._active.remove(tag)
            return StopEvent(result=tag)

        cls = make_workflow("Nested", [make_step("start", [StartEvent], [StopEvent], start)])
        wf = cls(timeout=None, runtime=rt, num_concurrent_runs=limit)
        wf._active, wf._peak, wf._order = [], 0, []
        handlers["root"] = wf.run(run_id="run-root", tag="root")
        expected = {"root"} | {f"child{i}" for i in range(n_children)}
        e.cfg.stop_when = lambda hh: all(t in handlers and handlers[t].is_done() for t in expected)
        v: list[Any] = []
        w = {"limit": limit, "hard_cancel": False, "runs_started_from_a_step_of_the_same_instance": True}

        def on_q(hh: Any) -> None:
            if len(wf._active) > limit:
                v.append(("limit_exceeded", w, f"{len(wf._active)} runs of one instance execute steps ({sorted(wf._active)}), limit {limit}"))

        e.cfg.on_quiescent.append(on_q)
        e.drive()
        if wf._peak > limit:
            v.append(("limit_exceeded", w, f"peak {wf._peak} concurrent runs, limit {limit}"))
        for t in sorted(expected):
            hd = handlers.get(t)
            out = task_outcome(hd._result_task) if hd is not None else ("never started", None)
            if out[0] != "result":
                v.append(("run_never_executes", w, f"run {t} ended {out} (stuck={e.stuck}); order {wf._order}"))
        gc.collect(0)
        seen = set()
        v = [x for x in v if not ((x[0], x[2][:40]) in seen or seen.add((x[0], x[2][:40])))]
        return {"order": wf._order, "peak": wf._peak, "_metrics": {"max_concurrency": wf._peak}}, v


def programs(tier: str) -> list[Program]:
    q = tier == "quick"
    ps = []
    for limit, n in (((2, 2), (2, 3)) if q else ((2, 2), (2, 3), (3, 4), (1, 2))):
        ps.append(Program(f"nested_runs(limit={limit},children={n})", {"limit": limit, "children": n, "nested": True},
                          (lambda ex, limit=limit, n=n: execute_nested(ex, limit, n)), max_dev=(4 if q else 6), min_concurrency=min(limit, n)))
    for n in ((2, 3) if q else (2, 3, 4)):
        for limit in ((1, 2) if q else (1, 2, 3)):
            if limit > n:
                continue
            for staggered in (False, True):
                ps.append(Program(f"runs(n={n},limit={limit},staggered={staggered})", {"n": n, "limit": limit},
                                  (lambda ex, n=n, limit=limit, st=staggered: execute(ex, n, limit, False, False, st)),
                                  min_concurrency=min(n, limit)))
    # more runs than twice the limit, started one by one: a run can finish while a sibling still holds a slot and nobody queues
    if q:  # (the thorough tier has this one in the loop above)
        ps.append(Program("runs(n=4,limit=2,staggered=True)", {"n": 4, "limit": 2},
                          (lambda ex: execute(ex, 4, 2, False, False, True)), max_dev=4, min_concurrency=2))
    if not q:
        ps.append(Program("runs(n=5,limit=2,staggered=True)", {"n": 5, "limit": 2},
                          (lambda ex: execute(ex, 5, 2, False, False, True)), max_dev=6, min_concurrency=2))
        ps.append(Program("runs(n=6,limit=3,staggered=True)", {"n": 6, "limit": 3},
                          (lambda ex: execute(ex, 6, 3, False, False, True)), max_dev=5, min_concurrency=3))
    # two instances under one explicit name with different limits: the wide one's runs are in flight first
    ps.append(Program("two_instances_same_name(wide=3,narrow=1)", {"named": True, "limit": 3, "limit2": 1},
                      lambda ex: execute(ex, 2, 3, True, False, False, named=True, limit2=1, n2=2), max_dev=(4 if q else 6)))
    ps.append(Program("runs(n=3,limit=None)", {}, lambda ex: execute(ex, 3, None, False, False, False), min_concurrency=3))
    for limit in (1, 2):
        ps.append(Program(f"two_instances(n=2,limit={limit})", {}, (lambda ex, limit=limit: execute(ex, 2, limit, True, False, False)),
                          max_dev=(4 if q else None)))
        ps.append(Program(f"two_instances_same_name(n=2,limit={limit})", {"named": True}, (lambda ex, limit=limit: execute(ex, 2, limit, True, False, False, named=True)),
                          max_dev=(4 if q else None)))
        ps.append(Program(f"hard_cancel_executing(n=3,limit={limit})", {"hard_cancel": "executing"},
                          (lambda ex, limit=limit: execute(ex, 3, limit, False, "executing", False)), max_dev=(4 if q else None)))
        ps.append(Program(f"hard_cancel_executing(n=3,limit={limit},staggered)", {"hard_cancel": "executing", "staggered": True},
                          (lambda ex, limit=limit: execute(ex, 3, limit, False, "executing", True)), max_dev=(4 if q else 6)))
        ps.append(Program(f"hard_cancel(n=3,limit={limit})", {}, (lambda ex, limit=limit: execute(ex, 3, limit, False, True, False)),
                          max_dev=(4 if q else None)))
    for n, limit in (((2, 1), (2, 2)) if q else ((2, 1), (2, 2), (3, 1), (3, 2))):
        for staggered in (False, True):
            ps.append(Program(f"runs_plus_resumed_snapshot(n={n},limit={limit},staggered={staggered})", {"n": n, "limit": limit, "resumed": True},
                              (lambda ex, n=n, limit=limit, st=staggered: execute(ex, n, limit, False, False, st, True)),
                              max_dev=(4 if q else None)))
    for old_limit, new_limit in ((3, 1), (1, 2)):
        ps.append(Program(f"successor_instance(old_limit={old_limit},limit={new_limit})", {"old": old_limit, "limit": new_limit},
                          (lambda ex, o=old_limit, nl=new_limit: execute_successor(ex, o, nl))))
    if not q:
        ps.append(Program("hard_cancel_staggered(n=4,limit=2)", {}, lambda ex: execute(ex, 4, 2, False, True, True), max_dev=5))
    return ps


RULE = ("2-4 runs of one workflow instance with num_concurrent_runs 1..3 (and unlimited), started together or "
        "staggered, a second instance, hard cancel of a queued run, one more run started from the serialized context of an executing run, a successor instance created after earlier instances with another "
        "limit were garbage-collected (address reuse is reported in the evidence) x all start/finish interleavings; the number of "
        "runs executing steps is checked in every quiescent state, every non-cancelled run must execute, a second "
        "instance must never wait; non-trivial = at least one schedule deviation")
from vmc.tables import _ROUND6 as _R6  # noqa: E402

RULE += _R6["C30"]
from vmc.tables import _ROUND7 as _R7  # noqa: E402

RULE += _R7["C30"]
from vmc.tables import _ROUND8 as _R8  # noqa: E402

RULE += _R8["C30"]



def run(tier: str, seed: int) -> Any:
    return run_programs(PID, programs(tier), RULE, seed, assumptions=ENGINE_ASSUMPTIONS)


def replay(rec: dict[str, Any]) -> tuple[bool, str]:
    return replay_program(programs("thorough"), rec)

"""Shared driver: explore a list of programs in parallel, collect stats + violations."""
from __future__ import annotations

import multiprocessing as mp
import os
import random
import signal
from dataclasses import dataclass, field
from typing import Any, Callable

from vmc.explore import Execution, ExploreStats, Pruned, digest_of, explore
from vmc.report import CheckResult, Violation


class HarnessError(Exception):
    pass


class StopExploration(Exception):
    """abandon the exploration of this program (a non-terminating execution was reported)"""


class ExecutionTimeout(KeyboardInterrupt):
    """One execution exceeded its wall-clock cap (KeyboardInterrupt subclass so that asyncio's
    Task / Handle machinery re-raises it instead of storing it in a task)."""


# cap per execution: CPU seconds of this process (a task that spins without suspending burns CPU; a process that
# is merely starved on a loaded machine does not), plus a generous wall-clock backstop for code that blocks
EXEC_CAP_S = float(os.environ.get("VMC_EXEC_CAP_S", "60"))
EXEC_WALL_CAP_S = float(os.environ.get("VMC_EXEC_WALL_CAP_S", str(EXEC_CAP_S * 10)))


def _alarm(signum, frame):  # noqa: ANN001
    raise ExecutionTimeout()


@dataclass
class Program:
    name: str
    params: dict[str, Any]
    # execute(ex) -> (observation (json-able), list[(clause, witness, detail)])
    execute: Callable[[Execution], tuple[Any, list[tuple[str, dict[str, Any], str]]]]
    max_dev: int | None = None
    max_execs: int | None = None
    prune: bool = False
    outcome_key: Callable[[Any], str] | None = None
    # optional post-exploration check over the set of outcomes: (outcomes dict) -> violations
    post: Callable[[dict[str, int]], list[tuple[str, dict[str, Any], str]]] | None = None
    min_concurrency: int = 0
    time_budget_s: float | None = None  # wall-clock cap for exploring this program (reported as a cap)
    # (clause, witness): a single execution that exceeds the per-execution wall-clock cap (tens of seconds for work
    # that takes milliseconds) is reported as this violation - the code under test spins without ever suspending -
    # instead of as a harness error.  Only for programs whose executions cannot legitimately take long.
    nontermination: tuple[str, dict[str, Any]] | None = None


@dataclass
class ProgResult:
    name: str
    params: dict[str, Any]
    executions: int = 0
    pruned: int = 0
    transitions: int = 0
    states: int = 0
    outcomes: dict[str, int] = field(default_factory=dict)
    nontrivial: int = 0
    max_depth: int = 0
    bound_completed: Any = None
    exhaustive: bool = False
    caps: list[str] = field(default_factory=list)
    samples: list[Any] = field(default_factory=list)
    violations: list[tuple[str, dict[str, Any], str, dict[str, Any]]] = field(default_factory=list)
    extra: dict[str, Any] = field(default_factory=dict)
    error: str | None = None


_PROGRAMS: list[Program] = []


def _run_one(idx: int) -> ProgResult:
    import traceback

    p = _PROGRAMS[idx]
    pr = ProgResult(p.name, p.params)
    seen_sigs: set[str] = set()
    extra_max: dict[str, Any] = {}

    signal.signal(signal.SIGALRM, _alarm)
    signal.signal(signal.SIGPROF, _alarm)

    def run_fn(ex: Execution) -> Any:
        signal.setitimer(signal.ITIMER_REAL, EXEC_WALL_CAP_S)
        signal.setitimer(signal.ITIMER_PROF, EXEC_CAP_S)
        try:
            obs, viols = p.execute(ex)
        except ExecutionTimeout:
            if p.nontermination is not None:
                signal.setitimer(signal.ITIMER_REAL, 0)
                signal.setitimer(signal.ITIMER_PROF, 0)
                clause, witness = p.nontermination
                if len(pr.violations) < 20:
                    pr.violations.append((clause, witness, f"execution did not terminate within {EXEC_CAP_S}s of CPU time "
                                          f"(a task spins without suspending); choices so far {ex.taken}",
                                          {"program": p.name, "params": p.params, "choices": list(ex.taken), "labels": ex.labels[:60]}))
                raise StopExploration()
            raise HarnessError(
                f"execution exceeded {EXEC_CAP_S}s CPU / {EXEC_WALL_CAP_S}s wall clock (non-terminating code under test?) "
                f"program={p.name} choices={ex.taken}")
        finally:
            signal.setitimer(signal.ITIMER_REAL, 0)
            signal.setitimer(signal.ITIMER_PROF, 0)
        if isinstance(obs, dict) and "_metrics" in obs:
            for k, v in obs.pop("_metrics").items():
                extra_max[k] = max(extra_max.get(k, 0), v)
        for clause, witness, detail in viols:
            sig = digest_of([clause, witness])
            if sig in seen_sigs:
                continue
            seen_sigs.add(sig)
            # determinism guard: replay twice, identical violation signature required
            for _ in range(2):
                ex2 = Execution(ex.taken)
                try:
                    obs2, viols2 = p.execute(ex2)
                except Pruned:  # pragma: no cover
                    raise HarnessError("replay pruned")
                if isinstance(obs2, dict):
                    obs2.pop("_metrics", None)
                if digest_of([clause, witness]) not in {digest_of([c, w]) for c, w, _ in viols2}:
                    raise HarnessError(
                        f"violation not reproducible on replay: {p.name} {clause} {witness} choices={ex.taken}"
                    )
            if len(pr.violations) < 20:
                pr.violations.append(
                    (clause, witness, detail,
                     {"program": p.name, "params": p.params, "choices": list(ex.taken), "labels": ex.labels[:60]})
                )
        return obs

    try:
        import time as _t

        budget = p.time_budget_s if p.time_budget_s is not None else float(os.environ.get("VMC_PROGRAM_BUDGET_S", "0") or 0)
        st: ExploreStats = explore(
            run_fn, max_dev=p.max_dev, max_execs=p.max_execs, prune=p.prune, outcome_key=p.outcome_key,
            deadline=(_t.perf_counter() + budget) if budget else None,
        )
    except StopExploration:
        pr.executions = 1
        pr.caps = ["nonterminating_execution"]
        return pr
    except BaseException:  # noqa: BLE001
        pr.error = traceback.format_exc()
        return pr
    pr.executions = st.executions
    pr.pruned = st.pruned
    pr.transitions = st.transitions
    pr.states = len(st.states) if st.states else len(st.outcomes)
    pr.outcomes = st.outcomes
    pr.nontrivial = len(st.nontrivial)
    pr.max_depth = st.max_depth
    pr.bound_completed = st.bound_completed
    pr.exhaustive = st.exhaustive
    pr.caps = sorted(set(st.caps))
    pr.samples = [{"program": p.name, "params": p.params, **s} for s in st.samples[:2]]
    pr.extra = extra_max
    if p.post is not None:
        for clause, witness, detail in p.post(st.outcomes):
            pr.violations.append((clause, witness, detail, {"program": p.name, "params": p.params, "choices": []}))
    if p.min_concurrency and extra_max.get("max_concurrency", 0) < p.min_concurrency:
        pr.error = (f"vacuity: program {p.name} never reached concurrency {p.min_concurrency} "
                    f"(max {extra_max.get('max_concurrency', 0)})")
    return pr


def run_programs(pid: str, programs: list[Program], rule: str, seed: int = 0,
                 assumptions: list[str] | None = None, workers: int | None = None) -> CheckResult:
    global _PROGRAMS
    if os.environ.get("VMC_ONLY"):  # development only: run the programs whose name contains this text
        programs = [p for p in programs if os.environ["VMC_ONLY"] in p.name]
    _PROGRAMS = programs
    res = CheckResult(pid, rule)
    res.assumptions = list(assumptions or [])
    order = list(range(len(programs)))
    random.Random(seed).shuffle(order)  # VERIF_SEED only permutes visiting order
    nw = workers or min(16, os.cpu_count() or 1, max(1, len(programs)))
    results: list[ProgResult] = []
    if nw <= 1 or len(programs) == 1:
        results = [_run_one(i) for i in order]
    else:
        ctx = mp.get_context("fork")
        with ctx.Pool(nw) as pool:
            results = list(pool.imap_unordered(_run_one, order, chunksize=1))
    results.sort(key=lambda r: r.name)
    all_exh = True
    per_prog = []
    n_outcomes = 0
    extra: dict[str, Any] = {}
    for r in results:
        if r.error:
            res.sanity_errors.append(f"{r.name}: {r.error}")
            continue
        res.evaluations += r.executions
        res.transitions += r.transitions
        res.states += r.states
        res.distinct_nontrivial += r.nontrivial
        res.traces_validated += r.executions
        all_exh = all_exh and r.exhaustive
        n_outcomes += len(r.outcomes)
        for k, v in r.extra.items():
            extra[k] = max(extra.get(k, 0), v)
        per_prog.append({
            "program": r.name, "executions": r.executions, "pruned": r.pruned,
            "distinct_outcomes": len(r.outcomes), "max_depth": r.max_depth,
            "deviation_bound_completed": ("unbounded" if r.bound_completed == -1 else r.bound_completed),
            "caps": r.caps, **r.extra,
        })
        if len(res.samples) < 8:
            res.samples += r.samples[:1]
        for clause, witness, detail, replay in r.violations:
            res.add_violation(Violation(clause, witness, detail, replay))
    res.exhaustive = all_exh
    res.extra = {"programs_explored": len(results), "distinct_outcomes": n_outcomes,
                 "per_program": per_prog, **extra}
    return res


def replay_program(programs: list[Program], rec: dict[str, Any]) -> tuple[bool, str]:
    for p in programs:
        if p.name == rec["program"]:
            ex = Execution(rec["choices"])
            obs, viols = p.execute(ex)
            lines = [f"program={p.name} params={p.params}", f"choices={ex.taken}", "labels=" + " ".join(ex.labels),
                     f"observation={obs}"]
            for c, w, d in viols:
                lines.append(f"VIOLATED clause={c} witness={w}: {d}")
            return (not viols), "\n".join(lines)
    raise HarnessError(f"unknown program {rec['program']}")

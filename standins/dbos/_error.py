class DBOSNonExistentWorkflowError(Exception):
    pass

import json as _json


class Response:
    media_type = None

    def __init__(self, content=None, status_code=200, headers=None, media_type=None):
        self.content = content
        self.status_code = status_code
        self.headers = dict(headers or {})
        if media_type is not None:
            self.media_type = media_type


class JSONResponse(Response):
    media_type = "application/json"

    @property
    def body(self):
        return _json.dumps(self.content).encode()


class PlainTextResponse(Response):
    media_type = "text/plain"


class StreamingResponse(Response):
    def __init__(self, content, status_code=200, headers=None, media_type=None):
        super().__init__(None, status_code, headers, media_type)
        self.body_iterator = content

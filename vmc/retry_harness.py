"""Drive one failing step through the real engine on a virtual clock (shared by C05 / C06)."""
from __future__ import annotations

import asyncio
import time
from dataclasses import dataclass, field
from typing import Any, Callable

from vmc.engine import BasicRuntime, EngineExec, MonInternalAdapter, MonRuntime, RunConfig, make_step, make_workflow, task_outcome
from vmc.explore import Execution
from vmc.loop import VLoop
from workflows import catch_error
from workflows.events import StartEvent, StepFailedEvent, StopEvent, WorkflowFailedEvent


class WallClockAdapter(MonInternalAdapter):
    """The DBOS shape: get_now() is wall-clock time."""

    async def get_now(self) -> float:
        return time.time()


class WallClockRuntime(MonRuntime):
    def get_internal_adapter(self, workflow: Any) -> Any:
        return WallClockAdapter(self._decorated.get_internal_adapter(workflow))


@dataclass
class Attempt:
    t_enter: float
    t_fail: float | None
    retry_number: Any
    last_exception: Any
    elapsed_seconds: Any
    raised: Any = None


@dataclass
class RetryObs:
    attempts: list[Attempt] = field(default_factory=list)
    outcome: tuple[str, Any] = ("pending", None)
    failed_event: Any = None  # WorkflowFailedEvent or StepFailedEvent
    stuck: bool = False
    capped: bool = False
    sibling_attempts: list[Attempt] = field(default_factory=list)
    wait_timeouts: int = 0
    first_entry_t: float | None = None


def run_failing(
    policy: Any,
    exc_for_attempt: Callable[[int], BaseException | None],
    dur: float = 0.0,
    clock: tuple[float, float] = (1_700_000_000.0, 5_000.0),
    wall_adapter: bool = False,
    with_handler: bool = False,
    max_actions: int = 200,
    queue_wait: float = 0.0,
    busy_block: float = 0.0,
    wait_on_attempt: int | None = None,
    lag: float = 0.0,
    sibling: str | None = None,
    sibling_policy: Any = None,
    wait_timeout: float = 0.0,
) -> RetryObs:
    """``exc_for_attempt(i)`` (i = 0,1,..) gives the exception attempt i raises, or None to succeed."""
    obs = RetryObs()
    ex = Execution([])
    loop = VLoop(base_wall=clock[0], base_mono=clock[1])
    cfg = RunConfig(max_actions=max_actions)
    with EngineExec(ex, cfg, loop=loop) as e:
        e.h.lag_before_failed_result = lag
        counter = {"n": 0}
        from vmc.events import Work

        async def feeder(self, ctx, ev, inv):  # noqa: ANN001
            # the failing event has to wait in the step queue behind another event that occupies the
            # only worker for ``queue_wait`` seconds
            if not busy_block:
                ctx.send_event(Work(uid=0))
            ctx.send_event(Work(uid=1))
            return None

        async def start(self, ctx, ev, inv):  # noqa: ANN001
            if (queue_wait or busy_block) and getattr(ev, "uid", 1) == 0:
                await asyncio.sleep(queue_wait or busy_block)
                return None
            if obs.first_entry_t is None and not ((queue_wait or busy_block) and getattr(ev, "uid", 1) == 0):
                obs.first_entry_t = loop.vt
            if wait_on_attempt is not None and sum(1 for a in obs.attempts if a.raised is not None) == wait_on_attempt:
                # this attempt first waits for an answer from outside (suspends the invocation; the body is entered again
                # once the answer is there and then gets it from this same call): waiting is not an attempt
                from vmc.events import Ask, Resp

                if wait_timeout:
                    # nobody answers: the wait ends with its TimeoutError (the body is entered again for that), after which the
                    # attempt goes on and fails - the time spent waiting belongs to this attempt, its retry number does not change
                    try:
                        await ctx.wait_for_event(Resp, waiter_id="rwt", timeout=wait_timeout)
                    except TimeoutError:
                        obs.wait_timeouts += 1
                else:
                    await ctx.wait_for_event(Resp, waiter_id="rw", waiter_event=Ask(uid=1), timeout=None)
            i = counter["n"]
            counter["n"] += 1
            ri = ctx.retry_info()
            att = Attempt(loop.vt, None, ri.retry_number, ri.last_exception, ri.elapsed_seconds)
            obs.attempts.append(att)
            if dur > 0:
                await asyncio.sleep(dur)
            exc = exc_for_attempt(i)
            if exc is not None:
                att.t_fail = loop.vt
                att.raised = exc
                if busy_block:
                    # a blocker takes the step's only worker as soon as this attempt has failed, so the retry
                    # comes due while the worker is busy and has to wait in the step queue
                    ctx.send_event(Work(uid=0))
                raise exc
            return StopEvent(result="ok")

        async def sib(self, ctx, ev, inv):  # noqa: ANN001
            # another step that accepts the same event as the failing one: "steady" never fails, "flaky" always fails
            # under its own (larger) budget; its retry bookkeeping and the failing step's must not touch each other
            if (queue_wait or busy_block) and getattr(ev, "uid", 1) == 0:
                return None
            ri = ctx.retry_info()
            att = Attempt(loop.vt, None, ri.retry_number, ri.last_exception, ri.elapsed_seconds)
            obs.sibling_attempts.append(att)
            if sibling == "flaky":
                if dur > 0:
                    await asyncio.sleep(dur)
                att.t_fail = loop.vt
                att.raised = RuntimeError(f"sibling fail{len(obs.sibling_attempts) - 1}")
                raise att.raised
            return None

        if queue_wait or busy_block:
            steps = [make_step("feeder", [StartEvent], [Work, None], feeder, track=False),
                     make_step("start", [Work], [StopEvent, None], start, retry_policy=policy, track=False, num_workers=1)]
        else:
            steps = [make_step("start", [StartEvent], [StopEvent], start, retry_policy=policy, track=False)]
        if sibling:
            steps.append(make_step("sib", [Work] if (queue_wait or busy_block) else [StartEvent], [StopEvent, None], sib,
                                   retry_policy=sibling_policy if sibling == "flaky" else None, track=False))
        if with_handler:
            async def on_err(self, ctx, ev, inv):  # noqa: ANN001
                obs.failed_event = ev
                return StopEvent(result="handled")

            steps.append(make_step("on_err", [StepFailedEvent], [StopEvent], on_err, decorator=catch_error, track=False))
        cls = make_workflow("Failing", steps)
        rt = WallClockRuntime(BasicRuntime()) if wall_adapter else MonRuntime(BasicRuntime())
        wf = cls(timeout=None, runtime=rt)
        hd = wf.run(run_id="retry-run")
        e.consume_stream(hd)
        cfg.stop_when = lambda hh: hd.is_done() and hh.stream_done
        if wait_on_attempt is not None and not wait_timeout:
            answered = {"n": 0}

            def answer(hh: Any) -> None:
                # the client answers as soon as the wait exists
                if answered["n"] == 0 and hh.runners and any(w.resolved_event is None for ws in hh.runners[-1].state.workers.values()
                                                              for w in ws.collected_waiters):
                    answered["n"] = 1
                    from vmc.engine import Action
                    from vmc.events import Resp

                    e.add_script([Action("answer the wait", lambda: hd.ctx.send_event(Resp(uid=1, key="k")))])

            cfg.on_quiescent.append(answer)
        e.drive()
        obs.stuck = e.stuck
        obs.capped = e.capped
        obs.outcome = task_outcome(hd._result_task)
        if not with_handler:
            for ev in e.h.published:
                if isinstance(ev, WorkflowFailedEvent):
                    obs.failed_event = ev
    return obs

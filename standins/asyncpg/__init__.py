"""Stand-in for asyncpg (absent): names only; the Postgres variants are never constructed in the checks."""


class Pool:  # pragma: no cover
    pass


class Connection:  # pragma: no cover
    pass


class Record(dict):  # pragma: no cover
    pass

"""C18 - events and ticks survive serialization unchanged.

Exhaustive enumeration of (event class shape) x (JSON value alphabet for dynamic fields / results / Any-typed
fields) through three real channels - JsonSerializer, the client envelopes, the persisted tick format (every
tick and step-result type) - each through real json text, compared field by field with the original.
"""
from __future__ import annotations

import json
from datetime import datetime, timezone
from typing import Any

from vmc import bootstrap

bootstrap.setup()

from vmc import events18 as E  # noqa: E402
from vmc import events18b as Eb  # noqa: E402
from vmc.checks.grid import run_grid  # noqa: E402
from llama_agents.client.protocol.serializable_events import EventEnvelope, EventEnvelopeWithMetadata  # noqa: E402
from workflows.context.serializers import JsonSerializer  # noqa: E402
from workflows.events import (  # noqa: E402
    Event, HumanResponseEvent, InputRequiredEvent, StartEvent, StepFailedEvent, StopEvent, WorkflowCancelledEvent,
    WorkflowFailedEvent, WorkflowTimedOutEvent,
)
from workflows.runtime.types import results as R  # noqa: E402
from workflows.runtime.types import ticks as T  # noqa: E402

PID = "C18"

# JSON-representable value alphabet (depth <= 2); the serializer's reserved marker keys are excluded
VALUES: list[Any] = [
    None, True, False, 0, 1, -7, 2 ** 53 + 1, 10 ** 30, 1.5, -2.25e-7, 1e300, "", "x", "é☃\u0000", "a\nb\"c\\",
    [], [1, "x", None, True], {}, {"k": 1}, {"k": [1, {"z": None}], "": ""}, [[1], [{"a": "b"}]],
    {"value": {"qualified_name": "q"}}, {"1": 1, "é": [1.5]},
    # plain JSON data that LOOKS like the serializer's own type markers (a saved snapshot carried as a value): it is data
    {"__is_pydantic": True, "qualified_name": "vmc.events18.Inner", "value": {"x": 1, "tags": []}},
    {"saved": {"__is_pydantic": True, "qualified_name": "workflows.events.StopEvent", "value": {"_data": {"result": 1}}}},
    [{"__is_component": True, "qualified_name": "no.such.module.Cls", "value": {}}],
]
VALUES_THOROUGH_EXTRA: list[Any] = [
    {"a": {"b": {"c": [1, [2, [3]]]}}}, [[[[]]]], 0.1 + 0.2, -0.0, 2 ** 64, -(2 ** 63) - 1, "퟿￿", " ", "null", "1",
    {"_data": 1}, {"result": 2}, [None, None], [0, False, "", [], {}],
]
KEYS = ["a", "result", "value", "type", "qualified_name", "uid", "x y", "é", "Z"]


def jcanon(v: Any) -> str:
    return json.dumps(v, sort_keys=True, ensure_ascii=True, allow_nan=False)


def exc_same(a: Any, b: Any) -> bool:
    return type(a) is type(b) and str(a) == str(b)


def compare(a: Any, b: Any, path: str = "") -> list[str]:
    """field-by-field comparison of two events; returns differences"""
    out: list[str] = []
    if type(a) is not type(b):
        return [f"{path}: class {type(a).__module__}.{type(a).__qualname__} became {type(b).__module__}.{type(b).__qualname__}"]
    for name in type(a).model_fields:
        va, vb = getattr(a, name), getattr(b, name)
        out += cmp_val(va, vb, f"{path}.{name}")
    da, db = dict(a._data), dict(b._data)
    if set(da) != set(db):
        out.append(f"{path}: dynamic fields {sorted(da)} became {sorted(db)}")
    else:
        for k in da:
            out += cmp_val(da[k], db[k], f"{path}[{k!r}]")
    if isinstance(a, StopEvent):
        out += cmp_val(a.result, b.result, f"{path}.result")
    return out


def cmp_val(va: Any, vb: Any, path: str) -> list[str]:
    if isinstance(va, Event):
        if not isinstance(vb, Event):
            return [f"{path}: event became {type(vb).__name__}"]
        return compare(va, vb, path)
    if isinstance(va, BaseException):
        return [] if exc_same(va, vb) else [f"{path}: exception {type(va).__name__}({str(va)!r}) became {type(vb).__name__}({str(vb)!r})"]
    if isinstance(va, E.Inner):
        return [] if (type(vb) is E.Inner and va == vb) else [f"{path}: {va!r} became {vb!r}"]
    if isinstance(va, datetime):
        return [] if va == vb else [f"{path}: {va!r} became {vb!r}"]
    try:
        return [] if jcanon(va) == jcanon(vb) else [f"{path}: {va!r} became {vb!r}"]
    except (TypeError, ValueError):
        return [] if va == vb else [f"{path}: {va!r} became {vb!r}"]


# ------------------------------------------------------------------ event shapes -----------------------------
def exceptions() -> list[Any]:
    chained = RuntimeError("outer")
    chained.__cause__ = ValueError("inner")
    return [ValueError("boom"), RuntimeError(""), TimeoutError("t/o é"), KeyError("k"), OSError(2, "No such file"),
            E.CustomErr("custom é"), E.CustomValueErr("cv"), E.CustomKeyErr("user-42"), E.CustomKeyErr(7), E.CustomLookupErr("lk"), chained, Exception("multi\nline"), ZeroDivisionError("division by zero"),
            IndexError("i"), AssertionError("a"),
            # keys that are strings which read as Python literals, or carry quotes themselves
            KeyError("42"), KeyError("None"), KeyError("[1]"), KeyError("'quoted'"), KeyError("it's"), KeyError(""), KeyError(42), KeyError(None),
            E.CustomKeyErr("7"), E.CustomKeyErr("True")]


def shapes(tier: str) -> list[tuple[str, Any]]:
    """(shape name, constructor thunk) - every thunk builds a fresh event"""
    vals = VALUES + (VALUES_THOROUGH_EXTRA if tier != "quick" else [])
    out: list[tuple[str, Any]] = []
    for v in vals:
        for k in (KEYS if tier != "quick" else KEYS[:5]):
            out.append((f"Event({k}=v)", lambda v=v, k=k: Event(**{k: v})))
        out.append(("Event(a=v,b=v2)", lambda v=v: Event(a=v, b=[v, {"n": v}])))
        out.append(("Typed+dyn", lambda v=v: E.Typed(i=3, s="é", o=None, f=1.5, flag=True, extra=v)))
        out.append(("Nested(any=v)", lambda v=v: E.Nested(inner=E.Inner(x=2, tags=["a", ""]), nums=[1, 2], m={"k": 1}, anyv=v)))
        out.append(("Nested+dyn", lambda v=v: E.Nested(inner=E.Inner(), dyn=v)))
        out.append(("TStart+dyn", lambda v=v: E.TStart(topic="t", n=0, dyn=v)))
        out.append(("StartEvent(dyn)", lambda v=v: StartEvent(q=v)))
        out.append(("StopEvent(result=v)", lambda v=v: StopEvent(result=v)))
        for v2 in (vals if tier != "quick" else vals[::3]):
            out.append(("StopEvent(result=v,dyn=v2)", lambda v=v, v2=v2: StopEvent(result=v, foo=v2)))
        out.append(("StopEvent(dyn only)", lambda v=v: StopEvent(foo=v, bar=1)))
        out.append(("TStop(typed)+result", lambda v=v: E.TStop(a=5, note="é", result=v)))
        out.append(("TStop(typed)+dyn", lambda v=v: E.TStop(a=5, note=None, dyn=v)))
        out.append(("TStopNested(any=v)", lambda v=v: E.TStopNested(inner=E.Inner(x=1), anyv=v)))
        out.append(("InputRequiredEvent(dyn)", lambda v=v: InputRequiredEvent(prefix=v, k=1)))
        out.append(("HumanResponseEvent(dyn)", lambda v=v: HumanResponseEvent(response=v)))
        out.append(("TAsk+dyn", lambda v=v: E.TAsk(prefix="p", dyn=v)))
        out.append(("TAnswer+dyn", lambda v=v: E.TAnswer(response="r", dyn=v)))
        out.append(("WorkflowCancelledEvent(dyn)", lambda v=v: WorkflowCancelledEvent(why=v)))
        out.append(("WorkflowTimedOutEvent+dyn", lambda v=v: WorkflowTimedOutEvent(timeout=1.5, active_steps=["a", "b"], dyn=v)))
    # start events whose own fields are named like envelope keys (sent bare by the client, read with the workflow's start class)
    for v in vals[:6]:
        out.append(("UploadStart(type=...)+dyn", lambda v=v: E.UploadStart(type="csv", topic="é", dyn=v)))
        out.append(("RoutedStart(qualified_name=...)+dyn", lambda v=v: E.RoutedStart(qualified_name="a.b.C", n=2, dyn=v)))
    out.append(("Event()", lambda: Event()))
    out.append(("StopEvent()", lambda: StopEvent()))
    out.append(("Typed(min)", lambda: E.Typed(i=-1)))

    # typed fields left to their defaults (never passed, never assigned): the value the event carries must come back
    def stamped(cls: Any, fill: bool, **kw: Any) -> Any:
        def mk() -> Any:
            E.SEQ["n"] = 100  # the default_factory gives 101 for every event built by this thunk ...
            e = cls(**kw)
            E.SEQ["n"] = 500  # ... and something else if it is (wrongly) called again while loading
            if fill:
                e.tags.append("urgent")
                e.tags.append("é")
            return e

        return mk

    for v in vals[:4]:
        out.append(("Stamped(default_factory seq)+dyn", stamped(E.Stamped, False, dyn=v)))
        out.append(("Stamped(tags filled in place)+dyn", stamped(E.Stamped, True, note="x", dyn=v)))
        out.append(("StampedStop(default_factory seq)+result", stamped(E.StampedStop, False, result=v)))
        out.append(("StampedStop(tags filled in place)+result", stamped(E.StampedStop, True, result=v)))
    for i, _ in enumerate(exceptions()):
        out.append(("WorkflowFailedEvent(exc)", lambda i=i: WorkflowFailedEvent(step_name="s", exception=exceptions()[i], attempts=3, elapsed_seconds=1.25)))
        out.append(("StepFailedEvent(exc)", lambda i=i: StepFailedEvent(
            step_name="s", input_event=E.Typed(i=1, dyn={"k": [1]}), exception=exceptions()[i], attempts=2, elapsed_seconds=0.5,
            failed_at=datetime(2026, 1, 2, 3, 4, 5, 678000, tzinfo=timezone.utc))))
    out.append(("StepFailedEvent(input=StopEvent-like dyn)", lambda: StepFailedEvent(
        step_name="s", input_event=Event(a={"b": None}), exception=ValueError("x"), attempts=1, elapsed_seconds=0.0,
        failed_at=datetime(2026, 1, 2, tzinfo=timezone.utc))))
    return out


# ------------------------------------------------------------------ channels ----------------------------------
_SER = JsonSerializer()
REGISTRY = [Event, StartEvent, StopEvent, InputRequiredEvent, HumanResponseEvent, WorkflowCancelledEvent, WorkflowTimedOutEvent,
            WorkflowFailedEvent, StepFailedEvent, E.Typed, E.Nested, E.TStart, E.UploadStart, E.RoutedStart, E.TStop, E.TStopNested, E.TAsk, E.TAnswer, E.Stamped, E.StampedStop]


def ch_json(e: Event) -> Event:
    return _SER.deserialize(_SER.serialize(e))


def ch_json_nested(e: Event) -> Event:
    # an event stored inside a container (state store / context payloads)
    back = _SER.deserialize(_SER.serialize({"k": [e], "n": 1}))
    return back["k"][0]


def ch_envelope_meta(e: Event) -> Event:
    env = EventEnvelopeWithMetadata.from_event(e)
    env2 = EventEnvelopeWithMetadata.model_validate_json(env.model_dump_json())
    return env2.load_event()


def ch_envelope_registry(e: Event) -> Event:
    env = EventEnvelopeWithMetadata.from_event(e, include_qualified_name=False)
    env2 = EventEnvelopeWithMetadata.model_validate_json(env.model_dump_json())
    return env2.load_event(registry=list(REGISTRY))


def ch_envelope_client(e: Event) -> Event:
    env = EventEnvelope.from_event(e)
    text = json.dumps(env.model_dump())
    return EventEnvelope.parse(text, registry={c.__name__: c for c in REGISTRY})


def ch_bare_explicit(e: Event) -> Event:
    # how the client sends a start event (bare field dict) and the server reads it (with the workflow's start event class)
    if not isinstance(e, StartEvent):
        return e  # (only start events travel this way)
    return EventEnvelope.parse(json.dumps(e.model_dump()), registry={}, explicit_event=type(e))


def _tick_rt(tick: Any) -> Any:
    data = T.WorkflowTickAdapter.dump_python(tick, mode="json")
    return T.WorkflowTickAdapter.validate_python(json.loads(json.dumps(data)))


def ch_tick_add(e: Event) -> Event:
    t2 = _tick_rt(T.TickAddEvent(event=e, step_name="s", attempts=2, first_attempt_at=1.5, last_exception=ValueError("p"),
                                 last_failed_at=2.5, recovery_counts={"h": 1}))
    assert (t2.step_name, t2.attempts, t2.first_attempt_at, t2.last_failed_at, t2.recovery_counts) == ("s", 2, 1.5, 2.5, {"h": 1})
    return t2.event


def ch_tick_publish(e: Event) -> Event:
    return _tick_rt(T.TickPublishEvent(event=e)).event


def ch_tick_result(e: Event) -> Event:
    t2 = _tick_rt(T.TickStepResult(step_name="s", worker_id=1, event=Event(a=1), result=[
        R.StepWorkerResult(result=e), R.AddCollectedEvent(event_id="b", event=e),
        R.AddWaiter(waiter_id="w", waiter_event=e, requirements={"k": 1}, timeout=2.0, event_type=type(e), has_requirements=True),
        R.DeleteWaiter(waiter_id="w"), R.DeleteCollectedEvent(event_id="b")]))
    r = t2.result
    diffs = compare(e, r[1].event, "add_collected") + compare(e, r[2].waiter_event, "add_waiter")
    # (AddWaiter.requirements are documented as not serializable: only has_requirements survives)
    # and has_requirements is recomputed on load - waiter matching after a replay belongs to C10/C13, not to this property)
    if r[2].event_type is not type(e) or r[2].timeout != 2.0 or r[3].waiter_id != "w" or r[4].event_id != "b":
        diffs.append(f"step-result payload changed: {r}")
    if diffs:
        raise AssertionError("; ".join(diffs))
    return r[0].result


def ch_tick_input(e: Event) -> Event:
    return _tick_rt(T.TickStepResult(step_name="s", worker_id=0, event=e, result=[R.StepWorkerResult(result=None)])).event


CHANNELS = {"json_serializer": ch_json, "json_serializer_nested": ch_json_nested, "envelope_with_metadata": ch_envelope_meta,
            "envelope_registry": ch_envelope_registry, "client_envelope": ch_envelope_client, "tick_add_event": ch_tick_add,
            "tick_publish_event": ch_tick_publish, "tick_step_result": ch_tick_result, "tick_step_input": ch_tick_input,
            "bare_fields_with_explicit_class": ch_bare_explicit}


def other_ticks() -> list[tuple[str, list[str]]]:
    """ticks without events + failure results: exact round trip"""
    out = []
    for t in (T.TickCancelRun(), T.TickIdleRelease(), T.TickTimeout(timeout=2.5), T.TickWaiterTimeout(step_name="s", waiter_id="w"),
              T.TickIdleCheck()):
        t2 = _tick_rt(t)
        out.append((type(t).__name__, [] if (type(t2) is type(t) and t2 == t) else [f"{t!r} became {t2!r}"]))
    for ex in exceptions():
        t = T.TickStepResult(step_name="s", worker_id=0, event=Event(a=1), result=[R.StepWorkerFailed(exception=ex, failed_at=12.5)])
        t2 = _tick_rt(t)
        d = cmp_val(ex, t2.result[0].exception, "failed.exception")
        if t2.result[0].failed_at != 12.5:
            d.append("failed_at changed")
        out.append((f"StepWorkerFailed({type(ex).__name__})", d))
        t = T.TickAddEvent(event=Event(a=1), last_exception=ex)
        out.append((f"TickAddEvent.last_exception({type(ex).__name__})", cmp_val(ex, _tick_rt(t).last_exception, "last_exception")))
    return out


def load_sequences() -> list[tuple[str, list[str]]]:
    """histories: envelopes of same-named classes from two modules loaded one after the other with the default
    registry (every ordered pair / triple); each must come back as its own class"""
    import itertools

    mk = {"events18.Typed": lambda: E.Typed(i=1, s="a", dyn=[1]), "events18b.Typed": lambda: Eb.Typed(label="l", count=2, dyn={"k": 1}),
          "events18.TStop": lambda: E.TStop(a=2, note="n", result=[1]), "events18b.TStop": lambda: Eb.TStop(verdict="v", result={"r": 1}),
          "Event": lambda: Event(a=1)}
    out = []
    for n in (2, 3):
        for seq in itertools.permutations(mk, n):
            diffs: list[str] = []
            for name in seq:
                e = mk[name]()
                env = EventEnvelopeWithMetadata.model_validate_json(EventEnvelopeWithMetadata.from_event(e).model_dump_json())
                try:
                    back = env.load_event()
                except Exception as x:  # noqa: BLE001
                    diffs.append(f"{name}: load_event raised {type(x).__name__}: {str(x)[:120]}")
                    continue
                diffs += compare(mk[name](), back, name)
            out.append(("load " + " then ".join(seq), diffs))
    return out


# ------------------------------------------------------------------ work --------------------------------------
def rebound_classes() -> list[tuple[str, list[str]]]:
    """an event class is read back once, then its qualified name is bound to a NEW class (the module body is executed again: a
    notebook cell re-run, importlib.reload, a dev server's hot reload) that has one more typed field; an instance of the new class
    must come back as an instance of the new class with its typed fields"""
    import sys
    import types

    out: list[tuple[str, list[str]]] = []
    modname = "vmc_c18_rebound"
    src1 = ("from workflows.events import Event, StopEvent\n"
            "class Progress(Event):\n    pct: int = 0\n"
            "class Finished(StopEvent):\n    code: int = 0\n")
    src2 = src1.replace("    pct: int = 0\n", "    pct: int = 0\n    note: str = ''\n")
    mod = types.ModuleType(modname)
    sys.modules[modname] = mod
    try:
        for gen, src in (("first definition", src1), ("name bound to a new class", src2)):
            exec(compile(src, modname, "exec"), mod.__dict__)  # noqa: S102
            second = gen != "first definition"
            makers = [("Progress", (lambda: mod.Progress(pct=3, note="n", dyn=[1])) if second else (lambda: mod.Progress(pct=3, dyn=[1]))),
                      ("Finished", lambda: mod.Finished(code=2, result={"k": 1}))]
            for cname in ("json_serializer", "json_serializer_nested", "envelope_with_metadata", "tick_add_event"):
                ch = CHANNELS[cname]
                for ename, mk in makers:
                    e = mk()
                    name = f"{ename} ({gen}) through {cname}"
                    try:
                        back = ch(e)
                    except Exception as x:  # noqa: BLE001
                        out.append((name, [f"raises {type(x).__name__}: {str(x)[:200]}"]))
                        continue
                    diffs = compare(mk(), back, ename)
                    if type(back) is not type(e):
                        diffs.append(f"{ename}: class object is not the one the name is bound to now")
                    out.append((name, diffs))
    finally:
        sys.modules.pop(modname, None)
    return out


def work(case: Any) -> Any:
    tier, lo, hi = case
    v: list[Any] = []
    n = 0
    nontriv = 0
    sample = None
    if lo < 0:
        for name, diffs in other_ticks():
            n += 1
            nontriv += 1
            if diffs:
                kind = "exception_changed" if "exception" in name.lower() else "tick_changed"
                v.append((kind, {"what": name.split("(")[0], "exc": name.split("(")[-1].rstrip(")")}, f"{name}: " + "; ".join(diffs), None))
        for name, diffs in load_sequences():
            n += 1
            nontriv += 1
            if diffs:
                v.append(("class_changed_in_load_sequence", {"what": "same-named classes from two modules, default registry"},
                          f"{name}: " + "; ".join(diffs)[:400], None))
        for name, diffs in rebound_classes():
            n += 1
            nontriv += 1
            if diffs:
                v.append(("class_changed_after_its_name_was_rebound", {"what": name.split(" (")[0], "generation": name.split("(")[1].split(")")[0]},
                          f"{name}: " + "; ".join(diffs)[:400], None))
        return n, nontriv, v, {"ticks_without_events_failure_results_and_load_sequences": n}
    for sname, thunk in shapes(tier)[lo:hi]:
        for cname, ch in CHANNELS.items():
            n += 1
            e = thunk()
            try:
                back = ch(e)
            except Exception as x:  # noqa: BLE001
                v.append(("round_trip_raises", {"shape": sname.split("(")[0], "channel": cname, "exc": type(x).__name__},
                          f"{sname} through {cname}: {e!r} -> {type(x).__name__}: {str(x)[:300]}", None))
                continue
            diffs = compare(thunk(), back, sname.split("(")[0])
            if e._data or isinstance(e, StopEvent):
                nontriv += 1
            if diffs:
                what = ("exception" if any("exception" in d for d in diffs) else "class" if any(": class " in d for d in diffs)
                        else "dynamic_fields" if any("dynamic fields" in d or "[" in d.split(":")[0] for d in diffs)
                        else "result" if any(".result" in d for d in diffs) else "typed_field")
                v.append((f"{what}_changed", {"shape": sname, "channel": cname},
                          f"{sname} through {cname}: {e!r}: " + "; ".join(diffs)[:400], None))
            elif sample is None and e._data:
                sample = {"shape": sname, "channel": cname, "event": repr(e)[:120]}
    seen = set()
    out = []
    for c, w, d, r in v:
        k = (c, repr(sorted(w.items())))
        if k not in seen:
            seen.add(k)
            out.append((c, w, d, r))
    return n, nontriv, out, sample


RULE = ("event shapes {Event, typed, nested model, Start/Stop/InputRequired/HumanResponse events and subclasses with typed "
        "fields, typed fields left to a default_factory / mutable defaults filled in place, stop-event subclasses, failure "
        "events with 12 exception kinds} x a JSON value alphabet (None, bools, ints "
        "> 2^53, floats, unicode/escape strings, nested lists/dicts depth <= 2, marker-like keys) in dynamic fields, results and "
        "Any-typed fields x 10 channels (the bare field dict the client sends for a start event, read with the start class - incl. start events whose fields are named 'type' / 'qualified_name'; JsonSerializer plain and nested, EventEnvelopeWithMetadata via qualified name / via "
        "registry, EventEnvelope.parse, persisted ticks: add_event, publish_event, step_result payloads incl. add_collected / "
        "add_waiter, step input) through real JSON text; class, typed fields, dynamic fields, result and exception type + "
        "message compared; non-trivial = events with dynamic fields or results")
from vmc.tables import _ROUND6 as _R6  # noqa: E402

RULE += _R6["C18"]
from vmc.tables import _ROUND7 as _R7  # noqa: E402

RULE += _R7["C18"]
from vmc.tables import _ROUND8 as _R8  # noqa: E402

RULE += _R8["C18"]



def run(tier: str, seed: int) -> Any:
    n = len(shapes(tier))
    step = 40
    cs = [(tier, -1, -1)] + [(tier, i, min(n, i + step)) for i in range(0, n, step)]
    return run_grid(PID, RULE, cs, work, seed=seed, chunksize=1, assumptions=[
        "payloads are JSON-representable (no NaN/inf, string keys); the serializer's reserved marker keys "
        "(__is_pydantic / __is_component) are not used as payload keys",
        "event classes are importable by qualified name (module-level), as JsonSerializer requires"],
        extra={"shapes": n, "channels": len(CHANNELS), "values": len(VALUES) + (len(VALUES_THOROUGH_EXTRA) if tier != "quick" else 0)})


def replay(rec: dict[str, Any]) -> tuple[bool, str]:
    tier, lo, hi = rec["case"]
    _, _, v, _ = work((tier, lo, hi))
    return (not v), f"case={rec['case']}\n" + "\n".join(f"VIOLATED {c} {w}: {d}" for c, w, d, _ in v)

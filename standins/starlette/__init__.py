"""Stand-in for starlette (absent in the sandbox): data holders only, no ASGI machinery.  The transport is not
part of any claim; handler methods of _WorkflowAPI are called directly with a Request holder."""

"""Entry point: /venv/bin/python -m vmc.run <ID> --tier quick|thorough | --replay <file>

exit 0: property held on everything explored (known findings are printed, not alarms)
exit 1: ``VIOLATION property=<id> replay=<path>`` for every violation not listed as known
exit 2: harness error (never a VIOLATION)
"""
from __future__ import annotations

import argparse
import importlib
import json
import os
import signal
import sys
import traceback


def _reexec_with_hashseed() -> None:
    if os.environ.get("PYTHONHASHSEED") != "0" or os.environ.get("PYTHONDONTWRITEBYTECODE") != "1":
        env = dict(os.environ)
        env["PYTHONHASHSEED"] = "0"
        env["PYTHONDONTWRITEBYTECODE"] = "1"
        os.execve(sys.executable, [sys.executable, "-m", "vmc.run"] + sys.argv[1:], env)


BUDGET_S = {"quick": 600, "thorough": 4 * 3600}


def main() -> int:
    """Supervisor: the check runs in a child process group; on budget overrun the whole group is
    killed and the verdict is a harness error (never a hang, never a VIOLATION)."""
    import multiprocessing as mp

    ap = argparse.ArgumentParser()
    ap.add_argument("pid")
    ap.add_argument("--tier", default=os.environ.get("VERIF_TIER", "quick"), choices=["quick", "thorough"])
    ap.add_argument("--replay", default=None)
    ap.add_argument("--seed", type=int, default=int(os.environ.get("VERIF_SEED", "0") or 0))
    args = ap.parse_args()
    _reexec_with_hashseed()
    ctx = mp.get_context("fork")
    q = ctx.Queue()

    def child() -> None:
        os.setpgrp()
        try:
            import resource

            lim = int(os.environ.get("VMC_MEM_GB", "12")) << 30
            resource.setrlimit(resource.RLIMIT_AS, (lim, lim))
        except Exception:  # noqa: BLE001
            pass
        rc = 2
        try:
            rc = _main(args)
        finally:
            sys.stdout.flush()
            q.put(rc)

    p = ctx.Process(target=child)
    p.start()
    p.join(BUDGET_S[args.tier])
    if p.is_alive():
        try:
            os.killpg(p.pid, signal.SIGKILL)
        except Exception:  # noqa: BLE001
            p.kill()
        print(f"HARNESS-ERROR property={args.pid.upper()} watchdog: exceeded {BUDGET_S[args.tier]}s", flush=True)
        return 2
    try:
        return int(q.get(timeout=5))
    except Exception:  # noqa: BLE001
        print(f"HARNESS-ERROR property={args.pid.upper()} check process died (exit {p.exitcode})", flush=True)
        return 2


def _main(args: argparse.Namespace) -> int:
    from vmc import bootstrap, report
    from vmc.loop import real_perf

    pid = args.pid.upper()

    t0 = real_perf()
    try:
        bootstrap.setup()
        mod = importlib.import_module(f"vmc.checks.{pid.lower()}")
        if args.replay:
            with open(args.replay) as f:
                rec = json.load(f)
            ok, text = mod.replay(rec["replay"])
            print(text)
            print("REPLAY: violation reproduced" if not ok else "REPLAY: no violation")
            return 1 if not ok else 0
        res: report.CheckResult = mod.run(args.tier, args.seed)
    except SystemExit:
        raise
    except BaseException:  # noqa: BLE001
        traceback.print_exc()
        print(f"HARNESS-ERROR property={pid} (exception above)", flush=True)
        return 2
    wall = real_perf() - t0

    findings = report.load_findings()
    new, known = [], {}
    for v in res.violations:
        f = report.match_finding(pid, v, findings)
        if f is None:
            new.append(v)
        else:
            known.setdefault(json.dumps(f, sort_keys=True), (f, v))
    if res.sanity_errors:
        # a program that could not be explored (crashed / spun) makes the run a harness error - unless other programs
        # produced replay-verified violations: those stand on their own and are reported
        for s in res.sanity_errors:
            print(f"HARNESS-ERROR property={pid} vacuity/sanity: {s}")
        if not new:
            report.write_evidence(res, args.tier, args.seed, wall, 0, 0)
            return 2
    for _, (f, v) in sorted(known.items()):
        print(f"KNOWN-FINDING: property={pid} {f.get('what', v.detail)}")
    for v in new:
        path = report.write_replay(pid, v)
        print(f"VIOLATION property={pid} replay={path}")
        print(f"  clause={v.clause} witness={json.dumps(v.witness, sort_keys=True, default=repr)}")
        print(f"  {v.detail}")
    ev = report.write_evidence(res, args.tier, args.seed, wall, len(new), len(known))
    print(
        f"{pid} tier={args.tier} evaluations={res.evaluations} states={res.states} "
        f"transitions={res.transitions} nontrivial={res.distinct_nontrivial} exhaustive={res.exhaustive} "
        f"violations={len(new)} known={len(known)} wall={wall:.1f}s evidence={ev}"
    )
    return 1 if new else 0


if __name__ == "__main__":
    sys.exit(main())

class Starlette:
    def __init__(self, *a, **kw):
        self.args, self.kwargs = a, kw
        self.routes = kw.get("routes", [])
        self.state = type("State", (), {})()

    def mount(self, *a, **kw):
        pass

    def add_middleware(self, *a, **kw):
        pass

"""Shared driver for exhaustive enumerations of finite input / operation-sequence spaces.

``work(case) -> (n_evaluations, n_nontrivial, [(clause, witness, detail)], sample|None)`` must be a
module-level function (it is mapped over a fork pool).  ``cases`` is the complete enumeration; nothing is
sampled, VERIF_SEED only permutes visiting order.
"""
from __future__ import annotations

import multiprocessing as mp
import os
import random
from typing import Any, Callable, Iterable

from vmc.report import CheckResult, Violation


def run_grid(pid: str, rule: str, cases: Iterable[Any], work: Callable[[Any], Any], *, seed: int = 0,
             assumptions: list[str] | None = None, extra: dict[str, Any] | None = None,
             chunksize: int = 4, workers: int | None = None, transitions_per_eval: int = 1,
             min_nontrivial: int = 1) -> CheckResult:
    cases = list(cases)
    order = list(range(len(cases)))
    random.Random(seed).shuffle(order)
    res = CheckResult(pid, rule)
    res.assumptions = list(assumptions or [])
    nw = workers or min(16, os.cpu_count() or 1, max(1, len(cases)))
    if nw <= 1:
        outs = [(i, work(cases[i])) for i in order]
    else:
        with mp.get_context("fork").Pool(nw) as pool:
            outs = list(zip(order, pool.map(work, [cases[i] for i in order], chunksize=chunksize)))
    outs.sort(key=lambda t: t[0])
    tr = 0
    for i, out in outs:
        n_eval, n_nontriv, viols, sample = out[:4]
        ntr = out[4] if len(out) > 4 else n_eval * transitions_per_eval
        res.evaluations += n_eval
        res.distinct_nontrivial += n_nontriv
        tr += ntr
        for clause, w, d, rep in viols:
            res.add_violation(Violation(clause, w, d, {"case": cases[i], **(rep or {})}))
        if sample is not None and len(res.samples) < 8:
            res.samples.append(sample)
    res.states = res.evaluations
    res.transitions = tr
    res.traces_validated = res.evaluations
    res.exhaustive = True
    res.extra = {"cases": len(cases), **(extra or {})}
    if res.distinct_nontrivial < min_nontrivial:
        res.sanity_errors.append(f"vacuity: only {res.distinct_nontrivial} non-trivial evaluations")
    return res

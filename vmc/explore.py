"""Stateless exhaustive explorer with iterative deviation bounding and optional explicit-state
pruning (DESIGN.md 3.2).

An *execution* is a deterministic function of a finite list of choices.  ``run_fn(ex)`` builds
the system from scratch, calls ``ex.choose(n, ...)`` at every choice point and returns an
observation; the explorer enumerates every choice list (depth-first, replay from scratch).
Choice 0 is the default; any other choice is a *deviation*.
"""
from __future__ import annotations

import hashlib
import json
from dataclasses import dataclass, field
from typing import Any, Callable, Iterable


class ReplayDivergence(Exception):
    """The recorded prefix does not fit the execution (harness nondeterminism): hard error."""


class Pruned(Exception):
    """Raised inside an execution whose current state was already expanded."""


class Execution:
    def __init__(self, prefix: Iterable[int] = (), visited: dict[str, int] | None = None,
                 max_choices: int = 10_000) -> None:
        self.prefix = list(prefix)
        self.taken: list[int] = []
        self.arity: list[int] = []
        self.labels: list[str] = []
        self.visited = visited
        self.max_choices = max_choices
        self.capped = False
        self.state_digests = 0

    @property
    def deviations(self) -> int:
        return sum(1 for c in self.taken if c)

    def choose(self, n: int, label: str = "", options: list[str] | None = None) -> int:
        if n <= 0:
            raise ValueError("choose() needs at least one option")
        i = len(self.taken)
        if i >= self.max_choices:
            self.capped = True
            c = 0
        elif i < len(self.prefix):
            c = self.prefix[i]
            if c >= n:
                raise ReplayDivergence(
                    f"choice {i}: recorded {c} but only {n} options ({label} {options})"
                )
        else:
            c = 0
        self.taken.append(c)
        self.arity.append(n)
        self.labels.append(f"{label}:{options[c] if options else c}")
        return c

    def at_state(self, digest: str) -> None:
        """Explicit-state pruning.  Call right before a choice point with a canonical digest of
        the *whole* continuation-relevant state (system + harness + monitors).  The execution is
        abandoned if that state was already expanded with at most as many deviations."""
        if self.visited is None:
            return
        self.state_digests += 1
        if len(self.taken) < len(self.prefix):
            return  # still replaying the prefix
        dev = self.deviations
        best = self.visited.get(digest)
        if best is not None and best <= dev:
            raise Pruned()
        self.visited[digest] = dev


def digest_of(obj: Any) -> str:
    return hashlib.blake2b(
        json.dumps(obj, sort_keys=True, default=repr).encode(), digest_size=12
    ).hexdigest()


@dataclass
class ExploreStats:
    executions: int = 0
    pruned: int = 0
    transitions: int = 0
    states: set[str] = field(default_factory=set)
    outcomes: dict[str, int] = field(default_factory=dict)
    nontrivial: set[str] = field(default_factory=set)
    max_depth: int = 0
    bound_completed: int | None = None
    exhaustive: bool = False
    capped: bool = False
    caps: list[str] = field(default_factory=list)
    samples: list[Any] = field(default_factory=list)

    def merge(self, o: "ExploreStats") -> None:
        self.executions += o.executions
        self.pruned += o.pruned
        self.transitions += o.transitions
        self.states |= o.states
        for k, v in o.outcomes.items():
            self.outcomes[k] = self.outcomes.get(k, 0) + v
        self.nontrivial |= o.nontrivial
        self.max_depth = max(self.max_depth, o.max_depth)
        self.capped = self.capped or o.capped
        self.caps += o.caps
        if len(self.samples) < 6:
            self.samples += o.samples[: 6 - len(self.samples)]


def explore(
    run_fn: Callable[[Execution], Any],
    *,
    max_dev: int | None = None,
    max_execs: int | None = None,
    prune: bool = False,
    on_result: Callable[[Execution, Any], None] | None = None,
    root_prefixes: list[list[int]] | None = None,
    stats: ExploreStats | None = None,
    outcome_key: Callable[[Any], str] | None = None,
    max_choices: int = 10_000,
    deadline: float | None = None,
) -> ExploreStats:
    """Enumerate every choice list with at most ``max_dev`` deviations (None = unbounded).

    ``run_fn`` may raise ``Pruned``; any other exception propagates (harness error).
    """
    st = stats or ExploreStats()
    visited: dict[str, int] | None = {} if prune else None
    stack: list[list[int]] = [list(p) for p in (root_prefixes or [[]])][::-1]
    complete = True
    import time as _t

    while stack:
        if deadline is not None and _t.perf_counter() > deadline:
            complete = False
            st.capped = True
            st.caps.append("time_budget")
            break
        if max_execs is not None and st.executions >= max_execs:
            complete = False
            st.capped = True
            st.caps.append(f"max_execs={max_execs}")
            break
        prefix = stack.pop()
        ex = Execution(prefix, visited, max_choices=max_choices)
        try:
            obs = run_fn(ex)
            pruned = False
        except Pruned:
            obs = None
            pruned = True
        st.executions += 1
        st.transitions += len(ex.taken)
        st.max_depth = max(st.max_depth, len(ex.taken))
        if ex.capped:
            st.capped = True
            st.caps.append(f"max_choices={max_choices}")
            complete = False
        if pruned:
            st.pruned += 1
        else:
            key = outcome_key(obs) if outcome_key else digest_of(obs)
            st.outcomes[key] = st.outcomes.get(key, 0) + 1
            if ex.deviations:
                st.nontrivial.add(digest_of(ex.taken))
            if len(st.samples) < 6 and (ex.deviations or not st.samples):
                st.samples.append({"choices": list(ex.taken), "labels": ex.labels[:40]})
            if on_result is not None:
                on_result(ex, obs)
        # children: deviate at every position after the prefix
        for i in range(len(ex.taken) - 1, len(prefix) - 1, -1):
            if ex.arity[i] <= 1:
                continue
            base_dev = sum(1 for c in ex.taken[:i] if c)
            if max_dev is not None and base_dev + 1 > max_dev:
                continue
            for alt in range(ex.arity[i] - 1, 0, -1):
                stack.append(ex.taken[:i] + [alt])
    if complete:
        st.bound_completed = max_dev if max_dev is not None else -1
        st.exhaustive = max_dev is None
    if visited is not None:
        st.states |= set(visited.keys())
    return st

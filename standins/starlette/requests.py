import json as _json


class Request:
    """Holder for what the handlers read: path_params, query_params, headers, json body."""

    def __init__(self, path_params=None, query_params=None, headers=None, body=None, method="GET"):
        self.path_params = dict(path_params or {})
        self.query_params = dict(query_params or {})
        self.headers = {k.lower(): v for k, v in (headers or {}).items()}
        self._body = body
        self.method = method
        self.url = type("URL", (), {"path": "/"})()

    async def json(self):
        if isinstance(self._body, (bytes, str)):
            return _json.loads(self._body)
        return self._body

    async def body(self):
        if isinstance(self._body, bytes):
            return self._body
        return _json.dumps(self._body).encode()

    async def is_disconnected(self):
        return False

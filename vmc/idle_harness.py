"""Shared execution driver for the idle-release properties (C36, C26, C14) on the in-process server stack."""
from __future__ import annotations

from typing import Any

from vmc import server_harness as sh
from vmc.engine import Action, EngineExec, MonRuntime, RunConfig, gate, make_step, make_workflow
from vmc.events import Resp, Work, Done
from vmc.explore import Execution
from llama_agents.server._runtime import idle_release_runtime
from llama_agents.server._store.abstract_workflow_store import HandlerQuery
from workflows.events import StartEvent, StopEvent
from workflows.retry_policy import retry_policy, stop_after_attempt, wait_fixed
from workflows.runtime import control_loop as _cl

# --- live control loops per run id (import-time wrap, no repo change) -------------------------------------
LIVE: dict[str, Any] = {"loops": {}, "max": {}, "overlaps": [], "started": {}, "log": []}
_orig_run = _cl._ControlLoopRunner.run


async def _run(self: Any, *a: Any, **kw: Any) -> Any:
    rid = getattr(self.adapter, "run_id", "?")
    LIVE["loops"].setdefault(rid, []).append(self)
    LIVE["started"][rid] = LIVE["started"].get(rid, 0) + 1
    n = len(LIVE["loops"][rid])
    LIVE["max"][rid] = max(LIVE["max"].get(rid, 0), n)
    if n > 1:
        LIVE["overlaps"].append((rid, n))
    import time as _t0

    from vmc.loop import BASE_WALL as _BW

    LIVE["log"].append(("loop_start", rid, _t0.time() - _BW))
    try:
        return await _orig_run(self, *a, **kw)
    finally:
        try:
            LIVE["loops"][rid].remove(self)
        except (KeyError, ValueError):
            pass
        LIVE["log"].append(("loop_end", rid))


_cl._ControlLoopRunner.run = _run  # type: ignore[method-assign]

# --- state of the run at the instant it is released ---------------------------------------------------------
RELEASES: list[dict[str, Any]] = []
_orig_abort = idle_release_runtime.IdleReleaseDecorator._abort_inner_run


def _abort(self: Any, run_id: str) -> None:
    loops = LIVE["loops"].get(run_id, [])
    import time as _t

    from vmc.loop import BASE_WALL

    info: dict[str, Any] = {"run_id": run_id, "live_loops": len(loops), "t": _t.time() - BASE_WALL}
    if loops:
        r = loops[-1]
        st = r.state
        info["queued"] = sum(len(w.queue) for w in st.workers.values())
        info["in_progress"] = sum(len(w.in_progress) for w in st.workers.values())
        info["scheduled"] = [type(t).__name__ for _, _, t in getattr(r, "scheduled_wakeups", [])] if hasattr(r, "scheduled_wakeups") else []
        info["tick_buffer"] = [type(t).__name__ for t in getattr(r, "tick_buffer", [])]
        info["waiters"] = sum(len(w.collected_waiters) for w in st.workers.values())
    RELEASES.append(info)
    LIVE["log"].append(("release", run_id))
    _orig_abort(self, run_id)


idle_release_runtime.IdleReleaseDecorator._abort_inner_run = _abort  # type: ignore[method-assign]


def reset() -> None:
    LIVE.update({"loops": {}, "max": {}, "overlaps": [], "started": {}, "log": []})
    RELEASES.clear()


WAIT_TYPES = [Resp, Done, Work]


# --- workflows ---------------------------------------------------------------------------------------------------
def wf_wait(n_waits: int = 1) -> Any:
    async def ask(self, ctx, ev, inv):  # noqa: ANN001
        await ctx.store.set("phase", "before-wait")
        got = []
        for i in range(n_waits):
            # a different event type per wait: an event of the same type would also (re)resolve the earlier,
            # still registered waiter (C10's recorded finding), which is not what this property is about
            r = await ctx.wait_for_event(WAIT_TYPES[i], waiter_id=f"w{i}")
            got.append(r.uid)
        phase = await ctx.store.get("phase")
        await gate("ask")
        return StopEvent(result=f"{phase}:" + ",".join(map(str, got)))

    return make_workflow("Wait", [make_step("ask", [StartEvent], [StopEvent], ask)])


def wf_busy_fan() -> Any:
    """a step hands two events to the run and finishes; the consumers are slow - the run is busy all the time"""

    async def start(self, ctx, ev, inv):  # noqa: ANN001
        ctx.send_event(Work(uid=1))
        ctx.send_event(Work(uid=2))
        return None

    async def work(self, ctx, ev, inv):  # noqa: ANN001
        await gate(f"work{ev.uid}")
        return Done(uid=ev.uid)

    async def join(self, ctx, ev, inv):  # noqa: ANN001
        got = ctx.collect_events(ev, [Done, Done])
        if got is None:
            return None
        return StopEvent(result="fan:" + ",".join(str(u) for u in sorted(e.uid for e in got)))

    return make_workflow("BusyFan", [make_step("start", [StartEvent], [Work, None], start), make_step("work", [Work], [Done], work, num_workers=2),
                                     make_step("join", [Done], [StopEvent, None], join, num_workers=1)])


def wf_retry_delay(delay: float) -> Any:
    async def flaky(self, ctx, ev, inv):  # noqa: ANN001
        n = ctx.retry_info().retry_number
        if n < 1:
            raise RuntimeError("fail0")
        return StopEvent(result=f"retried:{n}")

    return make_workflow("RetryDelay", [make_step("flaky", [StartEvent], [StopEvent], flaky,
                                                  retry_policy=retry_policy(wait=wait_fixed(delay), stop=stop_after_attempt(3)))])


def wf_wait_timeout(timeout: float) -> Any:
    async def ask(self, ctx, ev, inv):  # noqa: ANN001
        try:
            r = await ctx.wait_for_event(Resp, waiter_id="w0", timeout=timeout)
            return StopEvent(result=f"answered:{r.uid}")
        except TimeoutError:
            return StopEvent(result="timed-out")

    return make_workflow("WaitTimeout", [make_step("ask", [StartEvent], [StopEvent], ask)])


def wf_retry_chain(delay: float, fails: int = 3) -> Any:
    """the step fails ``fails`` times in a row: that many consecutive retry delays, no client event in between"""
    async def flaky(self, ctx, ev, inv):  # noqa: ANN001
        n = ctx.retry_info().retry_number
        if n < fails:
            raise RuntimeError(f"fail{n}")
        return StopEvent(result=f"retried:{n}")

    return make_workflow("RetryChain", [make_step("flaky", [StartEvent], [StopEvent], flaky,
                                                  retry_policy=retry_policy(wait=wait_fixed(delay), stop=stop_after_attempt(fails + 2)))])


def wf_wait_chain(timeout: float, rounds: int = 3) -> Any:
    """the step polls ``rounds`` times in a row, each wait ends with its TimeoutError"""
    async def ask(self, ctx, ev, inv):  # noqa: ANN001
        n = 0
        for i in range(rounds):
            try:
                r = await ctx.wait_for_event(Resp, waiter_id=f"w{i}", timeout=timeout)
                return StopEvent(result=f"answered:{r.uid}")
            except TimeoutError:
                n += 1
        return StopEvent(result=f"timed-out:{n}")

    return make_workflow("WaitChain", [make_step("ask", [StartEvent], [StopEvent], ask)])


def query_handler(loop: Any, store: Any, hid: str = "h1") -> Any:
    async def q() -> Any:
        hs = await store.query(HandlerQuery(handler_id_in=[hid]))
        return hs[0] if hs else None

    t = loop.create_task(q())
    loop.drain()
    return t.result()


def tick_types(loop: Any, store: Any, run_id: str = "run1") -> list[str]:
    async def q() -> Any:
        return [t.tick_data for t in await store.get_ticks(run_id)]

    t = loop.create_task(q())
    loop.drain()
    return t.result()


# --- DBOS idle-release stack over the in-process runtime --------------------------------------------------------
def _dbos_modules() -> Any:
    from vmc import bootstrap

    bootstrap.setup(("llama_agents.server", "llama_agents.dbos"))
    from llama_agents.dbos import idle_release as dbos_idle
    from llama_agents.dbos.journal import lifecycle

    for m in (dbos_idle, lifecycle):
        m.datetime = sh.VDateTime  # type: ignore[attr-defined]
    return dbos_idle, lifecycle


def lifecycle_ddl() -> str:
    from vmc import bootstrap

    return open(bootstrap.src("packages/llama-agents-dbos/src/llama_agents/dbos/_store/sqlite/migrations/0001_init.sql")).read()


_PRISTINE_DELETE: Any = None


class DbosStack:
    """ServerRuntimeDecorator(DBOSIdleReleaseDecorator(TickPersistenceDecorator(BasicRuntime))) - the in-process
    BasicRuntime stands in for DBOSRuntime; the dbos library is a two-function stand-in bound to it."""

    def __init__(self, store: Any, lifecycle_db: str, idle_timeout: float, name: str = "replica") -> None:
        import dbos as dbos_standin
        from llama_agents.server._runtime import persistence_runtime, server_runtime
        from llama_agents.server import _service as service_mod
        from workflows.plugins.basic import BasicRuntime

        dbos_idle, lifecycle = _dbos_modules()
        self.name = name
        self.store = store
        self.basic = BasicRuntime()
        stack = self

        class Binding(MonRuntime):
            def run_workflow(self, run_id: str, *a: Any, **kw: Any) -> Any:
                adapter = self._decorated.run_workflow(run_id, *a, **kw)
                dbos_standin.DBOS._register_run(run_id, adapter.get_result)
                stack.runs_started.append(run_id)
                return adapter

        self.runs_started: list[str] = []
        self.persistence = persistence_runtime.TickPersistenceDecorator(Binding(self.basic), store=store)
        self.lock = lifecycle.SqliteRunLifecycleLock(lifecycle_db)
        self.idle = dbos_idle.DBOSIdleReleaseDecorator(self.persistence, store=store, idle_timeout=idle_timeout, lifecycle_lock=lambda: self.lock)
        self.runtime = server_runtime.ServerRuntimeDecorator(self.idle, store=store)
        self.service = service_mod._WorkflowService(runtime=self.runtime, store=store)
        # the stand-in's own function, captured once: executions re-bind DBOS.delete_workflow_async to their stack, and
        # chaining to the previous execution's binding would grow one call deeper per execution (RecursionError after
        # ~1000 executions in one worker process, swallowed by _do_resume's try/except)
        global _PRISTINE_DELETE
        if _PRISTINE_DELETE is None:
            _PRISTINE_DELETE = dbos_standin.DBOS.delete_workflow_async.__func__
        orig_delete = _PRISTINE_DELETE

        async def delete(cls: Any, run_id: str, *a: Any, **kw: Any) -> None:
            await orig_delete(cls, run_id)
            self.basic._queues.pop(run_id, None)  # DBOS forgets the run: the id can be reused

        self._delete = delete

    def add_workflow(self, name: str, wf: Any) -> None:
        wf._switch_workflow_name(name)
        wf._switch_runtime(self.runtime)


def lifecycle_state(db: str, run_id: str = "run1") -> Any:
    import sqlite3

    c = sqlite3.connect(db)
    try:
        row = c.execute("SELECT state FROM run_lifecycle WHERE run_id = ?", (run_id,)).fetchone()
        return row[0] if row else None
    finally:
        c.close()

"""Evidence files, violation records, known-findings matching, replay artefacts."""
from __future__ import annotations

import hashlib
import json
import os
from dataclasses import dataclass, field
from typing import Any

VERIF = os.path.dirname(os.path.dirname(os.path.abspath(__file__)))
FINDINGS_FILE = os.environ.get("VMC_FINDINGS_FILE") or os.path.join(VERIF, "known_findings.json")  # override: development only


@dataclass
class Violation:
    clause: str  # which sentence of the property is broken (short, stable slug)
    witness: dict[str, Any]  # discriminating facts (matched against known findings)
    detail: str  # human readable
    replay: dict[str, Any]  # everything needed to re-run that single case

    def signature(self) -> str:
        return json.dumps({"clause": self.clause, "witness": self.witness}, sort_keys=True, default=repr)


@dataclass
class CheckResult:
    property_id: str
    rule: str
    evaluations: int = 0
    distinct_nontrivial: int = 0
    states: int = 0
    transitions: int = 0
    traces_validated: int = 0
    exhaustive: bool = False
    samples: list[Any] = field(default_factory=list)
    extra: dict[str, Any] = field(default_factory=dict)
    assumptions: list[str] = field(default_factory=list)
    violations: list[Violation] = field(default_factory=list)
    sanity_errors: list[str] = field(default_factory=list)  # vacuity guards -> harness error

    def add_violation(self, v: Violation, cap: int = 50) -> None:
        sig = v.signature()
        for o in self.violations:
            if o.signature() == sig:
                return
        if len(self.violations) < cap:
            self.violations.append(v)


def load_findings() -> dict[str, Any]:
    if not os.path.exists(FINDINGS_FILE):
        return {"findings": [], "fixed": []}
    with open(FINDINGS_FILE) as f:
        return json.load(f)


def match_finding(pid: str, v: Violation, findings: dict[str, Any]) -> dict[str, Any] | None:
    """A violation is covered only when its clause equals and every witness key listed in the
    finding equals the violation's witness value (the finding lists the discriminating keys)."""
    for f in findings.get("findings", []):
        if f.get("property") != pid or f.get("clause") != v.clause:
            continue
        w = f.get("witness", {})
        if all(json.dumps(v.witness.get(k), sort_keys=True, default=repr) == json.dumps(val, sort_keys=True, default=repr)
               for k, val in w.items()):
            return f
    return None


def write_replay(pid: str, v: Violation) -> str:
    d = os.environ.get("VMC_REPLAY_DIR") or os.path.join(VERIF, "replays")
    os.makedirs(d, exist_ok=True)
    h = hashlib.blake2b(v.signature().encode(), digest_size=6).hexdigest()
    path = os.path.join(d, f"{pid}-{h}.json")
    with open(path, "w") as f:
        json.dump(
            {"property": pid, "clause": v.clause, "witness": v.witness, "detail": v.detail,
             "replay": v.replay,
             "replay_cmd": f"cd /verif && /venv/bin/python -m vmc.run {pid} --replay {path}"},
            f, indent=1, default=repr, sort_keys=True)
    return path


def write_evidence(res: CheckResult, tier: str, seed: int, wall_s: float, n_new: int, n_known: int) -> str:
    d = os.environ.get("VMC_EVIDENCE_DIR") or os.path.join(VERIF, "evidence")
    os.makedirs(d, exist_ok=True)
    path = os.path.join(d, f"{res.property_id}.json")
    cov: dict[str, Any] = {
        "evaluations": int(res.evaluations),
        "distinct_nontrivial": int(res.distinct_nontrivial),
        "rule": res.rule,
        "samples": res.samples[:8] or ["<none>"],
        "states": int(max(res.states, 1)),
        "transitions": int(max(res.transitions, 1)),
        "traces_validated_against_impl": int(res.traces_validated),
        "exhaustive": bool(res.exhaustive),
    }
    cov.update(res.extra)
    ev = {
        "property_id": res.property_id,
        "tier": tier,
        "seed": int(seed),
        "level": "model_checking",
        "coverage": cov,
        "assumptions": res.assumptions,
        "wall_s": round(wall_s, 3),
        "violations": int(n_new),
        "known_findings_reobserved": int(n_known),
    }
    tmp = path + ".tmp"
    with open(tmp, "w") as f:
        json.dump(ev, f, indent=1, default=repr)
    os.replace(tmp, path)
    return path

class SchemaGenerator:
    def __init__(self, base=None):
        self.base = base or {}

    def get_schema(self, routes=None):
        return dict(self.base)

    def OpenAPIResponse(self, request=None):
        from .responses import JSONResponse

        return JSONResponse(self.base)

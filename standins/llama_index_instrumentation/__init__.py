"""Stand-in for llama_index_instrumentation (absent from the sandbox, cannot be fetched).

Telemetry only: every hook is a no-op and ``span(fn)`` is a wrapper that preserves
sync/async-ness and adds NO suspension point, so the control flow of the code under
test is the same as with the real dispatcher (trusted-base item in DESIGN.md section 1).
"""
from .dispatcher import Dispatcher, get_dispatcher  # noqa: F401

"""Module-level event classes (importable by qualified name, as JsonSerializer requires)."""
from vmc import bootstrap

bootstrap.setup()

from typing import Any, Optional  # noqa: E402

from workflows.events import (  # noqa: E402
    Event,
    HumanResponseEvent,
    InputRequiredEvent,
    StartEvent,
    StopEvent,
)


class Go(StartEvent):
    n: int = 0


class A(Event):
    uid: int = 0


class B(Event):
    uid: int = 0


class C(Event):
    uid: int = 0


class D(Event):
    uid: int = 0


class Ab(A):
    """subclass of A (exact-type routing must not deliver it to steps accepting A)"""


class Work(Event):
    uid: int = 0


class Done(Event):
    uid: int = 0


class Resp(Event):
    uid: int = 0
    key: str = ""


class RespSub(Resp):
    pass


def _twin() -> type:
    class Resp(Event):  # noqa: F811 - an unrelated class that merely has the same module and __name__ (factory-made / nested classes)
        uid: int = 0
        key: str = ""

    return Resp


RespTwin = _twin()
assert RespTwin is not Resp and (RespTwin.__module__, RespTwin.__name__) == (Resp.__module__, Resp.__name__)


class Ask(InputRequiredEvent):
    uid: int = 0


class Answer(HumanResponseEvent):
    uid: int = 0


class Bump(HumanResponseEvent):
    uid: int = 0


class Finish(HumanResponseEvent):
    uid: int = 0


class Prog(Event):
    """written to the stream by steps"""
    uid: int = 0


class MyStop(StopEvent):
    value: Optional[Any] = None


class Verdict(StopEvent):
    """a result event with a truth value of its own (``if verdict: ...``): a falsy result is a result like any other"""
    approved: bool = False

    def __bool__(self) -> bool:
        return bool(self.approved)


from pydantic import BaseModel, Field  # noqa: E402


class TypedState(BaseModel):
    """typed run state: ``items`` is never assigned, only mutated in place; ``n`` is assigned; ``note`` is never touched"""
    items: list[int] = Field(default_factory=list)
    seen: dict[str, int] = Field(default_factory=dict)
    n: int = 0
    note: str = "init"

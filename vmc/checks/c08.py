"""C08 - exhausted failures route to the owning error handler within budget."""
from __future__ import annotations

from collections import Counter
from typing import Any

from vmc.checks.common import Program, replay_program, run_programs
from vmc.engine import BasicRuntime, EngineExec, MonRuntime, RunConfig, gate, make_step, make_workflow, task_outcome
from vmc.events import A, B
from vmc.explore import Execution, ReplayDivergence
from vmc.progs import ENGINE_ASSUMPTIONS
from workflows import catch_error
from workflows.events import StartEvent, StepFailedEvent, StopEvent, WorkflowFailedEvent
from workflows.retry_policy import retry_policy, stop_after_attempt, wait_fixed

PID = "C08"

# layout: list of handlers (name, for_steps|None, max_recoveries, behaviour)
#   behaviour: "reenter" (re-emit the failed input -> lineage re-enters the failing step),
#              "stop" (finish the run), "raise" (the handler itself fails)
LAYOUTS: dict[str, list[tuple[str, list[str] | None, str]]] = {
    "none": [],
    "wildcard": [("h_any", None, "reenter")],
    "scoped_owner": [("h_a", ["bad_a"], "reenter")],
    "scoped_other": [("h_b", ["bad_b"], "reenter")],
    "scoped_other+wildcard": [("h_b", ["bad_b"], "reenter"), ("h_any", None, "reenter")],
    "two_scoped": [("h_a", ["bad_a"], "reenter"), ("h_b", ["bad_b"], "reenter")],
    "wildcard_stop": [("h_any", None, "stop")],
    "wildcard_raises": [("h_any", None, "raise")],
    "scoped_raises+wildcard": [("h_a", ["bad_a"], "raise"), ("h_any", None, "reenter")],
    # one lineage alternates between two handlers: a fails -> h_a emits B -> b fails -> h_b emits A -> ...
    "ping_pong_scoped": [("h_a", ["bad_a"], "other"), ("h_b", ["bad_b"], "other")],
    "ping_pong_scoped+wildcard": [("h_b", ["bad_b"], "other"), ("h_any", None, "other")],
}


def ref_owner(layout: str, step: str) -> str | None:
    hs = LAYOUTS[layout]
    if step in {h[0] for h in hs}:
        return None  # handler steps have no owner
    for name, for_steps, _ in hs:
        if for_steps is not None and step in for_steps:
            return name
    for name, for_steps, _ in hs:
        if for_steps is None:
            return name
    return None


def build(layout: str, budget: int, lineages: int, with_retry: bool, disable_validation: bool) -> Any:
    async def start(self, ctx, ev, inv):  # noqa: ANN001
        for i in range(lineages):
            ctx.send_event(A(uid=i))          # lineage i, generation 0 (uid = lineage + 100*generation)
        if lineages == 0:
            ctx.send_event(B(uid=0))
        return None

    def failing(name: str) -> Any:
        async def body(self, ctx, ev, inv):  # noqa: ANN001
            await gate(f"{name}:{ev.uid}.{inv.retry.retry_number}")
            raise RuntimeError(f"{name} failed on {ev.uid}")

        return body

    def handler(name: str, behaviour: str) -> Any:
        async def body(self, ctx, ev, inv):  # noqa: ANN001
            await gate(f"{name}:{getattr(ev.input_event, 'uid', 'x')}")
            if behaviour == "raise":
                raise LookupError(f"{name} failed")
            if behaviour == "stop":
                return StopEvent(result=f"{name} recovered {ev.step_name}")
            if behaviour == "other":  # hop to the other failing step, same lineage, next generation
                other = B if isinstance(ev.input_event, A) else A
                return other(uid=getattr(ev.input_event, "uid", 0) + 100)
            # re-enter: same lineage, next generation
            return type(ev.input_event)(uid=ev.input_event.uid + 100) if hasattr(ev.input_event, "uid") else A(uid=999)

        return body

    pol = retry_policy(wait=wait_fixed(0), stop=stop_after_attempt(2)) if with_retry else None
    steps = [
        make_step("start", [StartEvent], [A, B, None], start),
        make_step("bad_a", [A], [StopEvent], failing("bad_a"), num_workers=2, retry_policy=pol),
        make_step("bad_b", [B], [StopEvent], failing("bad_b"), num_workers=1),
    ]
    for name, for_steps, behaviour in LAYOUTS[layout]:
        kw: dict[str, Any] = {"max_recoveries": budget}
        if for_steps is not None:
            kw["for_steps"] = for_steps
        steps.append(make_step(name, [StepFailedEvent], [A, B, StopEvent], handler(name, behaviour),
                               decorator=catch_error, deco_kwargs=kw))
    cls = make_workflow("Catch", steps)
    return cls(timeout=None, runtime=MonRuntime(BasicRuntime()), disable_validation=disable_validation)


def run_variant(ex: Execution, layout: str, budget: int, lineages: int, with_retry: bool, dv: bool) -> dict[str, Any]:
    with EngineExec(ex, RunConfig(max_actions=80)) as e:
        wf = build(layout, budget, lineages, with_retry, dv)
        hd = wf.run(run_id="r1")
        e.consume_stream(hd)
        e.cfg.stop_when = lambda hh: hd.is_done() and hh.stream_done
        e.drive()
        h = e.h
        out = task_outcome(hd._result_task)
        entries = [(inv.step, (getattr(inv.ev.input_event, "uid", 99) % 100) if isinstance(inv.ev, StepFailedEvent) else (inv.ev.uid % 100),
                    getattr(inv.ev, "step_name", None), type(inv.ev).__name__)
                   for inv in h.invocations if inv.step not in ("start",)]
        failed_events = [(ev.step_name, repr(ev.exception)) for ev in h.published if isinstance(ev, WorkflowFailedEvent)]
        sfe = [inv.ev for inv in h.invocations if isinstance(inv.ev, StepFailedEvent)]
        return {"outcome": out[0], "value": repr(out[1].result if isinstance(out[1], StopEvent) else out[1]),
                "exc_type": type(out[1]).__name__ if out[0] == "exception" else None,
                "entries": entries, "failed_events": failed_events, "stuck": e.stuck, "capped": e.capped,
                "sfe": [(s.step_name, repr(s.exception), s.attempts) for s in sfe],
                "max_concurrency": h.max_concurrency}


def execute(ex: Execution, layout: str, budget: int, lineages: int, with_retry: bool) -> tuple[Any, list[Any]]:
    v: list[Any] = []
    obs = run_variant(ex, layout, budget, lineages, with_retry, dv=False)
    w = {"layout": layout, "disable_validation": False}
    _check_against_reference(obs, layout, budget, lineages, with_retry, w, v)
    # same schedule with graph validation disabled: the observable trace must be identical
    ex2 = Execution(ex.taken)
    try:
        obs2 = run_variant(ex2, layout, budget, lineages, with_retry, dv=True)
        same = {k: obs[k] for k in obs if k != "max_concurrency"} == {k: obs2[k] for k in obs2 if k != "max_concurrency"} \
            and ex2.taken == ex.taken and ex2.arity == ex.arity
    except ReplayDivergence:
        obs2, same = {"diverged": True}, False
    if not same:
        v.append(("routing_depends_on_disable_validation", {"layout": layout},
                  f"layout={layout} budget={budget}: validation on -> {_short(obs)}; disable_validation=True -> {_short(obs2)}"))
    return {"outcome": obs["outcome"], "value": obs["value"], "entries": len(obs["entries"]),
            "_metrics": {"max_concurrency": obs["max_concurrency"]}}, v


def _short(o: dict[str, Any]) -> str:
    if o.get("diverged"):
        return "schedule structure differs"
    hs = Counter(e[0] for e in o["entries"] if e[3] == "StepFailedEvent")
    return f"{o['outcome']}:{o['value']} handler_entries={dict(hs)} failed_events={o['failed_events']}"


def _check_against_reference(obs: dict[str, Any], layout: str, budget: int, lineages: int, with_retry: bool,
                             w: dict[str, Any], v: list[Any]) -> None:
    handler_names = {h[0] for h in LAYOUTS[layout]}
    behaviour = {h[0]: h[2] for h in LAYOUTS[layout]}
    # (1) a StepFailedEvent goes to the owning handler only; never for a handler step's failure
    for step, lineage, failed_step, kind in obs["entries"]:
        if kind != "StepFailedEvent":
            continue
        want = ref_owner(layout, failed_step)
        if step != want:
            v.append(("routed_to_wrong_handler", {**w, "failed_step_is_handler": failed_step in handler_names},
                      f"failure of {failed_step} went to {step}, owner is {want}"))
    # (2) each handler is entered at most max_recoveries times along one lineage
    per = Counter((step, lineage) for step, lineage, fs, kind in obs["entries"] if kind == "StepFailedEvent")
    for (hname, lineage), n in per.items():
        if n > budget:
            v.append(("recovery_budget_exceeded", w, f"handler {hname} entered {n} times on lineage {lineage}, max_recoveries={budget}"))
    # (3) outcome
    failing_step = "bad_a" if lineages else "bad_b"
    owner = ref_owner(layout, failing_step)
    if (obs["stuck"] or obs["capped"]) and obs["outcome"] == "pending":
        v.append(("run_never_finishes", w, f"stuck={obs['stuck']} capped={obs['capped']}: {_short(obs)}"))
        return
    if owner is None or behaviour.get(owner) in ("reenter", "other"):
        # no owner, or the lineage keeps re-entering until the budget is exhausted: the run fails with the
        # ORIGINAL exception of the failing step and a WorkflowFailedEvent for it
        if obs["outcome"] != "exception" or obs["exc_type"] != "RuntimeError" or f"{failing_step} failed" not in obs["value"]:
            v.append(("must_fail_with_original_exception", {**w, "owner": owner is not None},
                      f"expected the run to fail with {failing_step}'s RuntimeError, got {_short(obs)}"))
        elif not any(s == failing_step for s, _ in obs["failed_events"]):
            v.append(("workflow_failed_event_missing", w, f"no WorkflowFailedEvent for {failing_step}: {obs['failed_events']}"))
        if owner is not None and obs["outcome"] == "exception":
            # the budget must also be USED: the lineage that exhausted it entered the handler exactly budget times
            mx = max([n for (hname, _), n in per.items() if hname == owner] or [0])
            if mx != budget:
                v.append(("recovery_budget_not_used", w, f"run failed after {mx} recoveries of {owner}, max_recoveries={budget}"))
    elif behaviour.get(owner) == "stop":
        if obs["outcome"] != "result" or "recovered" not in obs["value"]:
            v.append(("handler_result_ignored", w, f"expected the handler's StopEvent result, got {_short(obs)}"))
    elif behaviour.get(owner) == "raise":
        # a handler step's own failure is never routed (not even to the wildcard): the run fails with it
        if obs["outcome"] != "exception" or obs["exc_type"] != "LookupError":
            v.append(("handler_failure_routed_or_swallowed", w, f"expected the run to fail with the handler's LookupError, got {_short(obs)}"))
    # (4) StepFailedEvent carries the original exception and attempt count
    want_attempts = 2 if with_retry else 1
    for fs, exc, attempts in obs["sfe"]:
        if fs == "bad_a" and attempts != want_attempts:
            v.append(("step_failed_event_attempts", w, f"StepFailedEvent.attempts={attempts}, expected {want_attempts}"))


def programs(tier: str) -> list[Program]:
    q = tier == "quick"
    ps = []
    for layout in LAYOUTS:
        for budget in ((1, 2) if q else (1, 2, 3)):
            for lineages in ((1, 2) if layout in ("wildcard", "scoped_owner", "scoped_other+wildcard") else (1,)):
                for with_retry in ((False,) if (q and layout not in ("wildcard",)) else (False, True)):
                    if layout in ("wildcard_stop", "wildcard_raises", "scoped_raises+wildcard", "none", "scoped_other") and budget > 1:
                        continue
                    name = f"catch({layout};budget={budget};lineages={lineages};retry={with_retry})"
                    ps.append(Program(name, {"layout": layout, "budget": budget, "lineages": lineages, "retry": with_retry},
                                      (lambda ex, layout=layout, budget=budget, lineages=lineages, with_retry=with_retry:
                                       execute(ex, layout, budget, lineages, with_retry)),
                                      max_dev=(None if lineages == 1 else (3 if q else 5)),
                                      min_concurrency=lineages))
    # failure of the other step (bad_b) under layouts that own it / do not own it
    for layout in ("scoped_other", "scoped_owner", "two_scoped", "scoped_other+wildcard"):
        name = f"catch_b({layout};budget=1)"
        ps.append(Program(name, {"layout": layout, "budget": 1, "lineages": 0},
                          (lambda ex, layout=layout: execute(ex, layout, 1, 0, False))))
    return ps


RULE = ("handler layouts {none, wildcard, scoped(owner), scoped(other), scoped(other)+wildcard, two scoped, handler "
        "that stops / raises} x max_recoveries 1..3 x lineages that re-enter the failing step x two concurrent "
        "lineages x failing step with/without retries x disable_validation off/on x all schedules; routing is "
        "compared with a reference owner map, handler entries per lineage with the budget, the outcome with the "
        "original exception + WorkflowFailedEvent, and the two validation settings with each other on the same "
        "schedule; non-trivial = at least one schedule deviation")


def run(tier: str, seed: int) -> Any:
    return run_programs(PID, programs(tier), RULE, seed, assumptions=ENGINE_ASSUMPTIONS)


def replay(rec: dict[str, Any]) -> tuple[bool, str]:
    return replay_program(programs("thorough"), rec)

CREATE TABLE IF NOT EXISTS schema_migrations (
    package TEXT NOT NULL,
    version INTEGER NOT NULL,
    applied_at TEXT NOT NULL DEFAULT (datetime('now')),
    PRIMARY KEY (package, version)
)

"""C12 - pausing to a serialized context and resuming gives the same result."""
from __future__ import annotations

import json
from typing import Any

from vmc.checks.c11 import canon as canon_state
from vmc.checks.common import Program, replay_program, run_programs
from vmc.engine import Action, gate, make_step, make_workflow, task_outcome
from vmc.events import A, Done, Resp, Work
from vmc.progs import ENGINE_ASSUMPTIONS, Oracle, Spec, resp_scripts, run_engine, wf_chain, wf_fan, wf_wait
from workflows import catch_error
from workflows.context.context_types import SerializedContext
from workflows.context.serializers import JsonSerializer
from workflows.events import StartEvent, StepFailedEvent, StopEvent
from workflows.retry_policy import retry_policy, stop_after_attempt, wait_fixed
from workflows.runtime.types.internal_state import BrokerState

PID = "C12"


def wf_retry_chain(delay: float, fails: int = 2, budget: int = 3) -> type:
    """start -> flaky (fails ``fails`` times, budget ``budget`` attempts) -> stop; counts executions in the store"""

    async def start(self, ctx, ev, inv):  # noqa: ANN001
        await gate("start")
        return A(uid=1)

    async def flaky(self, ctx, ev, inv):  # noqa: ANN001
        await gate(f"flaky{inv.retry.retry_number}")
        if inv.retry.retry_number < fails:
            raise RuntimeError(f"flaky{inv.retry.retry_number}")
        await ctx.store.set("done_at_retry", inv.retry.retry_number)
        return StopEvent(result=f"ok@{inv.retry.retry_number}")

    return make_workflow("RetryChain", [
        make_step("start", [StartEvent], [A], start),
        make_step("flaky", [A], [StopEvent], flaky,
                  retry_policy=retry_policy(wait=wait_fixed(delay), stop=stop_after_attempt(budget))),
    ])


def wf_recover(max_recoveries: int = 2) -> type:
    """a step that always fails; its handler re-emits the input until the recovery budget is exhausted,
    then the run fails: the number of handler entries is the observable budget"""

    async def start(self, ctx, ev, inv):  # noqa: ANN001
        return A(uid=1)

    async def bad(self, ctx, ev, inv):  # noqa: ANN001
        await gate("bad")
        raise RuntimeError("always")

    async def on_err(self, ctx, ev, inv):  # noqa: ANN001
        await gate("handler")
        n = (await ctx.store.get("handled", default=0)) + 1
        await ctx.store.set("handled", n)
        return A(uid=1 + n)

    return make_workflow("Recover", [
        make_step("start", [StartEvent], [A], start),
        make_step("bad", [A], [StopEvent], bad),
        make_step("on_err", [StepFailedEvent], [A], on_err, decorator=catch_error,
                  deco_kwargs={"for_steps": ["bad"], "max_recoveries": max_recoveries}),
    ])


def wf_order(k: int) -> type:
    """k items for a single-worker step; the result is the order in which they were COMPLETED (written to the store
    on completion, so an interrupted invocation leaves no trace)"""
    async def start(self, ctx, ev, inv):  # noqa: ANN001
        for i in range(k):
            ctx.send_event(Work(uid=i))
        return None

    async def work(self, ctx, ev, inv):  # noqa: ANN001
        await gate(f"w{ev.uid}")
        order = list(await ctx.store.get("order", default=[]))
        await ctx.store.set("order", order + [ev.uid])
        return Done(uid=ev.uid)

    async def fin(self, ctx, ev, inv):  # noqa: ANN001
        r = ctx.collect_events(ev, [Done] * k)
        if r is None:
            return None
        return StopEvent(result=list(await ctx.store.get("order", default=[])))

    return make_workflow("Order", [
        make_step("start", [StartEvent], [Work, None], start),
        make_step("work", [Work], [Done], work, num_workers=1),
        make_step("fin", [Done], [StopEvent, None], fin, num_workers=1),
    ])


def wf_wait_audited() -> type:
    """the waiting step's input event is ALSO accepted by a second step (an audit trail written to the store): after a resume only
    the waiting step is run again on that input - the auditing step had completed and must not see it a second time"""
    from vmc.events import Ask, Resp

    async def start(self, ctx, ev, inv):  # noqa: ANN001
        ctx.send_event(Work(uid=0))
        return None

    async def ask(self, ctx, ev, inv):  # noqa: ANN001
        r = await ctx.wait_for_event(Resp, requirements={"key": str(ev.uid)}, timeout=None, waiter_id=f"w{ev.uid}", waiter_event=Ask(uid=ev.uid))
        await gate(f"a{ev.uid}")
        return Done(uid=r.uid)

    async def audit(self, ctx, ev, inv):  # noqa: ANN001
        seen = list(await ctx.store.get("audit", default=[]))
        await ctx.store.set("audit", seen + [ev.uid])
        return None

    async def fin(self, ctx, ev, inv):  # noqa: ANN001
        return StopEvent(result=[ev.uid, list(await ctx.store.get("audit", default=[]))])

    return make_workflow("WaitAudited", [
        make_step("start", [StartEvent], [Work, None], start),
        make_step("ask", [Work], [Done], ask),
        make_step("audit", [Work], [None], audit),
        make_step("fin", [Done], [StopEvent], fin),
    ])


def wf_typed_state(k: int) -> type:
    """like ``order``, on a TYPED state model: completed items are appended in place to a default-factory list (the field is
    never assigned), a counter is assigned, a third field is never touched"""
    from vmc.events import TypedState
    from workflows import Context

    async def start(self, ctx, ev, inv):  # noqa: ANN001
        for i in range(k):
            ctx.send_event(Work(uid=i))
        return None

    async def work(self, ctx, ev, inv):  # noqa: ANN001
        await gate(f"w{ev.uid}")
        async with ctx.store.edit_state() as st:
            st.items.append(ev.uid)
            st.seen[f"u{ev.uid}"] = len(st.items)
            if ev.uid:
                st.n = st.n + 1
        return Done(uid=ev.uid)

    async def fin(self, ctx, ev, inv):  # noqa: ANN001
        r = ctx.collect_events(ev, [Done] * k)
        if r is None:
            return None
        st = await ctx.store.get_state()
        return StopEvent(result=[list(st.items), dict(st.seen), st.n, st.note])

    T = Context[TypedState]
    return make_workflow("TypedStateWf", [
        make_step("start", [StartEvent], [Work, None], start, ctx_type=T),
        make_step("work", [Work], [Done], work, num_workers=1, ctx_type=T),
        make_step("fin", [Done], [StopEvent, None], fin, num_workers=1, ctx_type=T),
    ])


# ------------------------------------------------------------------------------------ oracle
def _store_dump(hd: Any) -> Any:
    try:
        return json.loads(json.dumps(hd.ctx.store.to_dict(JsonSerializer()), sort_keys=True, default=repr))
    except Exception as e:  # noqa: BLE001
        return f"<store error {e!r}>"


def make_oracle(reference: dict[str, Any]) -> Oracle:
    def on_quiescent(h: Any) -> None:
        # remember, for the snapshot point, the retry state of everything not yet completed
        st = h.state
        if not h.runners:
            return
        # the state recorded at the quiescent point just before a snapshot action is the snapshot state; with
        # several snapshots in one execution the LAST one is judged
        n = st.get("n_resumes", 0)
        if n != getattr(h, "c12_seen_resumes", 0):
            h.c12_seen_resumes = n
            h.c12_inflight, h.c12_invs_before = h.c12_prev
            h.c12_started_order = getattr(h, "c12_prev_order", {})
            h.c12_cats = sorted(set(getattr(h, "c12_cats", [])) | {k[2] for k in h.c12_inflight})
        r = h.runners[-1]
        infl = {}
        for name, ws in r.state.workers.items():
            for ip in ws.in_progress:
                infl[(name, getattr(ip.event, "uid", None), "in_progress")] = (ip.attempts, dict(ip.recovery_counts))
            for a in ws.queue:
                infl[(name, getattr(a.event, "uid", None), "queued")] = (a.attempts or 0, dict(a.recovery_counts))
        for _, _, t in r.scheduled_wakeups:
            if getattr(t, "type", "") == "add_event" and t.attempts:
                infl[(t.step_name, getattr(t.event, "uid", None), "scheduled_retry")] = (t.attempts, dict(t.recovery_counts))
        h.c12_prev = (infl, len(h.invocations))
        # the order in which each step's running executions had been started
        h.c12_prev_order = {name: [getattr(ip.event, "uid", None) for ip in ws.in_progress] for name, ws in r.state.workers.items() if len(ws.in_progress) >= 2}

    def final(h: Any, e: Any, state: dict[str, Any]) -> None:
        hd = state["hd"]
        out = task_outcome(hd._result_task)
        got = {"outcome": out[0], "value": repr(out[1].result if isinstance(out[1], StopEvent) else out[1])}
        resumed = bool(state.get("resumed"))
        w = {"program": h.spec.params.get("family", h.spec.name)}
        if h.spec.resume_via != "abort":
            w["paused_by"] = h.spec.resume_via
        if not resumed:
            return
        infl = getattr(h, "c12_inflight", {})
        cats = list(getattr(h, "c12_cats", []))  # union over all snapshots of the execution
        w["pending_at_snapshot"] = cats
        if e.stuck and out[0] == "pending":
            h.violate("resumed_run_never_finishes", w, f"resumed run is stuck; pending at snapshot: {sorted(infl)}")
            return
        if got != reference["result"]:
            h.violate("result_differs", w, f"resumed run gave {got}, uninterrupted run gives {reference['result']}")
        store = _store_dump(hd)
        if store != reference["store"] and got == reference["result"]:
            h.violate("store_differs", w, f"state store after resume {store} vs uninterrupted {reference['store']}")
        # every not-yet-completed invocation is re-executed under its existing retry count / budget
        after = h.invocations[getattr(h, "c12_invs_before", 0):]
        for (step, uid, cat), (attempts, rc) in infl.items():
            first = next((i for i in after if i.step == step and getattr(i.ev, "uid", None) == uid), None)
            if first is None:
                continue
            rn = getattr(first.retry, "retry_number", None)
            if rn != attempts:
                h.violate("retry_count_not_preserved", {"state_at_snapshot": cat},
                          f"{step}#{uid} was {cat} at attempt {attempts} when the context was serialized, "
                          f"re-executed with retry_number={rn}")
        # interrupted executions of one step come back in the order in which they had been started (what they do may depend on it)
        for step, uids in getattr(h, "c12_started_order", {}).items():
            seen: list[Any] = []
            for i in after:
                u = getattr(i.ev, "uid", None)
                if i.step == step and u in uids and u not in seen:
                    seen.append(u)
            if len(seen) == len(uids) and seen != uids and len(set(uids)) == len(uids):
                h.violate("interrupted_executions_restarted_in_another_order", {"step": step},
                          f"step {step}: executions of {uids} (in that order) were running when the context was serialized; the resumed run started them as {seen}")
        if "executions" in reference and h.spec.params.get("family") != "wait":
            for step, n in reference["executions"].items():
                if step in h.spec.params.get("rehydrated_steps", ()):
                    continue  # (a step waiting with requirements is run again after a resume to register them again: by design)
                # count only executions that ran to the end (aborted bodies of the original run excluded)
                got_n = sum(1 for i in h.invocations if i.step == step and i.exited and
                            type(i.exc).__name__ != "CancelledError")
                if got_n != n and got == reference["result"]:
                    h.violate("budget_not_preserved", {"state_at_snapshot": cats, "step": step},
                              f"step {step} executed {got_n} times in total, uninterrupted run executes it {n} times")
        # serialized form stable after one round trip
        snap = state.get("snap")
        if snap is not None:
            ser = JsonSerializer()
            wf = state["wf"]
            s1 = BrokerState.from_serialized(SerializedContext.from_dict_auto(snap), wf, ser)
            d2 = json.loads(json.dumps(s1.to_serialized(ser).model_dump(mode="python")))
            s2 = BrokerState.from_serialized(SerializedContext.from_dict_auto(d2), wf, ser)
            c1, c2 = _canon_ser(s1), _canon_ser(s2)
            if c1 != c2:
                h.violate("round_trip_unstable", w, f"D(S(D(S(x)))) != D(S(x)): {c1} vs {c2}")

    return Oracle(on_quiescent=on_quiescent, final=final)


def _canon_ser(state: Any) -> Any:
    ser = JsonSerializer()
    out: dict[str, Any] = {"is_running": state.is_running}
    for name, ws in sorted(state.workers.items()):
        out[name] = {
            "queue": [(ser.serialize(a.event), a.attempts or 0, sorted(a.recovery_counts.items())) for a in ws.queue],
            "in_progress": [(ser.serialize(ip.event), ip.attempts) for ip in ws.in_progress],
            "collected": {k: [ser.serialize(x) for x in v] for k, v in ws.collected_events.items()},
            "waiters": sorted((w.waiter_id, ser.serialize(w.event), w.has_requirements,
                               ser.serialize(w.resolved_event) if w.resolved_event else None) for w in ws.collected_waiters),
        }
    return out


# -------------------------------------------------------------------------------- programs
def _reference_of(spec: Spec) -> dict[str, Any]:
    """run every uninterrupted schedule first: the workflow must be schedule-independent (rule 4)"""
    from vmc.explore import explore

    results = set()
    store_dumps = set()
    execs: dict[str, set[int]] = {}

    def obs_oracle() -> Oracle:
        def final(h: Any, e: Any, state: dict[str, Any]) -> None:
            hd = state["hd"]
            out = task_outcome(hd._result_task)
            results.add(json.dumps({"outcome": out[0], "value": repr(out[1].result if isinstance(out[1], StopEvent) else out[1])}))
            store_dumps.add(json.dumps(_store_dump(hd), sort_keys=True))
            for step in {i.step for i in h.invocations}:
                execs.setdefault(step, set()).add(sum(1 for i in h.invocations if i.step == step and i.exited))

        return Oracle(final=final)

    plain = Spec(spec.name + "/ref", spec.params, spec.mk, scripts=spec.scripts, resume=False, wf_kw=spec.wf_kw,
                 max_dev=spec.max_dev)
    orc = obs_oracle()
    explore(lambda ex: run_engine(ex, plain, orc)[0], max_dev=spec.max_dev)
    if len(results) != 1 or len(store_dumps) != 1 or any(len(v) != 1 for v in execs.values()):
        raise RuntimeError(f"reference workflow {spec.name} is not schedule independent: {results} {store_dumps} {execs}")
    return {"result": json.loads(next(iter(results))), "store": json.loads(next(iter(store_dumps))),
            "executions": {k: next(iter(v)) for k, v in execs.items()}}


def specs(tier: str) -> list[Spec]:
    q = tier == "quick"
    d = 2 if q else 4
    sp = [
        Spec("chain3", {"family": "chain"}, lambda: wf_chain(3), resume=True),
        Spec("fan(3,2)", {"family": "fan"}, lambda: wf_fan(3, 2), resume=True, max_dev=None if not q else 4),
        Spec("fan(2,1)", {"family": "fan"}, lambda: wf_fan(2, 1), resume=True),
        Spec("retry_zero", {"family": "retry_zero"}, lambda: wf_retry_chain(0), resume=True),
        Spec("retry_delay", {"family": "retry_delay"}, lambda: wf_retry_chain(2.0), resume=True),
        Spec("retry_exhaust_delay", {"family": "retry_exhaust"}, lambda: wf_retry_chain(1.0, fails=5, budget=3), resume=True),
        Spec("fan_retry(2,2,zero)", {"family": "fan_retry"}, lambda: wf_fan(2, 2, "zero", fail_uids=(0,)), resume=True),
        Spec("recover(2)", {"family": "recover"}, lambda: wf_recover(2), resume=True),
        Spec("wait(w=1,n=1)", {"family": "wait"}, lambda: wf_wait(1, n=1), scripts=resp_scripts(1), resume=True, max_dev=d + 1),
        Spec("wait(w=2,n=2)", {"family": "wait"}, lambda: wf_wait(2, n=2), scripts=resp_scripts(2), resume=True, max_dev=d),
    ]
    # two pauses in one execution (the second snapshot is taken from an already resumed run); more of these in the thorough tier
    sp.append(Spec("fan(2,2)/2x", {"family": "fan", "resumes": 2}, lambda: wf_fan(2, 2), resume=True, resume_count=2, max_dev=(4 if q else None)))
    # order-sensitive single-worker queue
    sp.append(Spec("order(3)", {"family": "order"}, lambda: wf_order(3), resume=True))
    sp.append(Spec("wait_audited", {"family": "wait_audited", "rehydrated_steps": ["ask"]}, wf_wait_audited, scripts=resp_scripts(1), resume=True, max_dev=(4 if q else None)))
    sp.append(Spec("typed_state(3)", {"family": "typed_state"}, lambda: wf_typed_state(3), resume=True))
    sp.append(Spec("typed_state(2)/2x", {"family": "typed_state", "resumes": 2}, lambda: wf_typed_state(2), resume=True, resume_count=2))
    # the client looks at the running context (ctx.to_dict()) once or twice before it pauses the run
    sp.append(Spec("fan(3,2)/peek", {"family": "fan", "peeks": 1}, lambda: wf_fan(3, 2), resume=True, peeks=1, max_dev=(3 if q else 5)))
    sp.append(Spec("fan(2,2)/peek", {"family": "fan", "peeks": 1}, lambda: wf_fan(2, 2), resume=True, peeks=1, max_dev=(4 if q else None)))
    if not q:
        sp.append(Spec("fan(3,2)/peek2", {"family": "fan", "peeks": 2}, lambda: wf_fan(3, 2), resume=True, peeks=2, max_dev=5))
        sp.append(Spec("fan_retry(2,2,zero)/peek", {"family": "fan_retry", "peeks": 1}, lambda: wf_fan(2, 2, "zero", fail_uids=(0,)), resume=True, peeks=1, max_dev=5))
        sp.append(Spec("wait(w=2,n=2)/peek", {"family": "wait", "peeks": 1}, lambda: wf_wait(2, n=2), scripts=resp_scripts(2), resume=True, peeks=1, max_dev=4))
    # the run is paused with handler.cancel_run() and the context of the CANCELLED run is serialized
    for name, fam, mk, kw in (("order(3)", "order", lambda: wf_order(3), {}), ("fan(2,1)", "fan", lambda: wf_fan(2, 1), {}),
                              ("fan(3,2)", "fan", lambda: wf_fan(3, 2), {"max_dev": 3 if q else None}),
                              ("retry_zero", "retry_zero", lambda: wf_retry_chain(0), {}),
                              ("retry_delay", "retry_delay", lambda: wf_retry_chain(2.0), {}),
                              ("recover(2)", "recover", lambda: wf_recover(2), {}),
                              ("wait(w=1,n=1)", "wait", lambda: wf_wait(1, n=1), {"scripts": resp_scripts(1), "max_dev": d + 1})):
        sp.append(Spec(name + "/after_cancel", {"family": fam, "paused_by": "cancel_run"}, mk, resume=True, resume_via="cancel", **kw))
    if not q:
        for name, fam, mk, kw in (("fan(2,1)", "fan", lambda: wf_fan(2, 1), {}), ("retry_zero", "retry_zero", lambda: wf_retry_chain(0), {}),
                                  ("retry_delay", "retry_delay", lambda: wf_retry_chain(2.0), {}), ("recover(2)", "recover", lambda: wf_recover(2), {}),
                                  ("fan_retry(2,2,zero)", "fan_retry", lambda: wf_fan(2, 2, "zero", fail_uids=(0,)), {"max_dev": 5}),
                                  ("wait(w=2,n=2)", "wait", lambda: wf_wait(2, n=2), {"scripts": resp_scripts(2), "max_dev": 4})):
            sp.append(Spec(name + "/after_cancel/2x", {"family": fam, "paused_by": "cancel_run", "resumes": 2}, mk, resume=True,
                           resume_via="cancel", resume_count=2, **kw))
        sp.append(Spec("order(4)", {"family": "order"}, lambda: wf_order(4), resume=True))
        sp.append(Spec("order(4)/after_cancel", {"family": "order", "paused_by": "cancel_run"}, lambda: wf_order(4), resume=True, resume_via="cancel"))
        sp.append(Spec("order(3)/after_cancel/2x", {"family": "order", "paused_by": "cancel_run", "resumes": 2}, lambda: wf_order(3),
                       resume=True, resume_via="cancel", resume_count=2))
        sp += [Spec("fan(4,2)", {"family": "fan"}, lambda: wf_fan(4, 2), resume=True, max_dev=4),
               Spec("recover(3)", {"family": "recover"}, lambda: wf_recover(3), resume=True)]
        # two pauses in one execution (the second snapshot is taken from an already resumed run)
        sp += [Spec("chain3/2x", {"family": "chain", "resumes": 2}, lambda: wf_chain(3), resume=True, resume_count=2),
               Spec("fan(2,1)/2x", {"family": "fan", "resumes": 2}, lambda: wf_fan(2, 1), resume=True, resume_count=2),
               Spec("fan(3,2)/2x", {"family": "fan", "resumes": 2}, lambda: wf_fan(3, 2), resume=True, resume_count=2, max_dev=5),
               Spec("retry_zero/2x", {"family": "retry_zero", "resumes": 2}, lambda: wf_retry_chain(0), resume=True, resume_count=2),
               Spec("retry_delay/2x", {"family": "retry_delay", "resumes": 2}, lambda: wf_retry_chain(2.0), resume=True, resume_count=2),
               Spec("retry_exhaust_delay/2x", {"family": "retry_exhaust", "resumes": 2},
                    lambda: wf_retry_chain(1.0, fails=5, budget=3), resume=True, resume_count=2),
               Spec("fan_retry(2,2,zero)/2x", {"family": "fan_retry", "resumes": 2}, lambda: wf_fan(2, 2, "zero", fail_uids=(0,)),
                    resume=True, resume_count=2, max_dev=5),
               Spec("recover(2)/2x", {"family": "recover", "resumes": 2}, lambda: wf_recover(2), resume=True, resume_count=2),
               Spec("wait(w=1,n=1)/2x", {"family": "wait", "resumes": 2}, lambda: wf_wait(1, n=1), scripts=resp_scripts(1),
                    resume=True, resume_count=2, max_dev=5),
               Spec("wait(w=2,n=2)/2x", {"family": "wait", "resumes": 2}, lambda: wf_wait(2, n=2), scripts=resp_scripts(2),
                    resume=True, resume_count=2, max_dev=4)]
    return sp


def programs(tier: str) -> list[Program]:
    ps = []
    for s in specs(tier):
        def execute(ex: Any, s: Spec = s, cache: dict[str, Any] = {}) -> Any:  # noqa: B006
            if "oracle" not in cache:
                cache["oracle"] = make_oracle(_reference_of(s))
            return run_engine(ex, s, cache["oracle"])

        ps.append(Program(s.name, s.params, execute, max_dev=s.max_dev))
    return ps


RULE = ("deterministic workflows (chain with store writes, fan-out/fan-in, retry with zero/positive delay incl. "
        "exhaustion, catch_error recovery budgets, waits answered externally, an order-sensitive single-worker queue) x every schedule x one "
        "ctx.to_dict()->JSON->Context.from_dict resume at every quiescent point (the context of the running run, then a hard stop; or "
        "handler.cancel_run() first and the context of the cancelled run; optionally the running context is read once or twice before the pause); result, state store, retry numbers "
        "of re-executed invocations, total executions and round-trip stability are compared with the uninterrupted "
        "runs (all of which are first shown to agree); non-trivial = the snapshot is taken after at least one "
        "other action, i.e. at least one deviation")
from vmc.tables import _ROUND6 as _R6  # noqa: E402

RULE += _R6["C12"]
from vmc.tables import _ROUND7 as _R7  # noqa: E402

RULE += _R7["C12"]
from vmc.tables import _ROUND8 as _R8  # noqa: E402

RULE += _R8["C12"]



def run(tier: str, seed: int) -> Any:
    return run_programs(PID, programs(tier), RULE, seed, assumptions=ENGINE_ASSUMPTIONS + [
        "the original run is hard-stopped (all its tasks cancelled) at the snapshot point"])


def replay(rec: dict[str, Any]) -> tuple[bool, str]:
    return replay_program(programs("thorough"), rec)

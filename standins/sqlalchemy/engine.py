class URL:  # pragma: no cover
    @classmethod
    def create(cls, *a, **kw):
        return cls()


class Engine:  # pragma: no cover
    pass


def make_url(x):  # pragma: no cover
    return URL()

"""C25 - the keyed lock gives per-key mutual exclusion and cleans up."""
from __future__ import annotations

import asyncio
import importlib.util
from typing import Any

from vmc import bootstrap
from vmc.checks.common import Program, replay_program, run_programs
from vmc.explore import Execution
from vmc.loop import VLoop

PID = "C25"


def _load() -> Any:
    spec = importlib.util.spec_from_file_location(
        "_vmc_keyed_lock", bootstrap.src("packages/llama-agents-server/src/llama_agents/server/_keyed_lock.py"))
    mod = importlib.util.module_from_spec(spec)  # type: ignore[arg-type]
    spec.loader.exec_module(mod)  # type: ignore[union-attr]
    return mod


def execute(ex: Execution, keys: list[str], max_cancels: int, combined: bool) -> tuple[Any, list[Any]]:
    KeyedLock = _load().KeyedLock
    loop = VLoop()
    loop.install()
    v: list[Any] = []
    try:
        locks = KeyedLock()
        n = len(keys)
        inside: dict[str, list[int]] = {}
        gates: dict[int, asyncio.Future] = {}
        state = ["new"] * n  # new | waiting | inside | done | cancelled
        entered = [False] * n
        tasks: dict[int, asyncio.Task] = {}
        w = {"keys": "|".join(keys) if any(len(k) > 1 for k in keys) else "".join(keys)}

        waiting_key: dict[int, Any] = {}

        async def hold(i: int, key: str, phase: str, body: Any = None) -> None:
            """acquire ``key``, stay inside until the explorer opens gate (i, phase); ``body`` runs inside first"""
            state[i] = "waiting"
            waiting_key[i] = key
            async with locks(key):
                waiting_key[i] = None
                state[i] = "inside"
                entered[i] = True
                inside.setdefault(key, []).append(i)
                if len(inside[key]) > 1:
                    v.append(("two_holders_for_one_key", w, f"key {key!r}: holders {inside[key]}"))
                try:
                    if body is not None:
                        await body()
                    gid = i if phase == "" else (i, phase)
                    gates[gid] = loop.create_future()
                    try:
                        await gates[gid]
                    finally:
                        gates.pop(gid, None)
                finally:
                    inside[key].remove(i)
                    state[i] = "between"

        async def worker(i: int) -> None:
            spec = keys[i]
            try:
                if ">" in spec:  # nested: takes the second key while holding the first
                    outer, inner = spec.split(">")
                    await hold(i, outer, "outer", body=lambda: hold(i, inner, "inner"))
                elif "," in spec:  # back to back: leaves a key and asks for the next one at once
                    for n_, k in enumerate(spec.split(",")):
                        await hold(i, k, f"#{n_}")
                else:
                    await hold(i, spec, "")
                state[i] = "done"
            except asyncio.CancelledError:
                state[i] = "cancelled"
                raise

        cancels = 0
        started = 0
        steps = 0
        while True:
            loop.drain()
            steps += 1
            # invariants at quiescence
            for i in range(n):
                if state[i] == "waiting" and waiting_key.get(i) is not None:
                    holders = inside.get(waiting_key[i], [])
                    if not holders:
                        # nobody holds this key, yet the task is still waiting -> blocked by another key
                        # (or a lost wake-up)
                        v.append(("waiter_blocked_without_holder", w,
                                  f"task {i} waits for key {waiting_key[i]!r} although nobody holds that key; "
                                  f"inside={inside} states={state}"))
            acts: list[tuple[str, Any]] = []
            if started < n:
                acts.append((f"start{started}", ("start", started)))
            for i in sorted(gates, key=str):
                if not gates[i].done():
                    acts.append((f"release{i}", ("rel", i)))
            if cancels < max_cancels:
                for i in range(n):
                    if i in tasks and not tasks[i].done():
                        acts.append((f"cancel{i}", ("cancel", i)))
                if combined:
                    for i in sorted((g for g in gates if isinstance(g, int))):
                        if gates[i].done():
                            continue
                        for j in range(n):
                            if j != i and j in tasks and not tasks[j].done() and state[j] == "waiting":
                                acts.append((f"release{i}+cancel{j}", ("rel+cancel", i, j)))
                                acts.append((f"cancel{j}+release{i}", ("cancel+rel", i, j)))
            if not acts or steps > 60:
                break
            c = ex.choose(len(acts), "act", [a[0] for a in acts])
            a = acts[c][1]
            if a[0] == "start":
                tasks[a[1]] = loop.create_task(worker(a[1]))
                started += 1
            elif a[0] == "rel":
                gates[a[1]].set_result(None)
            elif a[0] == "cancel":
                tasks[a[1]].cancel()
                cancels += 1
            elif a[0] == "rel+cancel":
                gates[a[1]].set_result(None)
                tasks[a[2]].cancel()
                cancels += 1
            elif a[0] == "cancel+rel":
                tasks[a[2]].cancel()
                gates[a[1]].set_result(None)
                cancels += 1
        # maximal execution reached: everything released
        for i in range(n):
            t = tasks.get(i)
            if t is None:
                continue
            if t.cancelled() or state[i] == "cancelled":
                continue
            if not t.done():
                v.append(("waiter_never_enters", w, f"task {i} (key {keys[i]!r}) is stuck in state {state[i]}; states={state}"))
            elif t.exception() is not None:
                v.append(("task_failed", {**w, "exc": type(t.exception()).__name__}, f"task {i} raised {t.exception()!r}"))
            elif not entered[i]:
                v.append(("waiter_never_enters", w, f"task {i} finished without entering"))
        if all(t.done() for t in tasks.values()):
            # whatever per-key bookkeeping the implementation keeps (dict-valued attributes) must be empty again
            left = {k: (list(val) if not isinstance(val, dict) else dict(val)) for k, val in vars(locks).items()
                    if isinstance(val, (dict, set, list)) and val}
            if left:
                v.append(("lock_state_left_behind", w, f"per-key state {left!r} after all "
                                                       f"holders and waiters are gone (states {state})"))
        obs = {"states": list(state), "_metrics": {"max_concurrency": sum(1 for s in state if s != "new")}}
        return obs, v
    finally:
        loop.teardown()


def programs(tier: str) -> list[Program]:
    q = tier == "quick"
    ps = []
    for keys in (["a", "a"], ["a", "b"], ["a", "a", "b"], ["a", "a", "a"]) + (() if q else (["a", "a", "b", "b"], ["a", "b", "a", "a"])):
        for cancels in (0, 1, 2):
            for combined in ((False,) if cancels == 0 else (False, True)):
                if q and len(keys) >= 3 and cancels == 2 and combined:
                    max_dev = 5
                else:
                    max_dev = None if (len(keys) <= 3 or not q) else 6
                ps.append(Program(f"keyed_lock(keys={''.join(keys)},cancels<={cancels},combined={combined})",
                                  {"keys": keys, "cancels": cancels, "combined": combined},
                                  (lambda ex, keys=keys, cancels=cancels, combined=combined: execute(ex, keys, cancels, combined)),
                                  max_dev=max_dev))
    # a task that leaves a key and asks for it again at once (while a waiter has been woken but has not run yet), tasks that
    # take a second key while holding one, and a bystander on an unrelated key
    for keys in (["a,a", "a"], ["a,a", "a", "c"], ["a,a", "a>b", "c"], ["a>b", "b>a"][:1] + ["b"], ["a,b", "b,a", "a"]):
        ps.append(Program(f"keyed_lock(keys={'|'.join(keys)})", {"keys": keys, "cancels": 0, "combined": False},
                          (lambda ex, keys=keys: execute(ex, keys, 0, False)), max_dev=None if len(keys) <= 3 else 6))
    if not q:
        # deeper: five tasks, three cancellations, nested + back-to-back sections with cancellations
        for keys, cancels, combined, md in ((["a", "a", "a", "b", "b"], 1, False, None), (["a", "a", "a", "b", "b"], 2, True, None), (["a", "a", "a", "a", "b"], 2, True, None),
                                            (["a", "a", "a"], 3, True, None), (["a", "a", "b"], 3, True, None),
                                            (["a,a", "a>b", "c"], 2, False, None), (["a>b", "b", "a"], 2, True, None),
                                            (["a,b", "b,a", "a"], 2, False, None), (["a,a", "a,a", "a"], 2, True, None)):
            ps.append(Program(f"keyed_lock(keys={'|'.join(keys)},cancels<={cancels},combined={combined})",
                              {"keys": keys, "cancels": cancels, "combined": combined},
                              (lambda ex, keys=keys, cancels=cancels, combined=combined: execute(ex, keys, cancels, combined)),
                              max_dev=md))
    ps.append(Program("keyed_lock(keys=a,a|a|c,cancels<=1)", {"keys": ["a,a", "a", "c"], "cancels": 1, "combined": False},
                      (lambda ex: execute(ex, ["a,a", "a", "c"], 1, False)), max_dev=(5 if q else None)))
    return ps


RULE = ("2-4 tasks on overlapping keys, each started at an explorer-chosen point and holding the lock until released - single "
        "sections, back-to-back sections on the same / another key, and sections nested inside another key's section; "
        "up to 2 task.cancel() calls at any quiescent point (also in the same loop iteration as a release, both "
        "orders) x all interleavings; occupancy per key, no waiting without a holder of the same key, every "
        "non-cancelled task enters, no lock state left; non-trivial = at least one deviation from the default order")


def run(tier: str, seed: int) -> Any:
    return run_programs(PID, programs(tier), RULE, seed, assumptions=[
        "asyncio semantics of the hand-stepped virtual loop (uncontended asyncio.Lock.acquire does not suspend)",
        "cancellation is delivered at suspension points only (asyncio)"])


def replay(rec: dict[str, Any]) -> tuple[bool, str]:
    return replay_program(programs("thorough"), rec)

"""C10 - a waiting step resumes once, with a matching event or a timeout."""
from __future__ import annotations

from collections import Counter
from typing import Any

from vmc.checks.common import replay_program, run_programs
from vmc.engine import Action, gate, make_step, make_workflow
from vmc.events import Ask, Done, Resp, RespSub, RespTwin, Work
from vmc.progs import ENGINE_ASSUMPTIONS, Oracle, Spec, to_programs
from workflows.events import StartEvent, StopEvent

PID = "C10"


def wf_waiters(n: int, w: int, timeout: float | None, requirements: bool, two_waits: bool = False,
               implicit_id: bool = False, pre_gate: bool = False) -> type:
    async def start(self, ctx, ev, inv):  # noqa: ANN001
        for i in range(n):
            ctx.send_event(Work(uid=i))
        return None

    async def ask(self, ctx, ev, inv):  # noqa: ANN001
        inv.info["waits"] = []

        async def one_wait(tag: str) -> Any:
            req = {"key": f"{ev.uid}{tag}"} if requirements else None
            kw: dict[str, Any] = {} if implicit_id else {"waiter_id": f"w{ev.uid}{tag}"}
            try:
                r = await ctx.wait_for_event(Resp, requirements=req, timeout=timeout,
                                             waiter_event=Ask(uid=ev.uid * 10 + (1 if tag else 0)), **kw)
            except TimeoutError:
                inv.info["waits"].append((tag, "timeout", None))
                return None
            inv.info["waits"].append((tag, "event", r))
            return r

        if pre_gate:
            await gate(f"pre{ev.uid}")  # the step does other work before it (re-)registers its wait
        r1 = await one_wait("")
        if two_waits and r1 is not None:
            await one_wait("b")
        await gate(f"ask{ev.uid}")
        return Done(uid=ev.uid)

    async def fin(self, ctx, ev, inv):  # noqa: ANN001
        return None

    return make_workflow("Waiters", [
        make_step("start", [StartEvent], [Work, None], start),
        make_step("ask", [Work], [Done], ask, num_workers=w),
        make_step("fin", [Done], [StopEvent, None], fin, num_workers=1),
    ])


def script(events: list[tuple[str, str]]) -> Any:
    """each (cls, key) is sent by its own environment script (so all arrival orders are explored)"""

    def mk(state: dict[str, Any]) -> list[list[Action]]:
        out = []
        for i, (cls, key) in enumerate(events):
            klass = {"Resp": Resp, "RespSub": RespSub, "RespTwin": RespTwin}[cls]

            def send(klass: Any = klass, key: str = key, i: int = i) -> None:
                state["hd"].ctx.send_event(klass(uid=100 + i, key=key))

            out.append([Action(f"send {cls}({key})#{100 + i}", send)])
        return out

    return mk


def on_tick(h: Any, tick: Any, adapter: Any) -> None:
    """root-cause context: a matching event processed while the waiter it matches is already resolved
    (its replay is still in flight)"""
    from workflows.runtime.types.ticks import TickAddEvent

    if not isinstance(tick, TickAddEvent) or h.pre_state is None or h.pre_runner is not h.runners[-1]:
        return
    for ws in h.pre_state.workers.values():
        for w in ws.collected_waiters:
            if w.has_requirements and not w.requirements and w.resolved_event is None \
                    and w.waiting_for_event is type(tick.event) \
                    and (any(a.event is w.event for a in ws.queue) or any(ip.event is w.event for ip in ws.in_progress)):
                # a waiter restored from a snapshot whose step has been re-queued to register the requirements again
                # but has not got there yet
                h.c10_unknown_req = True
            if (w.resolved_event is not None or getattr(w, "timed_out", False)) and w.waiting_for_event is type(tick.event) and all(
                    getattr(tick.event, k, None) == v for k, v in w.requirements.items()):
                # ... and that replay really is still queued / running
                if any(a.event is w.event for a in ws.queue) or any(ip.event is w.event for ip in ws.in_progress):
                    h.c10_dup = True


def _ctx(h: Any, state: dict[str, Any]) -> dict[str, bool]:
    snap = state.get("snap", {}) if state.get("resumed") else {}
    has_req = any(w.get("has_requirements") for ws in snap.get("workers", {}).values()
                  for w in ws.get("collected_waiters", []))
    return {"match_while_replay_in_flight": bool(getattr(h, "c10_dup", False)),
            "event_while_requirements_unknown": bool(getattr(h, "c10_unknown_req", False)),
            "resumed_with_requirement_waiter": bool(has_req),
            "resumed": bool(state.get("resumed"))}


def final(h: Any, e: Any, state: dict[str, Any]) -> None:
    p = h.spec.params
    requirements = p["requirements"]
    _viol = h.violate

    def violate(clause: str, w: dict[str, Any], d: str) -> None:
        _viol(clause, {**_ctx(h, state), **{k: v for k, v in w.items() if k in ("got",)}}, d)

    h.violate = violate
    # --- group ask invocations by input (one wait site "" (+ "b") per input)
    by_input: dict[int, list[Any]] = {}
    for inv in h.invocations:
        if inv.step == "ask":
            by_input.setdefault(inv.ev.uid, []).append(inv)
    wit0 = {"resume": bool(h.spec.resume), "timeout": p["timeout"] is not None}
    for uid, invs in by_input.items():
        completions = [i for i in invs if i.exited and i.exc is None]
        if len(completions) > 1:
            h.violate("waiting_step_completes_twice", {**wit0, "requirements": requirements},
                      f"input Work#{uid}: the waiting step completed {len(completions)} times "
                      f"(wait results {[[(t, k, getattr(r, 'uid', None)) for t, k, r in i.info.get('waits', [])] for i in completions]})")
        for inv in invs:
            for tag, kind, r in inv.info.get("waits", []):
                if kind != "event":
                    continue
                if type(r) is not Resp:
                    h.violate("wait_result_wrong_type", {**wit0, "got": type(r).__name__ + ("(look-alike)" if type(r) is RespTwin else "")},
                              f"wait_for_event(Resp) returned an instance of {type(r).__module__}.{type(r).__qualname__}")
                if requirements and getattr(r, "key", None) != f"{uid}{tag}":
                    h.violate("wait_result_violates_requirements", wit0,
                              f"input Work#{uid} wait{tag!r} required key={uid}{tag!r} but got key={getattr(r, 'key', None)!r}")
        # TimeoutError at most once per wait site, and never together with an event for the same site
        kinds = Counter((tag, kind) for inv in invs if inv.exited and inv.exc is None for tag, kind, r in inv.info.get("waits", []))
        all_kinds = Counter((tag, kind) for inv in invs for tag, kind, r in inv.info.get("waits", []))
        for (tag, kind), nn in all_kinds.items():
            if kind == "timeout" and nn > 1 and not h.spec.resume:
                h.violate("timeout_raised_twice", wit0, f"input Work#{uid} wait{tag!r}: TimeoutError raised {nn} times")
    # --- no program step raises (TimeoutError is caught by the step): the run must never end with an exception, e.g. because a
    # timeout tick arrived for a wait that had been answered long before
    from vmc.engine import task_outcome

    out = task_outcome(state["hd"]._result_task)
    # --- liveness: nothing is enabled any more, yet a wait's timeout is still scheduled - it can never fire
    if e.stuck and h.runners and out[0] == "pending":
        pend = [t for _, _, t in h.runners[-1].scheduled_wakeups if type(t).__name__ == "TickWaiterTimeout"]
        if pend:
            h.violate("wait_timeout_never_delivered", {**wit0, "after_busy_tick": bool(getattr(h, "busy_until", 0.0))},
                      f"the run is quiescent for ever with waiter timeouts {[t.waiter_id for t in pend]} still scheduled; trace {h.trace[-8:]}")
    if out[0] == "exception":
        h.violate("run_fails_although_no_step_raises", {**wit0, "got": type(out[1]).__name__},
                  f"the run ended with {out[1]!r}; ticks {[type(t).__name__ for t in h.ticks][-6:]}")
    # --- waiter_event published once per waiter id (per run segment: a resumed run re-registers nothing)
    asks = Counter(ev.uid for ev in h.published if isinstance(ev, Ask))
    for k, nn in asks.items():
        if nn > 1:
            h.violate("waiter_event_published_twice", wit0, f"waiter_event Ask#{k} published {nn} times")
    # --- timeout only if no matching event was processed before the timeout tick
    from workflows.runtime.types.ticks import TickAddEvent, TickWaiterTimeout

    if not h.spec.resume:
        seen_match: set[str] = set()
        for t in h.ticks:
            if isinstance(t, TickAddEvent) and type(t.event) is Resp:
                for uid in by_input:
                    for tag in ("", "b"):
                        if not requirements or t.event.key == f"{uid}{tag}":
                            seen_match.add(f"w{uid}{tag}")
            if isinstance(t, TickWaiterTimeout):
                pass
        for uid, invs in by_input.items():
            for inv in invs:
                for tag, kind, r in inv.info.get("waits", []):
                    if kind == "timeout" and requirements and f"w{uid}{tag}" in seen_match and not p.get("late_ok"):
                        # a matching event was processed at some point: was it before the timeout tick?
                        idx_to = next((i for i, t in enumerate(h.ticks) if isinstance(t, TickWaiterTimeout)
                                       and t.waiter_id == f"w{uid}{tag}"), None)
                        idx_ev = next((i for i, t in enumerate(h.ticks) if isinstance(t, TickAddEvent)
                                       and type(t.event) is Resp and t.event.key == f"{uid}{tag}"), None)
                        idx_reg = None
                        if idx_to is not None and idx_ev is not None and idx_ev < idx_to:
                            # only counts if the waiter was already registered when the event was processed
                            reg = [i for i, t in enumerate(h.ticks) if getattr(t, "type", "") == "step_result"
                                   and t.step_name == "ask" and t.event.uid == uid
                                   and any((getattr(x, "type", "") == "add_waiter" or type(x).__name__ == "AddWaiter")
                                           and getattr(x, "waiter_id", None) == f"w{uid}{tag}" for x in t.result)]
                            idx_reg = reg[0] if reg else None
                            if idx_reg is not None and idx_reg < idx_ev:
                                h.violate("timeout_despite_matching_event", wit0,
                                          f"input Work#{uid}: matching event processed (tick {idx_ev}) after the waiter was "
                                          f"registered (tick {idx_reg}) and before the timeout tick {idx_to}, yet TimeoutError was raised")


def observe(h: Any, e: Any, state: dict[str, Any]) -> Any:
    return sorted((inv.ev.uid, [(t, k, getattr(r, "uid", None)) for t, k, r in inv.info.get("waits", [])], inv.exc is None)
                  for inv in h.invocations if inv.step == "ask" and inv.exited)


ORACLE = Oracle(on_tick=on_tick, final=final, observe=observe)


def specs(tier: str) -> list[Spec]:
    q = tier == "quick"
    sp: list[Spec] = []

    def add(name: str, n: int, w: int, timeout: float | None, req: bool, events: list[tuple[str, str]],
            resume: bool = False, two: bool = False, implicit: bool = False, max_dev: int | None = None,
            pre: bool = False, busy: int = 0) -> None:
        sp.append(Spec(name, {"n": n, "w": w, "timeout": timeout, "requirements": req, "events": events, "two": two,
                              **({"pre_gate": True} if pre else {}), **({"busy_ticks": busy} if busy else {})},
                       (lambda: wf_waiters(n, w, timeout, req, two, implicit, pre)), scripts=script(events), resume=resume,
                       max_dev=max_dev, busy_ticks=busy))

    d = 3 if q else 7
    add("match_dup", 1, 1, None, True, [("Resp", "0"), ("Resp", "0")], max_dev=None)
    add("match_dup_noreq", 1, 1, None, False, [("Resp", "x"), ("Resp", "y")], max_dev=None)
    add("match_dup_w2", 1, 2, None, True, [("Resp", "0"), ("Resp", "0")], max_dev=None)
    add("nonmatch_sub_match", 1, 1, None, True, [("Resp", "zz"), ("RespSub", "0"), ("Resp", "0")], max_dev=d)
    add("two_inputs", 2, 2, None, True, [("Resp", "0"), ("Resp", "1"), ("Resp", "1")], max_dev=d)
    add("two_inputs_w1", 2, 1, None, True, [("Resp", "1"), ("Resp", "0")], max_dev=d)
    add("timeout_match", 1, 1, 5.0, True, [("Resp", "0")], max_dev=None)
    add("timeout_dup", 1, 1, 5.0, True, [("Resp", "0"), ("Resp", "0")], max_dev=d)
    add("timeout_nonmatch", 1, 1, 5.0, True, [("Resp", "zz")], max_dev=None)
    add("timeout_two_inputs", 2, 2, 5.0, True, [("Resp", "0")], max_dev=d)
    add("two_waits", 1, 1, None, True, [("Resp", "0"), ("Resp", "0b"), ("Resp", "0")], two=True, max_dev=d)
    add("implicit_id", 1, 1, None, True, [("Resp", "0"), ("Resp", "0")], implicit=True, max_dev=None)
    # default waiter ids: two waits for the same event type whose requirements have the same keys but different values
    add("implicit_id_two_waits", 1, 1, None, True, [("Resp", "0"), ("Resp", "0b")], two=True, implicit=True, max_dev=None)
    add("implicit_id_two_inputs", 2, 2, None, True, [("Resp", "1"), ("Resp", "0")], implicit=True, max_dev=d)
    # two sequential waits with timeouts: the first wait's (stale) timeout tick may fire between the two answers
    add("timeout_two_waits", 1, 1, 5.0, True, [("Resp", "0"), ("Resp", "0b")], two=True, max_dev=None if not q else 4)
    add("timeout_two_waits_noreq", 1, 1, 5.0, False, [("Resp", "x"), ("Resp", "y")], two=True, max_dev=None if not q else 4)
    # an unrelated event class that has the same module and __name__ as the awaited one (nested / factory-made classes)
    add("lookalike_type", 1, 1, None, True, [("RespTwin", "0"), ("Resp", "0")], max_dev=None)
    add("lookalike_type_noreq", 1, 1, None, False, [("RespTwin", "x"), ("Resp", "y")], max_dev=None)
    # one tick keeps the loop busy until after the pending waiter timeout: the wait must still time out / the late answer is too late
    add("timeout_nonmatch/busy_tick", 1, 1, 5.0, True, [("Resp", "zz")], max_dev=None, busy=1)
    add("timeout_match/busy_tick", 1, 1, 5.0, True, [("Resp", "0")], max_dev=d + 1, busy=1)
    add("timeout_two_inputs/busy_tick", 2, 2, 5.0, True, [("Resp", "0")], max_dev=d, busy=1)
    # serialize / resume at every quiescent point
    add("resume_match", 1, 1, None, True, [("Resp", "0")], resume=True, max_dev=None)
    add("resume_nonmatch_match", 1, 1, None, True, [("Resp", "zz"), ("Resp", "0")], resume=True, max_dev=d)
    add("resume_two_inputs", 2, 2, None, True, [("Resp", "1"), ("Resp", "0")], resume=True, max_dev=d)
    add("resume_noreq", 1, 1, None, False, [("Resp", "x")], resume=True, max_dev=None)
    add("resume_timeout", 1, 1, 5.0, True, [("Resp", "0")], resume=True, max_dev=d)
    # the waiting step does other work before wait_for_event: after a resume its requirements are unknown until it
    # gets there again, and responses may arrive in that window
    add("resume_pre_gate", 1, 1, None, True, [("Resp", "zz"), ("Resp", "0")], resume=True, pre=True, max_dev=d + 1)
    add("resume_pre_gate_two_inputs", 2, 1, None, True, [("Resp", "1"), ("Resp", "0")], resume=True, pre=True, max_dev=d)
    if not q:
        add("three_inputs", 3, 2, None, True, [("Resp", "0"), ("Resp", "1"), ("Resp", "2"), ("Resp", "1")], max_dev=4)
        add("resume_dup", 1, 1, None, True, [("Resp", "0"), ("Resp", "0")], resume=True, max_dev=5)
        add("resume_two_waits", 1, 1, None, True, [("Resp", "0"), ("Resp", "0b")], resume=True, two=True, max_dev=6)
        add("resume_pre_gate_two_waits", 1, 1, None, True, [("Resp", "0"), ("Resp", "0b")], resume=True, two=True, pre=True, max_dev=5)
        add("resume_three_inputs", 3, 2, None, True, [("Resp", "2"), ("Resp", "0"), ("Resp", "1")], resume=True, max_dev=4)
        add("resume_timeout_two_inputs", 2, 2, 5.0, True, [("Resp", "1")], resume=True, max_dev=5)
        add("pre_gate_dup", 1, 1, None, True, [("Resp", "0"), ("Resp", "0")], pre=True, max_dev=None)
        add("pre_gate_two_inputs_w1", 2, 1, None, True, [("Resp", "1"), ("Resp", "0"), ("Resp", "1")], pre=True, max_dev=5)
    return sp


RULE = ("waits with/without requirements, with/without timeout, explicit/implicit waiter ids, two sequential waits, "
        "two inputs waiting concurrently x response scripts (matching, duplicate, non-matching requirement, subclass, "
        "an unrelated class with the same qualified name, early, late) x optional serialize+resume at every quiescent point x all arrival/timer/completion orders "
        "within the stated deviation bound; non-trivial = at least one schedule deviation")


def programs(tier: str) -> list[Any]:
    return to_programs(specs(tier), ORACLE)


def run(tier: str, seed: int) -> Any:
    return run_programs(PID, programs(tier), RULE, seed, assumptions=ENGINE_ASSUMPTIONS)


def replay(rec: dict[str, Any]) -> tuple[bool, str]:
    return replay_program(programs("thorough"), rec)

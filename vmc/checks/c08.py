"""C08 - exhausted failures route to the owning error handler within budget."""
from __future__ import annotations

from collections import Counter
from typing import Any, Union

from vmc.checks.common import Program, replay_program, run_programs
from vmc.engine import BasicRuntime, EngineExec, MonRuntime, RunConfig, gate, make_step, make_workflow, task_outcome
from vmc.events import A, B
from vmc.explore import Execution, ReplayDivergence
from vmc.progs import ENGINE_ASSUMPTIONS
from workflows import Context, catch_error, step
from workflows.events import StartEvent, StepFailedEvent, StopEvent, WorkflowFailedEvent
from workflows.retry_policy import retry_policy, stop_after_attempt, wait_fixed

PID = "C08"

# layout: list of handlers (name, for_steps|None, max_recoveries, behaviour)
#   behaviour: "reenter" (re-emit the failed input -> lineage re-enters the failing step),
#              "stop" (finish the run), "raise" (the handler itself fails)
LAYOUTS: dict[str, list[tuple[str, list[str] | None, str]]] = {
    "none": [],
    "wildcard": [("h_any", None, "reenter")],
    "scoped_owner": [("h_a", ["bad_a"], "reenter")],
    "scoped_other": [("h_b", ["bad_b"], "reenter")],
    "scoped_other+wildcard": [("h_b", ["bad_b"], "reenter"), ("h_any", None, "reenter")],
    "two_scoped": [("h_a", ["bad_a"], "reenter"), ("h_b", ["bad_b"], "reenter")],
    "wildcard_stop": [("h_any", None, "stop")],
    "wildcard_raises": [("h_any", None, "raise")],
    "scoped_raises+wildcard": [("h_a", ["bad_a"], "raise"), ("h_any", None, "reenter")],
    # one lineage alternates between two handlers: a fails -> h_a emits B -> b fails -> h_b emits A -> ...
    "ping_pong_scoped": [("h_a", ["bad_a"], "other"), ("h_b", ["bad_b"], "other")],
    "ping_pong_scoped+wildcard": [("h_b", ["bad_b"], "other"), ("h_any", None, "other")],
    "scoped_owner+wildcard_stop": [("h_a", ["bad_a"], "reenter"), ("h_any", None, "stop")],
    # a handler scoped to NO step (for_steps=[]) covers nothing - it is not a wildcard
    "scoped_to_nothing": [("h_none", [], "reenter")],
    "scoped_to_nothing+wildcard": [("h_none", [], "stop"), ("h_any", None, "reenter")],
    "scoped_to_nothing+scoped_owner": [("h_none", [], "stop"), ("h_a", ["bad_a"], "reenter")],
    # handlers with DIFFERENT budgets (4th element: added to the program's budget): every handler counts on its own
    "scoped_small+wildcard_large": [("h_a", ["bad_a"], "reenter", 0), ("h_any", None, "reenter", 2)],  # type: ignore[list-item]
    "scoped_large+wildcard_small": [("h_a", ["bad_a"], "reenter", 2), ("h_any", None, "reenter", 0)],  # type: ignore[list-item]
    "two_scoped_small_large": [("h_a", ["bad_a"], "reenter", 0), ("h_b", ["bad_b"], "reenter", 1)],  # type: ignore[list-item]
}
_RAW_LAYOUTS = LAYOUTS
BUDGET_EXTRA: dict[str, dict[str, int]] = {k: {h[0]: (h[3] if len(h) > 3 else 0) for h in hs} for k, hs in _RAW_LAYOUTS.items()}
LAYOUTS = {k: [tuple(h[:3]) for h in hs] for k, hs in _RAW_LAYOUTS.items()}  # type: ignore[misc]


def budget_of(layout: str, handler_name: str, budget: int) -> int:
    return budget + BUDGET_EXTRA[layout].get(handler_name, 0)


def ref_owner(layout: str, step: str) -> str | None:
    hs = LAYOUTS[layout]
    if step in {h[0] for h in hs}:
        return None  # handler steps have no owner
    for name, for_steps, _ in hs:
        if for_steps is not None and step in for_steps:
            return name
    for name, for_steps, _ in hs:
        if for_steps is None:
            return name
    return None


def build(layout: str, budget: int, lineages: int, with_retry: bool, disable_validation: bool) -> Any:
    async def start(self, ctx, ev, inv):  # noqa: ANN001
        for i in range(lineages):
            ctx.send_event(A(uid=i))          # lineage i, generation 0 (uid = lineage + 100*generation)
        if lineages == 0:
            ctx.send_event(B(uid=0))
        return None

    def failing(name: str) -> Any:
        async def body(self, ctx, ev, inv):  # noqa: ANN001
            await gate(f"{name}:{ev.uid}.{inv.retry.retry_number}")
            raise RuntimeError(f"{name} failed on {ev.uid}")

        return body

    def handler(name: str, behaviour: str) -> Any:
        async def body(self, ctx, ev, inv):  # noqa: ANN001
            await gate(f"{name}:{getattr(ev.input_event, 'uid', 'x')}")
            if behaviour == "raise":
                raise LookupError(f"{name} failed")
            if behaviour == "stop":
                return StopEvent(result=f"{name} recovered {ev.step_name}")
            if behaviour == "other":  # hop to the other failing step, same lineage, next generation
                other = B if isinstance(ev.input_event, A) else A
                return other(uid=getattr(ev.input_event, "uid", 0) + 100)
            # re-enter: same lineage, next generation
            return type(ev.input_event)(uid=ev.input_event.uid + 100) if hasattr(ev.input_event, "uid") else A(uid=999)

        return body

    pol = retry_policy(wait=wait_fixed(0), stop=stop_after_attempt(2)) if with_retry else None
    steps = [
        make_step("start", [StartEvent], [A, B, None], start),
        make_step("bad_a", [A], [StopEvent], failing("bad_a"), num_workers=2, retry_policy=pol),
        make_step("bad_b", [B], [StopEvent], failing("bad_b"), num_workers=1),
    ]
    for name, for_steps, behaviour in LAYOUTS[layout]:
        kw: dict[str, Any] = {"max_recoveries": budget_of(layout, name, budget)}
        if for_steps is not None:
            kw["for_steps"] = for_steps
        steps.append(make_step(name, [StepFailedEvent], [A, B, StopEvent], handler(name, behaviour),
                               decorator=catch_error, deco_kwargs=kw))
    cls = make_workflow("Catch", steps)
    return cls(timeout=None, runtime=MonRuntime(BasicRuntime()), disable_validation=disable_validation)


def run_variant(ex: Execution, layout: str, budget: int, lineages: int, with_retry: bool, dv: bool, resume: bool = False) -> dict[str, Any]:
    with EngineExec(ex, RunConfig(max_actions=80)) as e:
        wf = build(layout, budget, lineages, with_retry, dv)
        hd = wf.run(run_id="r1")
        state: dict[str, Any] = {"hd": hd, "wf": wf}
        state["consumer"] = e.consume_stream(hd)
        e.h.restart_marks = []
        if resume:
            # the context is serialized at an explorer-chosen quiescent point and the run continues on a fresh instance:
            # the per-lineage recovery budget has to survive that
            from vmc.engine import Action
            from vmc.progs import make_resume_action

            e.add_script([Action("snapshot+resume", make_resume_action(e, state, lambda: build(layout, budget, lineages, with_retry, dv)))])
        e.cfg.stop_when = lambda hh: state["hd"].is_done() and hh.stream_done
        e.drive()
        h = e.h
        hd = state["hd"]
        out = task_outcome(hd._result_task)
        done_invs = [inv for inv in h.invocations if not (resume and type(inv.exc).__name__ == "CancelledError")]
        entries = [(inv.step, (getattr(inv.ev.input_event, "uid", 99) % 100) if isinstance(inv.ev, StepFailedEvent) else (inv.ev.uid % 100),
                    getattr(inv.ev, "step_name", None), type(inv.ev).__name__)
                   for inv in done_invs if inv.step not in ("start",)]
        failed_events = [(ev.step_name, repr(ev.exception)) for ev in h.published if isinstance(ev, WorkflowFailedEvent)]
        sfe = [inv.ev for inv in done_invs if isinstance(inv.ev, StepFailedEvent)]
        return {"outcome": out[0], "value": repr(out[1].result if isinstance(out[1], StopEvent) else out[1]),
                "exc_type": type(out[1]).__name__ if out[0] == "exception" else None,
                "entries": entries, "failed_events": failed_events, "stuck": e.stuck, "capped": e.capped,
                "sfe": [(s.step_name, repr(s.exception), s.attempts) for s in sfe],
                "max_concurrency": h.max_concurrency}


def execute(ex: Execution, layout: str, budget: int, lineages: int, with_retry: bool, resume: bool = False) -> tuple[Any, list[Any]]:
    v: list[Any] = []
    obs = run_variant(ex, layout, budget, lineages, with_retry, dv=False, resume=resume)
    w = {"layout": layout, "disable_validation": False}
    if resume:
        w["resumed_from_snapshot"] = True
    _check_against_reference(obs, layout, budget, lineages, with_retry, w, v)
    # same schedule with graph validation disabled: the observable trace must be identical
    ex2 = Execution(ex.taken)
    try:
        obs2 = run_variant(ex2, layout, budget, lineages, with_retry, dv=True, resume=resume)
        same = {k: obs[k] for k in obs if k != "max_concurrency"} == {k: obs2[k] for k in obs2 if k != "max_concurrency"} \
            and ex2.taken == ex.taken and ex2.arity == ex.arity
    except ReplayDivergence:
        obs2, same = {"diverged": True}, False
    if not same:
        v.append(("routing_depends_on_disable_validation", {"layout": layout},
                  f"layout={layout} budget={budget}: validation on -> {_short(obs)}; disable_validation=True -> {_short(obs2)}"))
    return {"outcome": obs["outcome"], "value": obs["value"], "entries": len(obs["entries"]),
            "_metrics": {"max_concurrency": obs["max_concurrency"]}}, v


# --- one instance, several runs, a step registered between them --------------------------------------------------
class Go(StartEvent):
    uid: int = 0
    phase: int = 1


def build_late(layout: str, budget: int, disable_validation: bool) -> tuple[Any, Any]:
    """Phase 1 runs the plain layout (``start`` emits A#0, bad_a fails, ...).  Then ``bad_late`` - a free function
    step that accepts the start event itself and always fails - is registered on the class with
    ``@step(workflow=cls)``, and the SAME instance runs again with phase=2 (``start`` emits nothing, so bad_late's
    failure is the only one)."""
    async def start(self, ctx, ev, inv):  # noqa: ANN001
        if ev.phase == 1:
            ctx.send_event(A(uid=ev.uid))
        return None

    def failing(name: str) -> Any:
        async def body(self, ctx, ev, inv):  # noqa: ANN001
            await gate(f"{name}:{ev.uid}.{inv.retry.retry_number}")
            raise RuntimeError(f"{name} failed on {ev.uid}")

        return body

    def handler(name: str, behaviour: str) -> Any:
        async def body(self, ctx, ev, inv):  # noqa: ANN001
            await gate(f"{name}:{getattr(ev.input_event, 'uid', 'x')}")
            if behaviour == "raise":
                raise LookupError(f"{name} failed")
            if behaviour == "stop":
                return StopEvent(result=f"{name} recovered {ev.step_name}")
            return ev.input_event.model_copy(update={"uid": ev.input_event.uid + 100})  # re-enter, next generation

        return body

    steps = [
        make_step("start", [Go], [A, None], start),
        make_step("bad_a", [A], [StopEvent], failing("bad_a"), num_workers=2),
    ]
    for name, for_steps, behaviour in LAYOUTS[layout]:
        kw: dict[str, Any] = {"max_recoveries": budget_of(layout, name, budget)}
        if for_steps is not None:
            kw["for_steps"] = for_steps
        steps.append(make_step(name, [StepFailedEvent], [A, Go, StopEvent], handler(name, behaviour),
                               decorator=catch_error, deco_kwargs=kw))
    cls = make_workflow("CatchLate", steps)

    def register_late() -> None:
        from vmc.engine import H

        async def bad_late(ctx, ev):  # type: ignore[no-untyped-def]  # noqa: ANN001
            if ev.phase != 2:
                return None
            h = H()
            inv = h.enter("bad_late", ev, ctx)
            try:
                await gate(f"bad_late:{ev.uid}")
                raise RuntimeError(f"bad_late failed on {ev.uid}")
            except BaseException as e:  # noqa: BLE001
                h.exit(inv, exc=e)
                raise

        bad_late.__annotations__ = {"ctx": Context, "ev": Go, "return": Union[StopEvent, None]}
        step(workflow=cls, num_workers=1)(bad_late)

    return cls(timeout=None, runtime=MonRuntime(BasicRuntime()), disable_validation=disable_validation), register_late


def run_late_variant(ex: Execution, layout: str, budget: int, dv: bool, first_run: bool) -> list[dict[str, Any]]:
    out_all = []
    with EngineExec(ex, RunConfig(max_actions=120)) as e:
        wf, register_late = build_late(layout, budget, dv)
        for phase in ((1, 2) if first_run else (2,)):
            if phase == 2:
                register_late()
            n_inv, n_pub = len(e.h.invocations), len(e.h.published)
            e.h.stream_done = False
            hd = wf.run(start_event=Go(uid=0, phase=phase), run_id=f"r{phase}")
            e.consume_stream(hd)
            e.cfg.stop_when = lambda hh, hd=hd: hd.is_done() and hh.stream_done
            e.stuck = e.capped = False
            e.drive()
            h = e.h
            out = task_outcome(hd._result_task)
            invs = h.invocations[n_inv:]
            entries = [(inv.step, (getattr(inv.ev.input_event, "uid", 99) % 100) if isinstance(inv.ev, StepFailedEvent) else (inv.ev.uid % 100),
                        getattr(inv.ev, "step_name", None), type(inv.ev).__name__)
                       for inv in invs if inv.step not in ("start",)]
            failed_events = [(ev.step_name, repr(ev.exception)) for ev in h.published[n_pub:] if isinstance(ev, WorkflowFailedEvent)]
            sfe = [inv.ev for inv in invs if isinstance(inv.ev, StepFailedEvent)]
            out_all.append({"outcome": out[0], "value": repr(out[1].result if isinstance(out[1], StopEvent) else out[1]),
                            "exc_type": type(out[1]).__name__ if out[0] == "exception" else None,
                            "entries": entries, "failed_events": failed_events, "stuck": e.stuck, "capped": e.capped,
                            "sfe": [(s.step_name, repr(s.exception), s.attempts) for s in sfe],
                            "max_concurrency": h.max_concurrency, "phase": phase})
    return out_all


def execute_late(ex: Execution, layout: str, budget: int, first_run: bool) -> tuple[Any, list[Any]]:
    v: list[Any] = []
    runs = run_late_variant(ex, layout, budget, False, first_run)
    for obs in runs:
        w = {"layout": layout, "disable_validation": False, "late_step": True, "phase": obs["phase"]}
        _check_against_reference(obs, layout, budget, 1, False, w, v, failing_step=("bad_a" if obs["phase"] == 1 else "bad_late"))
    ex2 = Execution(ex.taken)
    try:
        runs2 = run_late_variant(ex2, layout, budget, True, first_run)
        strip = lambda rs: [{k: o[k] for k in o if k != "max_concurrency"} for o in rs]  # noqa: E731
        same = strip(runs) == strip(runs2) and ex2.taken == ex.taken and ex2.arity == ex.arity
    except ReplayDivergence:
        runs2, same = [{"diverged": True}], False
    if not same:
        v.append(("routing_depends_on_disable_validation", {"layout": layout, "late_step": True, "ran_before_registration": first_run},
                  f"layout={layout} budget={budget}, step registered {'after a first run of' if first_run else 'before the first run of'} "
                  f"the instance: validation on -> {[_short(o) for o in runs]}; disable_validation=True -> {[_short(o) for o in runs2]}"))
    for obs2 in (runs2 if not runs2[0].get("diverged") else []):
        w = {"layout": layout, "disable_validation": True, "late_step": True, "phase": obs2["phase"]}
        _check_against_reference(obs2, layout, budget, 1, False, w, v, failing_step=("bad_a" if obs2["phase"] == 1 else "bad_late"))
    last = runs[-1]
    return {"outcome": last["outcome"], "value": last["value"], "entries": sum(len(o["entries"]) for o in runs),
            "_metrics": {"max_concurrency": last["max_concurrency"]}}, v


def _short(o: dict[str, Any]) -> str:
    if o.get("diverged"):
        return "schedule structure differs"
    hs = Counter(e[0] for e in o["entries"] if e[3] == "StepFailedEvent")
    return f"{o['outcome']}:{o['value']} handler_entries={dict(hs)} failed_events={o['failed_events']}"


def _check_against_reference(obs: dict[str, Any], layout: str, budget: int, lineages: int, with_retry: bool,
                             w: dict[str, Any], v: list[Any], failing_step: str | None = None) -> None:
    handler_names = {h[0] for h in LAYOUTS[layout]}
    behaviour = {h[0]: h[2] for h in LAYOUTS[layout]}
    # (1) a StepFailedEvent goes to the owning handler only; never for a handler step's failure
    for step, lineage, failed_step, kind in obs["entries"]:
        if kind != "StepFailedEvent":
            continue
        want = ref_owner(layout, failed_step)
        if step != want:
            v.append(("routed_to_wrong_handler", {**w, "failed_step_is_handler": failed_step in handler_names},
                      f"failure of {failed_step} went to {step}, owner is {want}"))
    # (2) each handler is entered at most max_recoveries times along one lineage
    per = Counter((step, lineage) for step, lineage, fs, kind in obs["entries"] if kind == "StepFailedEvent")
    for (hname, lineage), n in per.items():
        if n > budget_of(layout, hname, budget):
            v.append(("recovery_budget_exceeded", w, f"handler {hname} entered {n} times on lineage {lineage}, max_recoveries={budget_of(layout, hname, budget)}"))
    # (3) outcome
    failing_step = failing_step or ("bad_a" if lineages else "bad_b")
    owner = ref_owner(layout, failing_step)
    if (obs["stuck"] or obs["capped"]) and obs["outcome"] == "pending":
        v.append(("run_never_finishes", w, f"stuck={obs['stuck']} capped={obs['capped']}: {_short(obs)}"))
        return
    if owner is None or behaviour.get(owner) in ("reenter", "other"):
        # no owner, or the lineage keeps re-entering until the budget is exhausted: the run fails with the
        # ORIGINAL exception of the failing step and a WorkflowFailedEvent for it
        if obs["outcome"] != "exception" or obs["exc_type"] != "RuntimeError" or f"{failing_step} failed" not in obs["value"]:
            v.append(("must_fail_with_original_exception", {**w, "owner": owner is not None},
                      f"expected the run to fail with {failing_step}'s RuntimeError, got {_short(obs)}"))
        elif not any(s == failing_step for s, _ in obs["failed_events"]):
            v.append(("workflow_failed_event_missing", w, f"no WorkflowFailedEvent for {failing_step}: {obs['failed_events']}"))
        if owner is not None and obs["outcome"] == "exception":
            # the budget must also be USED: the lineage that exhausted it entered the handler exactly budget times
            mx = max([n for (hname, _), n in per.items() if hname == owner] or [0])
            if mx != budget_of(layout, owner, budget):
                v.append(("recovery_budget_not_used", w, f"run failed after {mx} recoveries of {owner}, max_recoveries={budget_of(layout, owner, budget)}"))
    elif behaviour.get(owner) == "stop":
        if obs["outcome"] != "result" or "recovered" not in obs["value"]:
            v.append(("handler_result_ignored", w, f"expected the handler's StopEvent result, got {_short(obs)}"))
    elif behaviour.get(owner) == "raise":
        # a handler step's own failure is never routed (not even to the wildcard): the run fails with it
        if obs["outcome"] != "exception" or obs["exc_type"] != "LookupError":
            v.append(("handler_failure_routed_or_swallowed", w, f"expected the run to fail with the handler's LookupError, got {_short(obs)}"))
    # (4) StepFailedEvent carries the original exception and attempt count
    want_attempts = 2 if with_retry else 1
    for fs, exc, attempts in obs["sfe"]:
        if fs == "bad_a" and attempts != want_attempts:
            v.append(("step_failed_event_attempts", w, f"StepFailedEvent.attempts={attempts}, expected {want_attempts}"))


def execute_recovered_then_wait_times_out(ex: Execution, scoped: bool, budget: int, with_retry: bool) -> tuple[Any, list[Any]]:
    """a lineage that has used (part of) its recovery budget goes on to a step that waits with a timeout; nobody answers, the
    TimeoutError makes that step fail for good: the failure is routed with the lineage's recovery count as it stands - a handler with
    max_recoveries = budget is entered ``budget`` times in all along this lineage, then the run fails"""
    from vmc.events import Resp, Work

    with EngineExec(ex, RunConfig(allow_time=True)) as e:
        entered: list[str] = []

        async def first(self, ctx, ev, inv):  # noqa: ANN001
            await gate(f"first#{getattr(ev, 'uid', 0)}")
            if getattr(ev, "uid", 0) < budget:
                raise ValueError(f"first fails on visit {getattr(ev, 'uid', 0)}")
            return Work(uid=7)

        async def gather(self, ctx, ev, inv):  # noqa: ANN001
            r = await ctx.wait_for_event(Resp, waiter_id="g", timeout=5.0)
            return StopEvent(result=f"answered:{r.uid}")

        async def on_err(self, ctx, ev, inv):  # noqa: ANN001
            entered.append(ev.step_name)
            n = getattr(ev.input_event, "uid", 0)
            return A(uid=n + 1)  # the lineage re-enters ``first``

        kw: dict[str, Any] = {"max_recoveries": budget}
        if scoped:
            kw["for_steps"] = ["first", "gather"]
        pol = retry_policy(wait=wait_fixed(0), stop=stop_after_attempt(2)) if with_retry else None

        async def start(self, ctx, ev, inv):  # noqa: ANN001
            return A(uid=0)

        cls = make_workflow("RecoveredThenWait", [
            make_step("start", [StartEvent], [A], start),
            make_step("first", [A], [Work], first, retry_policy=pol),
            make_step("gather", [Work], [StopEvent], gather, retry_policy=pol),
            make_step("on_err", [StepFailedEvent], [A], on_err, decorator=catch_error, deco_kwargs=kw),
        ])
        wf = cls(timeout=None, runtime=MonRuntime(BasicRuntime()))
        hd = wf.run(run_id="r1")
        e.consume_stream(hd)
        e.cfg.stop_when = lambda hh: hd.is_done() and hh.stream_done
        e.drive()
        out = task_outcome(hd._result_task)
        v: list[Any] = []
        w = {"layout": "scoped_owner" if scoped else "wildcard", "failed_step_waited_with_a_timeout": True, "disable_validation": False,
             "failed_step_is_handler": False}
        desc = f"budget={budget} retry={with_retry} scoped={scoped} schedule {ex.labels}"
        if len(entered) != budget:
            v.append(("handler_entered_beyond_budget" if len(entered) > budget else "routed_to_wrong_handler", w,
                      f"{desc}: handler entered for {entered}, the lineage's budget is {budget}"))
        if out[0] != "exception" or "Timed out" not in str(out[1]):
            v.append(("run_outcome_after_exhausted_budget", w, f"{desc}: run ended {out}, expected the waiting step's TimeoutError"))
        return {"entered": entered, "_metrics": {"max_concurrency": 1}}, v


def programs(tier: str) -> list[Program]:
    q = tier == "quick"
    ps = []
    for scoped in (False, True):
        for budget in ((1,) if q else (1, 2)):
            for with_retry in (False, True):
                ps.append(Program(f"recovered_then_wait_times_out(scoped={scoped};budget={budget};retry={with_retry})",
                                  {"layout": "recovered_then_wait", "budget": budget, "scoped": scoped, "retry": with_retry},
                                  (lambda ex, scoped=scoped, budget=budget, with_retry=with_retry:
                                   execute_recovered_then_wait_times_out(ex, scoped, budget, with_retry)), max_dev=3))
    for layout in LAYOUTS:
        for budget in ((1, 2) if q else (1, 2, 3)):
            for lineages in ((1, 2) if layout in ("wildcard", "scoped_owner", "scoped_other+wildcard") else (1,)):
                for with_retry in ((False,) if (q and layout not in ("wildcard",)) else (False, True)):
                    if layout in ("wildcard_stop", "wildcard_raises", "scoped_raises+wildcard", "none", "scoped_other", "scoped_to_nothing") and budget > 1:
                        continue
                    name = f"catch({layout};budget={budget};lineages={lineages};retry={with_retry})"
                    ps.append(Program(name, {"layout": layout, "budget": budget, "lineages": lineages, "retry": with_retry},
                                      (lambda ex, layout=layout, budget=budget, lineages=lineages, with_retry=with_retry:
                                       execute(ex, layout, budget, lineages, with_retry)),
                                      max_dev=(None if lineages == 1 else (3 if q else 5)),
                                      min_concurrency=lineages))
    # one snapshot + resume at every quiescent point: the recovery budget of a lineage survives serialization
    for layout in ("wildcard", "scoped_owner", "ping_pong_scoped"):
        for budget in ((1, 2) if q else (1, 2, 3)):
            name = f"catch_resume({layout};budget={budget})"
            ps.append(Program(name, {"layout": layout, "budget": budget, "lineages": 1, "resume": True},
                              (lambda ex, layout=layout, budget=budget: execute(ex, layout, budget, 1, False, True)),
                              max_dev=(3 if q else 5)))
    # failure of the other step (bad_b) under layouts that own it / do not own it
    for layout in ("scoped_other", "scoped_owner", "two_scoped", "scoped_other+wildcard", "two_scoped_small_large", "scoped_small+wildcard_large"):
        name = f"catch_b({layout};budget=1)"
        ps.append(Program(name, {"layout": layout, "budget": 1, "lineages": 0},
                          (lambda ex, layout=layout: execute(ex, layout, 1, 0, False))))
    # one instance runs, a failing step is registered on the class afterwards, the same instance runs again
    for layout in ("none", "wildcard", "wildcard_stop", "wildcard_raises", "scoped_owner", "scoped_owner+wildcard_stop"):
        for budget in ((1,) if layout in ("none", "wildcard_stop", "wildcard_raises") else (1, 2)):
            for first_run in (True, False):
                name = f"late_step({layout};budget={budget};ran_before={first_run})"
                ps.append(Program(name, {"layout": layout, "budget": budget, "first_run": first_run},
                                  (lambda ex, layout=layout, budget=budget, first_run=first_run:
                                   execute_late(ex, layout, budget, first_run))))
    return ps


RULE = ("handler layouts {none, wildcard, scoped(owner), scoped(other), scoped(other)+wildcard, two scoped, handlers with different budgets, handler "
        "that stops / raises} x max_recoveries 1..3 x lineages that re-enter the failing step x two concurrent "
        "lineages x failing step with/without retries x disable_validation off/on x {one run; an instance that runs, gets "
        "a failing step registered on its class, and runs again; the step registered before the first run; one context "
        "snapshot + resume on a fresh instance at every quiescent point} x all "
        "schedules; routing is "
        "compared with a reference owner map, handler entries per lineage with the budget, the outcome with the "
        "original exception + WorkflowFailedEvent, and the two validation settings with each other on the same "
        "schedule; non-trivial = at least one schedule deviation")
from vmc.tables import _ROUND6 as _R6  # noqa: E402

RULE += _R6["C08"]
from vmc.tables import _ROUND8 as _R8  # noqa: E402

RULE += _R8["C08"]



def run(tier: str, seed: int) -> Any:
    return run_programs(PID, programs(tier), RULE, seed, assumptions=ENGINE_ASSUMPTIONS)


def replay(rec: dict[str, Any]) -> tuple[bool, str]:
    return replay_program(programs("thorough"), rec)

"""C01 - a step never runs more invocations at once than its worker limit; slots are distinct."""
from __future__ import annotations

from typing import Any

from vmc.checks.common import replay_program, run_programs
from vmc.progs import ENGINE_ASSUMPTIONS, Oracle, catalog, to_programs
from workflows.events import StepState, StepStateChanged

PID = "C01"


def kind(name: str) -> str:
    return name.rstrip("0123456789")


def on_quiescent(h: Any) -> None:
    for r in h.runners[-1:]:
        for name, ws in r.state.workers.items():
            nw = ws.config.num_workers
            ids = [ip.worker_id for ip in ws.in_progress]
            if len(ids) > nw:
                h.violate("in_progress_exceeds_limit", {"step_kind": kind(name)},
                          f"step {name}: in_progress={ids} num_workers={nw}")
            if len(set(ids)) != len(ids) or any(not (0 <= i < nw) for i in ids):
                h.violate("slot_not_distinct_or_out_of_range", {"step_kind": kind(name)},
                          f"step {name}: worker ids {ids} num_workers={nw}")
    for name, lst in h.live.items():
        nw = h.limits.get(name)
        if nw is not None and len(lst) > nw:
            h.violate("live_bodies_exceed_limit", {"step_kind": kind(name)},
                      f"step {name}: {len(lst)} live bodies, num_workers={nw}")


def final(h: Any, e: Any, state: dict[str, Any]) -> None:
    for name, mx in h.max_live.items():  # checked at every body entry
        nw = h.limits.get(name)
        if nw is not None and mx > nw:
            h.violate("live_bodies_exceed_limit", {"step_kind": kind(name)},
                      f"step {name}: up to {mx} live bodies, num_workers={nw}")
    running: set[tuple[str, str]] = set()
    for i, ev in enumerate(h.published):
        if i in h.restart_marks:
            running.clear()
        if isinstance(ev, StepStateChanged):
            key = (ev.name, ev.worker_id)
            if ev.step_state == StepState.RUNNING:
                nw = h.limits.get(ev.name)
                if key in running:
                    h.violate("slot_reused_while_running", {"step_kind": kind(ev.name)},
                              f"second RUNNING for {key} before NOT_RUNNING")
                if nw is not None and not (ev.worker_id.isdigit() and 0 <= int(ev.worker_id) < nw):
                    h.violate("slot_not_distinct_or_out_of_range", {"step_kind": kind(ev.name)},
                              f"RUNNING on worker {ev.worker_id}, num_workers={nw}")
                running.add(key)
            elif ev.step_state == StepState.NOT_RUNNING:
                running.discard(key)


ORACLE = Oracle(on_quiescent=on_quiescent, final=final)

RULE = ("every gate-release / external-send / timer / snapshot+resume order of generated fan-out, retry, "
        "collect, wait, chain workflows through the real control loop on a virtual event loop; an execution is "
        "non-trivial when it deviates from the default (oldest-first) schedule at least once; plus runs that are hard-stopped (abort) "
        "and continued from their context in the same process, where whatever the stopped run left executing still counts; distinct = "
        "distinct choice lists")


def extra_specs(tier: str) -> list[Any]:
    """the run is hard-stopped (abort) and its context continued IN THE SAME PROCESS: what the stopped run left running counts"""
    from vmc.progs import Spec, resp_scripts, wf_fan, wf_wait

    q = tier == "quick"
    sp = [Spec("fan_abort_continue(k=3,w=2)", {"k": 3, "w": 2}, lambda: wf_fan(3, 2), resume=True, resume_via="abort_same_process",
               max_dev=(3 if q else 5), tags=("abort_same_process",)),
          Spec("fan_abort_continue(k=2,w=1)", {"k": 2, "w": 1}, lambda: wf_fan(2, 1), resume=True, resume_via="abort_same_process",
               max_dev=(3 if q else None), tags=("abort_same_process",)),
          Spec("wait_abort_continue(w=2)", {"w": 2}, lambda: wf_wait(2, n=2), scripts=resp_scripts(2), resume=True,
               resume_via="abort_same_process", max_dev=(3 if q else 5), tags=("abort_same_process",))]
    return sp


def programs(tier: str) -> list[Any]:
    return to_programs(catalog(tier) + extra_specs(tier), ORACLE)


def run(tier: str, seed: int) -> Any:
    return run_programs(PID, programs(tier), RULE, seed, assumptions=ENGINE_ASSUMPTIONS)


def replay(rec: dict[str, Any]) -> tuple[bool, str]:
    return replay_program(programs("thorough"), rec)

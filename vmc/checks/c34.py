"""C34 - release tooling converts and classifies versions consistently.

Exhaustive enumeration of release triples over a component grid x pre-release {none, a/b/rc x N}: PEP 440 -> semver
-> PEP 440 and semver -> PEP 440 -> semver round trips (several input spellings), and detect_change_type for ALL
ordered pairs (both arguments in PEP 440 and in semver spelling), compared with packaging.Version arithmetic.
"""
from __future__ import annotations

import itertools
from typing import Any

from vmc import bootstrap

bootstrap.setup()

from packaging.version import Version  # noqa: E402

from vmc.checks.grid import run_grid  # noqa: E402
from dev_cli.changesets import pep440_to_semver, semver_to_pep440  # noqa: E402
from dev_cli.versioning import detect_change_type  # noqa: E402

PID = "C34"
PRES = [None] + [(lab, n) for lab in ("a", "b", "rc") for n in (0, 1, 10)]


def comps(tier: str) -> list[int]:
    return [0, 1, 2, 10] if tier == "quick" else [0, 1, 2, 9, 10, 11, 99, 100]


def pep(rel: tuple[int, int, int], pre: Any) -> str:
    base = ".".join(map(str, rel))
    return base if pre is None else f"{base}{pre[0]}{pre[1]}"


def sem(rel: tuple[int, int, int], pre: Any) -> str:
    base = ".".join(map(str, rel))
    return base if pre is None else f"{base}-{pre[0]}.{pre[1]}"


def spellings(rel: tuple[int, int, int], pre: Any) -> list[str]:
    """PEP 440 spellings that normalize to the same version"""
    base = ".".join(map(str, rel))
    if pre is None:
        return [base, "v" + base, base + " "]
    lab, n = pre
    long = {"a": "alpha", "b": "beta", "rc": "c"}[lab]
    return [f"{base}{lab}{n}", f"{base}{lab.upper()}{n}", f"{base}.{lab}{n}", f"{base}-{lab}.{n}", f"{base}{long}{n}", f"{base}_{lab}_{n}", f"v{base}{lab}{n}"]


def expected_change(cur: tuple[tuple[int, int, int], Any], prev: tuple[tuple[int, int, int], Any]) -> str | None:
    """None = the statement does not define the answer (only the pre-release part grew)"""
    vc, vp = Version(pep(*cur)), Version(pep(*prev))
    if not vc > vp:
        return "none"
    for i, name in enumerate(("major", "minor", "patch")):
        if cur[0][i] != prev[0][i]:
            return name  # cur > prev, so the first differing release component grew
    return None


def work(case: Any) -> Any:
    kind, tier, chunk = case
    v: list[Any] = []
    n = 0
    nontriv = 0
    cs = comps(tier)
    if kind == "roundtrip":
        for rel in itertools.product(cs, repeat=3):
            for pre in PRES:
                want = str(Version(pep(rel, pre)))
                for s in spellings(rel, pre):
                    n += 1
                    nontriv += pre is not None
                    try:
                        got = semver_to_pep440(pep440_to_semver(s))
                    except Exception as e:  # noqa: BLE001
                        v.append(("pep440_round_trip_raises", {"pre": pre is not None}, f"{s!r}: {type(e).__name__}: {e}"))
                        continue
                    if got != want:
                        v.append(("pep440_round_trip_changes_version", {"pre": pre is not None, "canonical_spelling": s == pep(rel, pre)},
                                  f"semver_to_pep440(pep440_to_semver({s!r})) = {got!r}, normalized original {want!r}"))
                s2 = sem(rel, pre)
                n += 1
                try:
                    got2 = pep440_to_semver(semver_to_pep440(s2))
                except Exception as e:  # noqa: BLE001
                    v.append(("semver_round_trip_raises", {"pre": pre is not None}, f"{s2!r}: {type(e).__name__}: {e}"))
                    continue
                if got2 != s2:
                    v.append(("semver_round_trip_changes_version", {"pre": pre is not None}, f"pep440_to_semver(semver_to_pep440({s2!r})) = {got2!r}"))
                # the two conversions agree with each other
                if pep440_to_semver(pep(rel, pre)) != s2 or semver_to_pep440(s2) != pep(rel, pre):
                    v.append(("conversions_disagree", {"pre": pre is not None}, f"{pep(rel, pre)!r} <-> {s2!r}: {pep440_to_semver(pep(rel, pre))!r}, {semver_to_pep440(s2)!r}"))
    elif kind == "roundtrip_len":
        # PEP 440 release tuples need not have three components: 1, 2, 4 and 5 components, with and without a pre-release
        small = [0, 1, 10] if tier == "quick" else [0, 1, 2, 10, 99]
        for ln in (1, 2, 4, 5):
            for rel in itertools.product(small if ln < 5 else small[:3], repeat=ln):
                for pre in PRES:
                    s = pep(rel, pre)  # type: ignore[arg-type]
                    want = str(Version(s))
                    for sp in (s, "v" + s) + ((f"{'.'.join(map(str, rel))}-{pre[0]}.{pre[1]}",) if pre is not None else ()):
                        n += 1
                        nontriv += pre is not None
                        try:
                            got = semver_to_pep440(pep440_to_semver(sp))
                        except Exception as e:  # noqa: BLE001
                            v.append(("pep440_round_trip_raises", {"pre": pre is not None, "release_components": ln}, f"{sp!r}: {type(e).__name__}: {e}"))
                            continue
                        if str(Version(got)) != want:
                            v.append(("pep440_round_trip_changes_version", {"pre": pre is not None, "release_components": ln},
                                      f"semver_to_pep440(pep440_to_semver({sp!r})) = {got!r}, normalized original {want!r}"))
    elif kind == "classify_len":
        # versions written with fewer than three release components (1, 1.0): a missing component is an implicit 0
        small = [0, 1, 2]
        rels: list[tuple[int, ...]] = [r for ln in (1, 2, 3) for r in itertools.product(small, repeat=ln)]
        pres = [None, ("a", 0), ("rc", 1)]
        for cur_rel in rels:
            for cur_pre in pres:
                for prev_rel in rels:
                    for prev_pre in pres:
                        if len(cur_rel) == 3 and len(prev_rel) == 3:
                            continue  # (the three-component pairs are the classify kinds' subject)
                        n += 1
                        a, b = pep(cur_rel, cur_pre), pep(prev_rel, prev_pre)  # type: ignore[arg-type]
                        pc, pp = (tuple(cur_rel) + (0, 0, 0))[:3], (tuple(prev_rel) + (0, 0, 0))[:3]
                        if not Version(a) > Version(b):
                            want: Any = "none"
                        else:
                            want = next((name for i, name in enumerate(("major", "minor", "patch")) if pc[i] != pp[i]), None)
                        try:
                            got = detect_change_type(a, b)
                        except Exception as e:  # noqa: BLE001
                            v.append(("change_classification_raises", {"release_components": [len(cur_rel), len(prev_rel)]}, f"detect_change_type({a!r}, {b!r}): {type(e).__name__}: {e}"))
                            continue
                        if want is None:
                            continue
                        nontriv += want != "none"
                        if got != want:
                            v.append(("change_classification_wrong", {"expected": want, "got": got, "equal_versions": Version(a) == Version(b), "mixed_spelling": False,
                                                                      "release_components": "fewer_than_three"},
                                      f"detect_change_type({a!r}, {b!r}) = {got!r}, expected {want!r}"))
    else:
        all_spell = kind == "classify4"
        rels = list(itertools.product(cs if not all_spell else [c for c in cs if c in (0, 1, 2, 10)], repeat=3))
        mine = [r for i, r in enumerate(rels) if i % 16 == chunk]
        for cur_rel in mine:
            for cur_pre in PRES:
                cur = (cur_rel, cur_pre)
                for prev_rel in rels:
                    for prev_pre in PRES:
                        prev = (prev_rel, prev_pre)
                        want = expected_change(cur, prev)
                        forms = ([(pep, pep), (sem, sem), (pep, sem), (sem, pep)] if all_spell else [(pep, pep)])
                        for fc, fp in forms:
                            n += 1
                            a, b = fc(*cur), fp(*prev)
                            got = detect_change_type(a, b)
                            if want is None:
                                continue
                            nontriv += want != "none"
                            if got != want:
                                equalv = Version(pep(*cur)) == Version(pep(*prev))
                                v.append(("change_classification_wrong", {"expected": want, "got": got, "equal_versions": equalv,
                                                                          "mixed_spelling": fc is not fp},
                                          f"detect_change_type({a!r}, {b!r}) = {got!r}, expected {want!r}"))
    seen = set()
    out = []
    for c, w, d in v:
        key = (c, repr(sorted(w.items())))
        if key not in seen:
            seen.add(key)
            out.append((c, w, d, None))
    return n, nontriv, out, {"kind": kind, "chunk": chunk, "calls": n}


RULE = ("release triples over the component grid {0,1,2,10} (quick) / {0,1,2,9,10,11,99,100} (thorough) x pre-release {none, a/b/rc x "
        "{0,1,10}}: PEP 440 -> semver -> PEP 440 over 3-7 input spellings per version (case, separators, alpha/beta/c aliases, leading v) "
        "and semver -> PEP 440 -> semver; the PEP 440 round trip also for release tuples of 1, 2, 4 and 5 components; detect_change_type on ALL ordered pairs (both arguments in PEP 440 spelling; on the 4-value "
        "component grid also semver/semver and both mixed spellings), compared with packaging.Version ordering and 'first release "
        "component that differs'; pairs where only the pre-release part grew are evaluated but not judged; non-trivial = pre-release "
        "versions / pairs classified other than none")
from vmc.tables import _ROUND7 as _R7  # noqa: E402

RULE += _R7["C34"]



def run(tier: str, seed: int) -> Any:
    cases = [("roundtrip", tier, 0), ("roundtrip_len", tier, 0), ("classify_len", tier, 0)] + [("classify4", tier, c) for c in range(16)]
    if tier != "quick":
        cases += [("classify", tier, c) for c in range(16)]
    return run_grid(PID, RULE, cases, work, seed=seed, chunksize=1, assumptions=[
        "three-component releases (semver has exactly three); epochs, post/dev releases and local versions are outside the statement",
        "when the new version is greater only in its pre-release part no release component grew: the statement defines no answer there"],
        extra={"versions": len(comps(tier)) ** 3 * len(PRES)})


def replay(rec: dict[str, Any]) -> tuple[bool, str]:
    _, _, v, _ = work(tuple(rec["case"]))
    return (not v), f"case={rec['case']}\n" + "\n".join(f"VIOLATED {c} {w}: {d}" for c, w, d, _ in v)

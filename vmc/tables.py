"""Per-property manifest text (consumed by vmc.manifest_gen)."""
ENGINE_TECH = "stateless exhaustive schedule exploration of the real control loop on a virtual asyncio loop (deviation-bounded DFS over gate/env/timer choices)"

CHECKS = {
    "C01": ("6/C01", "Every gate-release, external-send, timer and snapshot+resume order of generated fan-out / retry / collect / wait workflows (k<=4 events, num_workers 1..4; incl. one answer that resolves every waiter of a step in a single tick; plus runs that are hard-stopped (abort) and continued from their context in the same process, where whatever the stopped run left executing still counts) is executed on the real control loop; live step bodies, runner in_progress sets and stream RUNNING/NOT_RUNNING slots are checked in every quiescent state. A coverage statement over all schedules of these programs, not a sample.",
            "Bounded small-scope claim: programs and bounds listed in the evidence file; sync (thread-pool) steps not covered.", ENGINE_TECH),
}

CHECKS.update({
    "C03": ("6/C03", "All schedules (gate releases, external sends, timer firings) of the engine catalog plus idle-specific programs; at the instant an idle announcement is written the runner's queues, in-progress sets, retry heap, tick buffer and mailbox are inspected; work conservation checked in every quiescent live state; every retry wake-up must be delivered at the virtual instant it was scheduled for (programs include a workflow timeout plus two staggered retry delays, and busy-tick programs in which one tick keeps the loop busy until after the next scheduled wake-up); a live run may never end up quiescent with an undelivered wake-up; in every quiescent live state each in-progress slot has a live step body behind it and the loop is armed for the earliest scheduled wake-up.",
            "Three genuine defects are recorded in known_findings.json (idle announced with mail in the mailbox / during a retry delay); any other violation is reported.", ENGINE_TECH),
    "C04": ("6/C04", "21 outcome causes (stops, races, raises, handler failure, non-event return, failing user retry code, cancel and timeout at every quiescent point), stream writers racing every kind of end, continued / resumed runs, a run id reused for a later run, cancel_run() of a run queued behind num_concurrent_runs, waits with timeouts that are answered (stale timer fires later) or time out x all schedules; each maximal execution is checked for exactly one outcome, one matching terminal event, nothing after it, a terminating stream consumer, and a stream that equals what the run published.",
            "Bounded small-scope claim; deviation bound 4 on the largest race program in the quick tier.", ENGINE_TECH),
    "C11": ("6/C11", "At every quiescent point of every schedule of the engine catalog (incl. resumed runs, runs continued from the context of a run that ended with work left over, and a run one of whose worker tasks ends with CancelledError) the live runner state is compared with rebuild_state_from_ticks(init_state, recorded ticks) and with ctx.to_dict()/running_steps.",
            "Timestamps masked, as the property allows.", ENGINE_TECH),
    "C35": ("6/C35", "All schedules of the engine catalog plus a request event that is also the input of a retried step; per processed tick PREPARING publications are compared with the queue growth, open RUNNING slots are compared with the runner's in-progress set in every quiescent live state, per-slot (RUNNING NOT_RUNNING)* language, InputRequiredEvent published once.",
            "Telemetry is tied to the runner's queue / in_progress sets (the anchors named by the property).", ENGINE_TECH),
})

GRID_TECH = "exhaustive enumeration of a finite configuration grid, each case executed on the real engine under the virtual clock and compared with an independent reference"
CHECKS.update({
    "C05": ("6/C05", "Complete grid of retry policies (attempt/delay budgets as numbers or timedeltas - sub-second and longer than a day -, an attempt that first waits for an external event, flat and nested |,& compositions - thorough: all pairs of 12 atoms -, retryable vs not, legacy constructors, seedless custom policy) x step durations x delays x clock configurations (wall/monotonic bases differ/equal, wall-clock adapter) x failure-event kind; executions, retry_info and failure-event fields are compared with a reference computed from really elapsed virtual time.",
            "wait_fixed delays only (delay indexing is C06). The clock defect found by this check was repaired (fix: c88b71f).", GRID_TECH),
    "C06": ("6/C06", "Every listed wait-strategy instance (incl. timedelta-configured ones, exponential bases that overflow a double, and a floor configured above the cap) x 1..4(6) retries, also with each retry coming due behind a busy worker and with the loop reaching each failure late; the gap between the k-th failure and the k-th retry of a real failing step on the virtual clock is compared with the tenacity-documented delay.",
            "One genuine defect (1-based count into 0-based strategies) recorded as known findings per strategy shape; other shapes/clauses still alarm.", GRID_TECH),
})

CHECKS.update({
    "C02": ("6/C02", "Multi-accept graphs (overlapping exact types, subclass event, targeted/broadcast ctx.send_event, returned events, external sends, a waiting step that also accepts the awaited type, field-for-field equal events queued behind a saturated step, a step that fails and is retried while a sibling accepts the same type, an InputRequiredEvent subclass returned by one step and accepted / awaited by another) x all schedules within a deviation bound; every event a step returns must be routed; per add-event tick the runner-state delta is compared with a dict router; body entries and UnhandledEvent reports are counted after a fan-in of every delivery.",
            "Deviation bound 2-3 in the quick tier (stated per program in the evidence). Fix 068b360 repaired the targeted-waiter defect this check found.", ENGINE_TECH),
})

CHECKS.update({
    "C09": ("6/C09", "Expected lists [A,B],[A,A,B],[A,B,C],[A,A] x arrival multisets (surplus events, value-equal events tracked by identity, two rounds, a slow invocation whose buffer snapshot is overtaken by a completed set and a longer next round) x collector num_workers 1..4 x every completion order of the collecting invocations (+ a collecting step that fails once and is retried, + one whose every first attempt fails before it collects so that retries meet stale snapshots, + one that suspends in wait_for_event while it holds a full set); the multiset of returned lists must equal the list-buffer reference on some serial order of the arrivals and no event may be in two lists.",
            "Linearizability against the sequential semantics, which the num_workers=1 programs bind to the implementation. One genuine defect (double completion from one snapshot) recorded.", ENGINE_TECH),
    "C10": ("6/C10", "Waits with/without requirements, timeouts, explicit/implicit ids (also two waits whose default ids differ only in requirement values), two sequential waits, a step that does other work before it waits, concurrent inputs x response scripts (matching, duplicate, non-matching, subclass, an unrelated class with the same qualified name, early, late; a tick that keeps the loop busy past a timeout's due time) x serialize+resume at every quiescent point x all arrival / timer / completion orders within the deviation bound.",
            "Two genuine root causes (match while a replay is in flight; rehydration of requirement waiters after resume) are recorded with root-cause context in the witness; violations outside those contexts or clauses alarm.", ENGINE_TECH),
})

CHECKS.update({
    "C12": ("6/C12", "Deterministic workflows (chain+store, fan-in, retries with zero/positive delay incl. exhaustion, catch_error budgets, waits, an order-sensitive single-worker queue) x every schedule x one (thorough and one quick program: two) ctx.to_dict()->JSON->from_dict resume(s) at every quiescent point - the context of the running run followed by a hard stop, or handler.cancel_run() first and the context of the cancelled run; optionally the running context is read (to_dict / running_steps) once or twice before the pause -; result, store, retry numbers of re-executed work, total executions and round-trip stability compared with the uninterrupted runs (first shown to agree on all schedules).",
            "Fix 8340a80 repaired the lost retry count / recovery budget of in-progress work; a delayed retry lost by to_dict() and the waiter rehydration defect remain recorded findings.", ENGINE_TECH),
})

CHECKS.update({
    "C08": ("6/C08", "Handler layouts {none, wildcard, scoped(owner/other), scoped+wildcard, two scoped, stopping / raising handlers} x max_recoveries 1..3 x re-entering lineages x two concurrent lineages x retries x disable_validation off/on x {single run; instance runs, a failing step is registered on its class, instance runs again} x all schedules; routing vs a reference owner map, entries per lineage vs budget, outcome vs original exception + WorkflowFailedEvent, and both validation settings compared on the same schedule.",
            "Fix cd45fa6 repaired the empty routing tables under disable_validation=True found by this check.", ENGINE_TECH),
})

CHECKS.update({
    "C22": ("6/C22", "Dependency graphs over <=3 resources (sync/async factories with an inner suspension point, cached/non-cached, shared sub-dependency, 1-,2-,3-cycles) injected into two overlapping steps, two invocations of a num_workers=2 step, staggered second users, non-LIFO completion of two factories, one factory declared both cached and non-cached, values that are falsy when created, and resolutions after one that raised (transient factory fault) x all interleavings; factory call counts, identities and cycle errors vs the documented rules.",
            "One genuine defect (per-manager resolution bookkeeping: false cycle error under concurrency) recorded; caching clauses are exercised on the staggered schedules where resolutions do not overlap.", ENGINE_TECH),
    "C30": ("6/C30", "2-4 runs of one instance with num_concurrent_runs 1..3 / unlimited, started together or staggered, a second instance, hard cancel of a queued run, a successor instance created after instances with another limit were garbage-collected, one more run started from the serialized context of an executing run, more staggered runs than twice the limit x all start/finish interleavings; runs executing steps counted in every quiescent state.",
            "Bounded small-scope claim.", ENGINE_TECH),
    "C31": ("6/C31", "Timeout (also simultaneous with a step completion) or cancel_run arriving at every quiescent point of chain, fan-out, delayed-retry and wait+retry workflows x all completion orders, one or two cancel/resume cycles, and *_hang programs in which the running steps block for good from an explorer-chosen point on (a fresh or a cancelled-and-resumed run with a timeout must then time out), timeout_busy programs (one tick keeps the loop busy past the next wake-up) and a spin family (steps that never suspend; a cancel request in the mailbox may not be passed over until the run has finished); terminal events, active_steps, no step after cancel, serializable context and completing resumed run.",
            "One genuine finding (cancel during a retry delay loses the retry) recorded.", ENGINE_TECH),
})

SCHED_TECH = "stateless exhaustive interleaving exploration of the real async code on a virtual asyncio loop (explorer-chosen starts, releases, cancellations, timer firings, done-set orders)"
CHECKS.update({
    "C25": ("6/C25", "2-4 tasks on overlapping keys (single, back-to-back and nested sections) started at explorer-chosen points, up to 2 cancellations at any quiescent point (also in the same loop iteration as a release, both orders) x all interleavings of the real KeyedLock; occupancy per key, no waiting without a holder, every non-cancelled task enters, no lock state left.",
            "asyncio delivers cancellation only at suspension points; uncontended Lock.acquire does not suspend.", SCHED_TECH),
    "C29": ("6/C29", "merge_generators over 1-3 sources (<=3 items, optional failing source) x all release orders, simultaneous completions and all iteration orders of the done set; debounced_sorted_prefix over 2-5 items released at explorer-chosen points relative to the debounce / max-window timers incl. the same loop iteration as the window closing, records with equal keys that cannot be compared themselves, and two or three streams in one process (one after the other / overlapping); the burst is judged against a window computed from the virtual clock, not from the implementation's own bookkeeping.",
            "Fix 28a93c4 repaired the late-item-overtakes-burst defect this check found.", SCHED_TECH),
})

NOT_APPLICABLE = {}

ENUM_TECH = "exhaustive enumeration of a bounded input / operation-sequence space, every case executed on the real implementation and compared with an independent reference model"
CHECKS.update({
    "C07": ("6/C07", "Every retry-condition term of depth <=2 over 15 atoms (|, &, retry_any/retry_all with 0-3 arguments, plain callables on either side) on 8 exceptions with chained causes; every stop-condition term on a 7x9x4 (attempts, elapsed, upcoming_sleep) grid; every built-in wait strategy on parameter grids (incl. min above max, and combined strategies derived from one shared base by further + / sum()) x 13 attempt counts (up to 10^5, past double overflow) x 5 seeds incl. None; compared with truth tables, sums of parts and the documented bounds; seeded calls repeated with a perturbed global RNG and on a fresh instance.",
            "Sane parameters only (min<=max, non-negative). Fix e15796f repaired the OverflowError this check found.", ENUM_TECH),
})

CHECKS.update({
    "C18": ("6/C18", "Event shapes (plain, typed, nested model, Start/Stop/InputRequired/HumanResponse events and subclasses, failure events with 15 exception kinds incl. KeyError / ValueError / LookupError subclasses; typed fields left to default factories) x a JSON value alphabet (None, bools, ints > 2^53, floats, unicode/escape strings, nested containers depth <=2(4), marker-like keys) in dynamic fields, results and Any-typed fields x 10 channels (the bare field dict a client sends for a start event read with the start class - incl. start events whose own fields are called 'type' / 'qualified_name'; JsonSerializer plain/nested, EventEnvelopeWithMetadata by qualified name / by registry, EventEnvelope.parse, persisted ticks add_event / publish_event / step_result payloads / step input) through real JSON text; class, typed fields, dynamic fields, result, exception type+message compared.",
            "Fixes f430db9 (StopEvent dropped dynamic fields) and ea5f1bd (KeyError message re-quoted) repaired the defects this check found. AddWaiter.requirements (documented as not serializable) are outside the property.", ENUM_TECH),
})

CHECKS.update({
    "C19": ("6/C19", "Every sequence (length <=3; length 4 over a structure-changing sub-alphabet in the thorough tier) of mutating operations {set(path,value) incl. list indices, missing intermediates, children of scalars, undeclared fields; set_state replace / parent-type merge / incompatible type; clear; edit_state blocks; get_state()+mutate the snapshot} executed from scratch on InMemoryStateStore and on SqliteStateStore (real DB file) for DictState and a two-level typed model; full state dump and get() of 12-15 paths (with/without default) compared with a nested-dict reference after each sequence (every prefix is itself enumerated).",
            "No state merging (hidden aliasing would make it unsound). Fixes a4f61f0 (DictState snapshot shared _data) and f7e78ce (SQLite set_state without stored row skipped the merge) repaired the defects this check found.", ENUM_TECH),
})

CHECKS.update({
    "C20": ("6/C20", "2-4 tasks, one operation each from {set, set_state (whole-state replace), clear, edit_state blocks that read, suspend at 1-2 harness gates and write, a block that starts a helper task which writes later on its own} on colliding keys (DictState and a typed Child(Base) state with parent-type merges), started at explorer-chosen points, optionally one caller giving up (task.cancel) on a pending operation; every interleaving of starts and gate releases executed on the real InMemoryStateStore and SqliteStateStore (DB file) on the virtual loop; final state must equal some permutation of the operations applied atomically to a plain dict (brute force).",
            "All interleavings of each program are explored (no deviation bound). Fix 6ffe178 repaired the unlocked SqliteStateStore.set_state this check found.", SCHED_TECH),
})

CHECKS.update({
    "C21": ("6/C21", "Every sequence (length <=2(3) over all 28 operations - two of them state writes that raise (incompatible model, unserializable value) -, one of which ('reopen') ends the process without a shutdown call and reads everything back through a new store on the same file; <=4(5) inside the tick family incl. a paged tick stream left open across appends; <=3(4) over state-store x other-family operations) of handler / event / tick / state-store operations executed on a SqliteWorkflowStore with single_connection=True and on one with per-call connections (two real DB files); results and raised exceptions compared after every step.",
            "Differential oracle: the per-call store is the reference the property names. _TICK_PAGE_SIZE set to 2 by the harness. Fix cbedf65 repaired the closed shared connection this check found.", ENUM_TECH),
})

CHECKS.update({
    "C24": ("6/C24", "Every sequence (length <=3; <=4 on the in-memory stores in the thorough tier) over 22 operations {upserts of 3 handlers with each status, re-run of a handler id under a new run id, update_handler_status by run id (status / idle_since set / cleared / unknown run), 8 deletes incl. an empty-list filter and id lists that name one id twice} on MemoryWorkflowStore(max_completed None/0/1/2) and SqliteWorkflowStore (DB file); retained set checked after every step against the retention rule, delete counts compared, and after each sequence all 720 filter combinations (incl. id lists with a repeated id) (reduced set on SQLite beyond length 2) compared with a dict reference.",
            "Both readings of 'most recently completed' are admitted. A delete without any filter is outside the statement and not exercised (the two stores differ there: memory deletes everything, SQLite nothing). Fix recorded for the duplicate terminal-queue entries this check found.", ENUM_TECH),
})

CHECKS.update({
    "C16": ("6/C16", "Store level: logs of 2-4 events with a StopEvent at every position (or none) appended at explorer-chosen points x 1-2 subscribers with every cursor -1..n+1 started at explorer-chosen points and pulling one item at a time (slow consumers suspended mid-batch) x poll-timer firings on SQLite - all interleavings on the real MemoryWorkflowStore and SqliteWorkflowStore (DB file). API level: the real _WorkflowAPI._stream_events / _resolve_event_stream over a real store with after_sequence now / -1..n, Last-Event-ID, include_internal on/off, 0..n events present at request time, and disconnect-after-k + reconnect; yielded sequences / SSE ids compared with 'everything above the cursor up to and including the first terminal event, once, in order'.",
            "Poll-timer firings bounded to 2 per execution (polling is cyclic). The starlette transport is replaced by a data-holder stand-in (handlers are called directly). Fix 32b4302 repaired the Memory-store cursor defect this check found.", SCHED_TECH),
})

FAULT_TECH = "exhaustive fault-point enumeration: the real client runs over a mock transport fed by the real server handler, with a connection drop injected at every byte offset of every response (and every pair of offsets), each run compared with the fault-free reference"
CHECKS.update({
    "C17": ("6/C17", "Streams of 1-4 events (with/without internal events) in a real MemoryWorkflowStore, served by the real _WorkflowAPI._stream_events for whatever cursor the client sends; the real WorkflowClient.get_workflow_events over httpx.MockTransport on the virtual loop with httpx.ReadError at every byte offset of the response (1 drop; every pair of offsets for 2 consecutive drops on the smaller configurations), chunk sizes 1/7/whole, heartbeat comments interleaved, every numeric start cursor, and 1-4 consecutive connection failures; yielded events and last_sequence at every yield compared with 'each event after the cursor once, in order'.",
            "No ASGI/TCP transport (MockTransport + Request holder). Completed runs only (a live run's stream never ends).", FAULT_TECH),
})

CHECKS.update({
    "C28": ("6/C28", "Every starting schema {fresh; schema_migrations recorded up to k=1..N; legacy PRAGMA user_version=k without the bookkeeping table} x 1..3 consecutive run_migrations() calls x {caller commits / only closes} x {connection reused / new connection per run} on real DB files with the repository's migration files; normalized sqlite_master + table_info, schema_migrations rows and a pre-existing data row, read through a separate connection after every run, compared with a freshly migrated database (the earlier-release databases are built from frozen copies of the released migration files, not from the tree's); every starting schema also with the two sources [server, dbos] and [dbos, server]; plus, for every starting schema, runs in which the f-th schema-changing operation is refused (SQLite authorizer; every f): the abandoned file must sit at a version boundary and the following runs must converge.",
            "The space is finite and enumerated completely (108 fault-free histories + 189 faulted ones for 4 migrations).", ENUM_TECH),
})

CHECKS.update({
    "C34": ("6/C34", "Release triples over the component grid {0,1,2,10} (quick) / {0,1,2,9,10,11,99,100} (thorough) x pre-release {none, a/b/rc x {0,1,10}}: PEP 440 -> semver -> PEP 440 over 3-7 input spellings per version and semver -> PEP 440 -> semver; the PEP 440 round trip also for release tuples of 1, 2, 4 and 5 components; detect_change_type on ALL ordered pairs of the grid (PEP 440 spelling; on the 4-value grid also semver/semver and both mixed spellings = 1.6M calls quick, 27M thorough) compared with packaging.Version ordering and the first differing release component.",
            "Pairs where only the pre-release part grew are evaluated but not judged (the statement defines no answer).", ENUM_TECH),
})

CHECKS.update({
    "C32": ("6/C32", "Every display name of length <=3 (quick; plus length 4 over 5 classes) / <=4 (thorough) over 10 character classes (lower, upper, digit, '-', '_', space, e-acute, dotted capital I, sharp s, CJK) plus 112 length-edge names (54..69 chars with hyphens / non-alphanumerics at the cut) and 20 hand-picked Unicode names x 4 scripted suffix draws x 3 availability answer sequences x force_suffix on/off, executed on an AST slice of the current k8s_client.py; DNS-1035 validity, derivation from the name's lowercase ASCII alphanumerics, and presence of the drawn suffix are checked on every call.",
            "The module imports kubernetes (absent): the two functions are compiled from the current source file and run with scripted random / validate_deployment_id answers. Fix recorded for the short-name suffix defect this check found.", ENUM_TECH),
})

CHECKS.update({
    "C23": ("6/C23", "All pairs of step configs (1-2 accepted x 0-2 returned types) over an 8-class (quick) / 10-class (thorough) event alphabet; every pair with sound connectivity re-validated under all 8 workflow-level skip sets x 4x4 step-level skip lists; all triples over a 5-class alphabet (thorough); all pairs that use StepFailedEvent as an ordinary returned / accepted type under all 8 workflow-level skip sets; 1-2 @catch_error handlers over 10 for_steps layouts x 8 budgets x both discovery orders and positions; all pairs over the 5-class alphabet also through generated Workflow classes and the public Workflow.validate(); accept/reject and the HITL flag compared with an independent restatement of the stated rules (2.8M graphs quick).",
            "Step configs are built as StepConfig objects and fed to _validate_workflow (the function Workflow.validate calls); the 5-class subset binds that to the public API. Fix recorded for the exact-class HITL flag this check found.", ENUM_TECH),
})

BFS_TECH = "explicit-state breadth-first search: every transition calls the real implementation with one operation, states are deduplicated on a canonical form of the durable state plus the monitor's ghost state, and the invariant is evaluated in every reachable state"
CHECKS.update({
    "C37": ("6/C37", "Breadth-first search over sequences (depth <=5 quick / <=6 thorough) of 23 llamactl configuration operations {a read-only 'show active profile'; add / switch / delete environment x 3 URLs incl. the built-in default, switch with a trailing-slash spelling; create profile from token (unnamed / keyed) and from OIDC login - the same names recur in every environment; select by name; select-any; update; delete profile} executed through EnvService / AuthService on a real ConfigManager SQLite file; states deduplicated on all table contents + whatever the long-lived service object keeps in memory + the ghost set of profiles picked since the current environment became current; the invariant is evaluated in every reachable state (~10^4 states quick).",
            "Network clients (jwt / cryptography / truststore absent) are inert stand-ins; they are not reached. Fix recorded for the stale profile pointer after deleting the current environment.", BFS_TECH),
})

CHECKS.update({
    "C33": ("6/C33", "Every subset of 3 valid deployment names x per deployment {secret absent, empty map, 27 YAML-tricky keys/values} x generation {absent, 0, 7} x password {none, ascii, unicode, single space, (200 chars, newline)}: create_backup_archive -> read_backup_archive with the same password compared field by field (names, CR dict, secret map, generation, manifest); every encrypted archive is also read with 4 different passwords incl. none, which must fail.",
            "Runs in a worker under /root/miniconda/bin/python (cryptography is absent from /venv) with /venv's pure-python yaml; PBKDF2 iterations lowered to 1000 for breadth, 2 cases at the real 600000. If that interpreter is missing the check exits 2 (not runnable).", ENUM_TECH),
})

CRASH_TECH = "exhaustive crash-point enumeration on the real implementation: for every explored schedule the process is stopped after every persisted tick (no further callback runs), a fresh runtime stack is started on the surviving store, and the recovered run is compared with the uninterrupted reference"
CHECKS.update({
    "C13": ("6/C13", "8 deterministic workflows (3-step chain, fan-out/fan-in with collect_events, zero-delay retries, catch_error recovery, waiter + external response without / with requirements, a step failure that ends the run, a run the client cancels at any point) on the real server stack (ServerRuntimeDecorator(IdleReleaseDecorator(PersistenceDecorator(BasicRuntime))) + _WorkflowService) over MemoryWorkflowStore (instance survives) and SqliteWorkflowStore (file survives); the process is stopped right after the k-th persisted tick for every k up to the length of the log, a fresh stack resumes through PersistenceDecorator.launch(), and all schedules of both phases within the deviation bound are explored; the resumed handler must end completed with the uninterrupted result and a log that already contains the terminal tick must be finalized without running a step. Further programs have two runs with different inputs under way at the stop, let one handler-record write fail transiently during the restart, stop the restarted process again (after the j-th tick it persisted itself), let the waiting run be released for idleness and reloaded by the answer before the stop, and answer a waiting, busy run only after the restart, on a store whose reads suspend (network-backed store model), so the answer can arrive at any point of the start-up resume.",
            "Four genuine root causes are recorded as known findings with root-cause witnesses (step output not yet queued, sent event not yet persisted, spuriously idle-flagged handler skipped at startup, non-matching response replayed against a requirement-less waiter); fixes 31a2af2, bcfdba2 and b75be9a repaired three further defects this check found. Any violation outside those contexts alarms.", CRASH_TECH),
})

CHECKS.update({
    "C15": ("6/C15", "13 outcome programs (cancel requests also in the same loop iteration as the idle-release timer; success, two workers racing to stop, an engine-side failure (un-persistable event) of a fresh run / of a run reloaded after an idle release / of a run resumed by a restarted server, cancel of a waiting run before / after its idle release on both stacks, step failure without / after retries, @catch_error handler that recovers / fails itself, workflow timeout, cancel_handler at every quiescent point, cancel racing the timeout) on the real server stack over MemoryWorkflowStore and SqliteWorkflowStore x 0-2 transient failures of handler-record writes and of event-log writes at explorer-chosen attempts (inside the [0.5, 3] s backoff budget) x all schedules within the deviation bound incl. timer firings; every status written is logged (terminal never followed by running) and the final handler record is compared with how the engine's run task actually ended.",
            "Store faults are bounded to what _retry_store_write is documented to absorb (<= 2 consecutive); a store that keeps failing is outside the property. The idle-release timer never fires here (C26/C36). Fixes f78db87 and 7a6f378 repaired the two unretried store writes this check found.", ENGINE_TECH.replace("the real control loop", "the real server stack")),
})

CHECKS.update({
    "C36": ("6/C36", "A workflow that stores state and waits for 1-2 external responses on (a) the in-process stack ServerRuntimeDecorator(IdleReleaseDecorator(PersistenceDecorator(BasicRuntime))) over MemoryWorkflowStore / SqliteWorkflowStore and (b) the DBOS idle-release stack - the real DBOSIdleReleaseDecorator + SqliteRunLifecycleLock (DB file) over the in-process runtime, lifecycle row never created (as shipped) / created by the harness - with idle_timeout in {0.5, 5, 60}; each response is sent at an explorer-chosen point once the run is idle (before the idle timer, in the same loop iteration, after the release; the clock may also advance without a timer coming due) x all interleavings of sends, idle-timer firings and step completions; in every quiescent state 'idle longer than idle_timeout => released, no live control loop, handler marked idle', release never before idle_timeout elapsed and never with work pending, and finally every send succeeded and the run completed with the state stored before waiting plus all responses.",
            "DBOS half: DBOSRuntime and the dbos library are not executed (two-function stand-in bound to the in-process runtime); one known finding (no lifecycle row is ever created, so DBOS runs are never released); fix recorded for the tick-log hole left by _do_resume.", ENGINE_TECH.replace("the real control loop", "the real server / idle-release stacks")),
})

CHECKS.update({
    "C26": ("6/C26", "In-process stack: {two sequential waits answered by two independent senders, one wait, a fan-out whose consumers are busy while the run is flagged idle, a delayed retry, a waiter timeout} x idle_timeout relative to the delays x all interleavings of idle-timer firings, releases, sends and step completions on the real server stack: live control loops per run <= 1 at every quiescent point, the run's state inspected at the instant of every release (nothing queued / running / scheduled), loops started <= releases + 1, every sent event in the tick log and reflected in the result. DBOS lifecycle: the real DBOSIdleReleaseDecorator + SqliteRunLifecycleLock with two replicas (separate decorator and lock instances) on one lifecycle DB file, each response delivered through either replica, and a releaser that stops for good - or is merely paused and continues at any later moment - between begin_release and complete_release, with the clock jumping beyond CRASH_TIMEOUT_SECONDS.",
            "Known findings: the in-process release aborts a busy run when the engine announced idle spuriously (C03's root causes). DBOS half: one shared in-process runtime stands for the DBOS cluster; cross-process interleaving inside one lifecycle operation and Postgres are not modelled; bounded poll loop (6 polls).", ENGINE_TECH.replace("the real control loop", "the real server / idle-release stacks")),
})

CHECKS.update({
    "C14": ("6/C14", "A step waiting out a retry delay D=8 s and a step whose wait_for_event timeout T=8 s is pending, on the real server stack over MemoryWorkflowStore / SqliteWorkflowStore with idle_timeout in {D/4, D, 4D} x {no restart, process stop after each of the first 7 persisted ticks + restart on the surviving store} x all orders of idle-timer, release and retry / timeout timer firings up to the horizon (every timer below 1000 s fired), plus slow-tick programs in which one tick keeps the loop busy until after the pending timer's due time; at the horizon the handler must be completed with the retried / timed-out result.",
            "Three known findings (timers live only in the runner's memory: lost on release and on restart; idle-flagged handlers are skipped at startup) cover every configuration in which the run is released or restarted before / around the timer; the remaining configurations (timer fires first, no restart) must hold and alarm otherwise.", CRASH_TECH),
})

CHECKS.update({
    "C27": ("6/C27", "JOURNAL SEAM ONLY: 7 workflows (2- and 3-step chains, fan-out with two concurrent workers + order-sensitive fan-in, three items for two workers, a worker that fails once next to a sibling, zero-delay retry, waiter + external event) on the real control loop with the real InternalDBOSAdapter.wait_for_next_task, TaskJournal and SqliteJournalCrud (DB file) over modelled DBOS durable operations (function ids in call order; a recorded result is returned on recovery without re-execution at an explorer-chosen moment) x every completion order within the deviation bound x process stop after every durable write (operation result or journal row) x recovery; the recovered tick log must extend the original one, durable operations must be called in the recorded order, and the run must finish.",
            "Partial claim: the dbos library, DBOSRuntime.run_workflow, DBOS streams and Postgres are not executed; the DBOS durable-operation semantics are a model written from its documentation (stated in the evidence assumptions). No scheduled wake-ups in the programs (timeout outcomes of wait_for_next_task are not journaled).", CRASH_TECH),
})

# --- additions of the sixth seeding round (DESIGN.md 15.6): what each widened check now also enumerates --------------
_ROUND6 = {
    "C02": " Also: a single-worker step whose first input waits (with a timeout) while its second input keeps the slot busy - the answer arrives in time, the re-entry is queued behind the busy slot and the timeout elapses meanwhile: the answer accepted as the wait result must be what wait_for_event returns (a wait whose timeout has fired no longer counts as waiting).",
    "C03": " The catalog's snapshot+resume programs include runs with two DIFFERENT steps executing at the snapshot (worker step + gated collector).",
    "C04": " Also with a decorating adapter whose own close() raises during the teardown, for every kind of end (stop, failure, cancel, timeout) racing clean-up writers.",
    "C05": " Also with another step that accepts the same event as the failing one: one that never fails (must run exactly once and see no retry data) or one failing under its own larger budget (each step counts only its own attempts and sees only its own previous exception).",
    "C06": " Also sums of three and four strategies written as a + b + c, sum([...]) and nested wait_combine.",
    "C07": " Every seeded value of every wait term is also computed in two fresh processes with different hash salts (PYTHONHASHSEED) and must agree: a replaying process is another process.",
    "C08": " Layouts include handlers scoped to NO step (for_steps=[]), alone, next to a wildcard and next to a scoped owner.",
    "C09": " Also an invocation that got None from collect_events and then does not complete: it fails (retry) or suspends in wait_for_event (the genuine defect found here - the stale attempt was both re-run and retried - was repaired, fix 6a4936c).",
    "C12": " Also a typed run state (pydantic model) whose list / dict fields are never assigned, only mutated in place, next to an assigned and an untouched field.",
    "C13": " Also a fan-out with two workers under way plus a step that keeps the run busy (never idle), stopped once or twice (the genuine defect found here - worker slots renumbered on resume - was repaired, fix bfc0f31); in the restart-write-fault programs virtual time may pass so that the server's own write backoff elapses.",
    "C14": " Also chains of three retry delays / three waiter timeouts, each shorter than idle_timeout (2D, 1.5D) but together longer, with no client event in between: the run must never be released on the way.",
    "C18": " Exceptions include KeyErrors whose key is a string that reads as a Python literal ('42', 'None', '[1]', \"'quoted'\", \"it's\", ''), and non-string keys.",
    "C21": " Also handler queries / deletes whose id lists hold more than a thousand values (second and later such calls on the same column).",
    "C22": " Also a factory that fails once while ANOTHER step's resolution is open inside a slow async factory, the retry resolving the failed resource again before that other resolution has finished.",
    "C24": " Also a handler id written again under another workflow name, followed by workflow_name_in queries / deletes.",
    "C28": " Tracked-prefix start states carry the bookkeeping table as RELEASED code created it (frozen copy of the DDL).",
    "C30": " Also two instances constructed with the same explicit workflow_name (equal limits, and a wide instance in flight before a narrow one): limits stay per instance.",
    "C31": " Also cancel requests made through handler.cancel_run(timeout=0) - giving up waiting must not do anything to the run.",
    "C33": " Also secrets and resources of 1 MiB - 4 KiB, 1 MiB - 20 B and 1 MiB (the size limit of a cluster object), plain and encrypted.",
    "C36": " Also a continued handler: the new run is started WITH state (the finished run's context), does not open the state store before it idles, is released and reloaded on demand, and must continue from the inherited state.",
}
for _k, _add in _ROUND6.items():
    _t = CHECKS[_k]
    CHECKS[_k] = (_t[0], _t[1] + _add, *_t[2:])

# --- additions of the seventh seeding round (DESIGN.md 15.7) ------------------------------------------------------------
_ROUND7 = {
    "C02": " Also two runs on one event loop: over a grid of loop-iteration offsets the END of one run falls into every iteration around the other run's ctx.send_event calls.",
    "C04": " Also a stream consumer that stops listening after k events (closes the generator) and attaches again at an explorer-chosen point: the two sittings together must be the published stream, ending with the terminal event.",
    "C05": " Also an attempt (first or a retry) that waits with a timeout which expires: the waiting time belongs to the attempt, retry number / previous exception / first-attempt time carry over.",
    "C06": " Early-retry witnesses carry the root-cause key delay_is_the_next_retrys (the recorded one-step-ahead defect has it true).",
    "C09": " Also a collector for [A, B, B, C] fed one event at a time whose run is paused and resumed (once / twice) and whose state is read mid-run (ctx.to_dict() / running_steps()) at explorer-chosen points.",
    "C12": " Also a waiting step (with requirements) whose input event is accepted by a second, auditing step: after a resume only the waiting step runs again on that input.",
    "C13": " Also a fan-in whose items are RETURNED by producer steps (fan_keeper_returned), with the double-stop points that reach a half-filled fan-in buffer in the quick tier; bound 4 (quick) / 5 on the suspending-store restart programs; with the one write fault, a finalization that is merely delayed is judged after one more fault-free restart.",
    "C15": " Also a restarted server over a store whose reads suspend while the client's answer reloads the run on demand (C13's driver, judged on the handler record).",
    "C18": " Values include plain JSON dicts shaped like the serializer's own type markers (__is_pydantic / __is_component + qualified_name + value).",
    "C21": " Also the legacy ctx column (absent row, valid JSON, bytes that are not UTF-8) read through get_legacy_ctx on both store modes, followed by ordinary handler / event / tick reads.",
    "C22": " Also dependency cycles (2-cycle, self-cycle) and an acyclic chain declared with postponed string annotations, where every evaluation builds new Resource descriptors.",
    "C24": " Also a handler that has no run yet (run_id None) next to run_id_in filters, deletes and status updates.",
    "C26": " Also two resumers of one run - a restarted server's start-up pass and the on-demand reload triggered by a client's event - over a store whose reads suspend (C13's driver).",
    "C28": " Fault injection also refuses every write of a version row once (the statement between a migration's schema changes and its being recorded; on a legacy database: between creating and seeding the bookkeeping table - the genuine defect found there was repaired, fix 607fe36).",
    "C30": " Also the hard cancel of a run that is EXECUTING (holds a slot) while siblings execute or queue.",
    "C33": " The random bytes of the encrypted wire format are owned: every value of the blob's first byte (salt[0]) and every value of its last byte (end of the GCM tag, reached with a deterministic nonce counter) is round-tripped.",
    "C36": " _TICK_PAGE_SIZE is set to 3 so that the tick log replayed by a reload spans several pages.",
}
_ROUND7.update({
    "C11": " The catalog also has a step under a TIME-bounded retry policy (stop_after_delay) that fails twice while another step keeps the run going until later: state rebuilt from the log after the policy's window must equal the live state.",
    "C19": " DictState keys include the one the library treats specially when a value cannot be serialized (memory, memory.turns) holding plain JSON.",
    "C20": " Also one write of the SQLite state store refused ('database is locked') at an explorer-chosen point: the operation fails without effect or completes, and the final state is a serial order of the operations that completed.",
    "C29": " Also merges whose items are the sources' own values, one of them None.",
    "C34": " detect_change_type also on every pair in which a version is written with fewer than three release components (1, 1.0).",
    "C35": " The catalog also has a retry delay pending while a sibling's completion starts a new gated worker; a run that stays live with nothing enabled must have reported NOT_RUNNING for every step body that ended.",
})
for _k, _add in _ROUND7.items():
    _t = CHECKS[_k]
    CHECKS[_k] = (_t[0], _t[1] + _add, *_t[2:])


# --- additions of the eighth seeding round (DESIGN.md 15.8) -------------------------------------------------------------
_ROUND8 = {
    "C02": " Also a pool step whose invocations each wait for their own answer (requirement values differ) under the library's default waiter ids.",
    "C04": " Also result events with a truth value of their own (a StopEvent subclass whose __bool__ is False), with and without a workflow timeout still pending.",
    "C09": " Also expected lists in which a type occurs twice around another type ([A,B,A], [A,B,C,B]): the returned list is ordered as the expected list.",
    "C12": " Interrupted executions of one step must come back in the order in which they had been started.",
    "C13": " Also a TIME-bounded retry policy with the restarted server coming up after the policy's window (judged for stops after the last failure: every retry decision is then in the log).",
    "C21": " Also appends that fail (a tick / event payload that cannot be serialized) followed by further appends to the same run.",
    "C22": " Also two workflow instances configured from the same JSON file (ResourceConfig): one settings object per instance, shared by that instance's steps only.",
    "C24": " A query that raises is judged as a wrong answer (not as a harness error).",
    "C36": " Also a restarted server whose start-up pass reads a busy handler's tick log slowly while a client's answer reloads the run on demand, which then goes idle and is released: when the slow read returns the run must stay (or get) released.",
}
_ROUND8.update({
    "C05": " Also a predicate on the failure's CAUSE (retry_if_exception_cause_type) with every attempt's error chained from one cached cause object, or being the very same exception instance.",
    "C08": " Also a lineage that has used its recovery budget and then fails in a step that waited with a timeout (the TimeoutError is routed with the lineage's count as it stands).",
    "C18": " Also an event class whose qualified name is bound to a NEW class (one more typed field) after it was read back once: instances of the new class come back as the new class.",
    "C30": " Also runs of the same instance started from inside a step of one of its runs (they count like any other run).",
    "C31": " After a run ended by timeout / cancellation no step body of it may still be executing.",
})
for _k, _add in _ROUND8.items():
    _t = CHECKS[_k]
    CHECKS[_k] = (_t[0], _t[1] + _add, *_t[2:])

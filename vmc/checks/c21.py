"""C21 - the single-connection SQLite store keeps working after use.

Every sequence (length <= N) over handler / event / tick / state-store operations - including a tick stream and an
event subscription that stay open across later operations - is executed on a SqliteWorkflowStore opened with
single_connection=True and on one opened with per-call connections (two DB files); results and exceptions are
compared step by step (differential oracle: the per-call store is the reference the property names).
"""
from __future__ import annotations

import itertools
import json
import os
import shutil
import tempfile
from datetime import datetime, timezone
from typing import Any

from vmc import bootstrap

bootstrap.setup(("llama_agents.server",))

from vmc.checks.grid import run_grid  # noqa: E402
from llama_agents.client.protocol.serializable_events import EventEnvelopeWithMetadata  # noqa: E402
from llama_agents.server._store import abstract_workflow_store as aws  # noqa: E402
from llama_agents.server._store.abstract_workflow_store import HandlerQuery, PersistentHandler  # noqa: E402
from llama_agents.server._store.sqlite import sqlite_workflow_store as sws  # noqa: E402
from workflows.context.state_store import DictState  # noqa: E402
from workflows.events import Event, StopEvent  # noqa: E402

PID = "C21"


class _OtherModel(__import__("pydantic").BaseModel):
    x: int = 0

import logging  # noqa: E402

logging.getLogger("llama_agents").setLevel(logging.ERROR)
sws._TICK_PAGE_SIZE = 2  # configuration constant: small pages so that a 3-tick log already spans two pages
T0 = datetime(2026, 1, 1, tzinfo=timezone.utc)


_LOOP: dict[str, Any] = {}


def drive(coro: Any) -> Any:
    """Run one store operation to completion on this process's event loop (the built-in SQLite store never suspends, but an
    operation may hand work to a thread: loop.run_until_complete serves both)."""
    import asyncio

    if "loop" not in _LOOP:
        _LOOP["loop"] = asyncio.new_event_loop()
    return _LOOP["loop"].run_until_complete(coro)


class Env:
    def __init__(self, mode: str, d: str) -> None:
        self.path = os.path.join(d, f"{mode}-{os.getpid()}.db")
        for suffix in ("", "-wal", "-shm", "-journal"):
            try:
                os.unlink(self.path + suffix)
            except FileNotFoundError:
                pass
        self.mode = mode
        self.store = sws.SqliteWorkflowStore(self.path, poll_interval=0.01, single_connection=(mode == "single"))
        self.state = None
        self.tick_iter: Any = None
        self.sub_iter: Any = None
        self.n_ev = 0
        self.n_tick = 0

    def reopen(self) -> None:
        """the process ends here without any shutdown call: whatever the store has not committed is gone
        (closing a sqlite3 connection rolls its open transaction back); a new store opens the same file"""
        conn = getattr(self.store, "_persistent_conn", None)
        if conn is not None:
            conn.close()
        self.store = sws.SqliteWorkflowStore(self.path, poll_interval=0.01, single_connection=(self.mode == "single"))
        self.state = None
        self.tick_iter = None

    def ss(self) -> Any:
        if self.state is None:
            self.state = self.store.create_state_store("r1", DictState)
        return self.state


def plain(x: Any) -> Any:
    if isinstance(x, list):
        return [plain(i) for i in x]
    if isinstance(x, PersistentHandler):
        d = x.model_dump(mode="json")
        return {k: d[k] for k in ("handler_id", "workflow_name", "status", "run_id", "error", "result", "idle_since")}
    if isinstance(x, aws.StoredEvent):
        return {"seq": x.sequence, "type": x.event.type, "value": x.event.value}
    if isinstance(x, aws.StoredTick):
        return {"seq": x.sequence, "data": x.tick_data}
    if hasattr(x, "_data"):
        return dict(x._data)
    return x


async def _anext_or_end(it: Any) -> Any:
    try:
        return plain(await it.__anext__())
    except StopAsyncIteration:
        return "<end>"


def apply(env: Env, op: str) -> Any:
    if op == "reopen":
        env.reopen()
    st = env.store

    async def go() -> Any:
        if op == "reopen":  # everything that was acknowledged before the process ended must still be there
            return {"handlers": plain(sorted(await st.query(HandlerQuery()), key=lambda h: h.handler_id)),
                    "events": plain(await st.query_events("r1")), "ticks": plain(await st.get_ticks("r1")),
                    "state": plain(await env.ss().get_state())}
        if op == "upsert_running":
            return await st.update(PersistentHandler(handler_id="h1", workflow_name="wf", status="running", run_id="r1", started_at=T0))
        if op == "upsert_completed":
            return await st.update(PersistentHandler(handler_id="h1", workflow_name="wf", status="completed", run_id="r1",
                                                     result=StopEvent(result={"k": 1}), completed_at=T0))
        if op == "upsert_other":
            return await st.update(PersistentHandler(handler_id="h2", workflow_name="wf2", status="failed", run_id="r2", error="boom"))
        if op == "query_all":
            return plain(sorted(await st.query(HandlerQuery()), key=lambda h: h.handler_id))
        if op == "query_running":
            return plain(await st.query(HandlerQuery(status_in=["running"], workflow_name_in=["wf"])))
        if op == "delete_h1":
            return await st.delete(HandlerQuery(handler_id_in=["h1"]))
        # the legacy ``ctx`` column of a database upgraded from an old server: absent row, valid JSON, bytes that are not UTF-8
        if op in ("legacy_ctx_valid", "legacy_ctx_bad_bytes"):
            # (written through the store's own connection: the single-connection configuration has no other writer)
            with st._connect() as conn:
                conn.execute("UPDATE handlers SET ctx = " + ("'{\"a\": 1}'" if op == "legacy_ctx_valid" else "CAST(X'ff7b22' AS TEXT)") + " WHERE run_id = 'r1'")
                conn.commit()
            return st.get_legacy_ctx("r1")
        if op == "legacy_ctx_missing":
            return st.get_legacy_ctx("no-such-run")
        # id lists of several hundred values (a client that merges id lists, a batch clean-up job): beyond what a statement can bind one by one
        if op == "query_many_a":
            return plain(sorted(await st.query(HandlerQuery(handler_id_in=["h1"] + [f"a{i}" for i in range(1100)])), key=lambda h: h.handler_id))
        if op == "query_many_b":
            return plain(sorted(await st.query(HandlerQuery(handler_id_in=["h2"] + [f"b{i}" for i in range(1100)])), key=lambda h: h.handler_id))
        if op == "delete_many_b":
            return await st.delete(HandlerQuery(handler_id_in=["h2"] + [f"b{i}" for i in range(1100)]))
        if op == "query_many_runs":
            return plain(sorted(await st.query(HandlerQuery(run_id_in=["r2"] + [f"q{i}" for i in range(1100)])), key=lambda h: h.handler_id))
        if op == "status_idle":
            return await st.update_handler_status("r1", idle_since=T0)
        if op == "status_failed":
            return await st.update_handler_status("r1", status="failed", error="e")
        if op == "append_event":
            env.n_ev += 1
            return await st.append_event("r1", EventEnvelopeWithMetadata.from_event(Event(n=env.n_ev)))
        if op == "append_stop":
            return await st.append_event("r1", EventEnvelopeWithMetadata.from_event(StopEvent(result="done")))
        if op == "query_events":
            return plain(await st.query_events("r1"))
        if op == "query_events_after0":
            return plain(await st.query_events("r1", after_sequence=0, limit=2))
        if op == "append_tick":
            env.n_tick += 1
            return await st.append_tick("r1", {"type": "t", "n": env.n_tick})
        if op == "append_tick_bad":
            # a tick whose payload cannot be serialized: the append fails (in both modes) and must leave nothing behind
            return await st.append_tick("r1", {"type": "t", "bad": {1, 2}})
        if op == "append_event_bad":
            class _Unserializable:
                pass

            env.n_ev += 1
            ev = EventEnvelopeWithMetadata.from_event(Event(n=env.n_ev))
            object.__setattr__(ev, "value", {"x": _Unserializable()})
            return await st.append_event("r1", ev)
        if op == "append_tick_x3":
            for _ in range(3):
                env.n_tick += 1
                await st.append_tick("r1", {"type": "t", "n": env.n_tick})
            return None
        if op == "get_ticks":
            return plain(await st.get_ticks("r1"))
        if op == "stream_ticks_all":
            return [plain(t) async for t in st.stream_ticks("r1")]
        if op == "tick_stream_open_read1":
            env.tick_iter = st.stream_ticks("r1").__aiter__()
            return await _anext_or_end(env.tick_iter)
        if op == "tick_stream_read_rest":
            if env.tick_iter is None:
                return "<no stream>"
            out = []
            while True:
                x = await _anext_or_end(env.tick_iter)
                if x == "<end>":
                    break
                out.append(x)
            env.tick_iter = None
            return out
        if op == "state_set":
            return await env.ss().set("a.b", env.n_ev + env.n_tick)
        if op == "state_get":
            return await env.ss().get("a.b", default="D")
        if op == "state_get_state":
            return plain(await env.ss().get_state())
        if op == "state_set_state":
            return await env.ss().set_state(DictState(z=1))
        if op == "state_set_state_bad":
            # a caller error: a state model that is neither the store's model nor a parent of it (merge_state raises ValueError)
            return await env.ss().set_state(_OtherModel(x=1))  # type: ignore[arg-type]
        if op == "state_set_unserializable":
            # a value the JSON serializer cannot write: the write fails after the row was read
            return await env.ss().set_state(DictState(bad={1, 2}, blob=b"\xff"))
        if op == "state_clear":
            return await env.ss().clear()
        if op == "state_edit":
            async with env.ss().edit_state() as s:
                s["e"] = s.get("e", 0) + 1
            return None
        if op == "state_seed_copy":
            other = st.create_state_store("r9", DictState, serialized_state={"store_type": "sqlite", "run_id": "r1"},
                                          serializer=__import__("workflows.context.serializers", fromlist=["JsonSerializer"]).JsonSerializer())
            return plain(await other.get_state())
        raise ValueError(op)

    try:
        return ("ok", json.loads(json.dumps(drive(go()), default=str)))
    except Exception as e:  # noqa: BLE001
        return ("raised", type(e).__name__, str(e)[:80])


HANDLER_OPS = ["upsert_running", "upsert_completed", "upsert_other", "query_all", "query_running", "delete_h1", "status_idle", "status_failed"]
EVENT_OPS = ["append_event", "append_stop", "query_events", "query_events_after0"]
TICK_OPS = ["append_tick", "append_tick_x3", "get_ticks", "stream_ticks_all", "tick_stream_open_read1", "tick_stream_read_rest"]
STATE_OPS = ["state_set", "state_get", "state_get_state", "state_set_state", "state_clear", "state_edit", "state_seed_copy",
             "state_set_state_bad", "state_set_unserializable"]
ALL_OPS = HANDLER_OPS + EVENT_OPS + TICK_OPS + STATE_OPS + ["reopen"]
_DIR: dict[str, str] = {}


def run_sequence(seq: tuple[str, ...]) -> list[Any]:
    if "d" not in _DIR:
        _DIR["d"] = tempfile.mkdtemp(prefix="vmc-c21-", dir="/dev/shm" if os.path.isdir("/dev/shm") else None)
        import atexit

        atexit.register(shutil.rmtree, _DIR["d"], True)
    a, b = Env("percall", _DIR["d"]), Env("single", _DIR["d"])
    v = []
    for i, op in enumerate(seq):
        ra, rb = apply(a, op), apply(b, op)
        if ra != rb:
            family = ("reopen" if op == "reopen" else "state" if op.startswith("state") else "tick" if "tick" in op
                      else "event" if "event" in op else "handler")
            prior_state = any(o.startswith("state") for o in seq[:i])
            v.append(("single_connection_differs_from_per_call", {"op_family": family, "after_state_store_use": prior_state},
                      f"after {list(seq[:i])}: {op} -> per-call {ra}, single_connection {rb}"))
            break
    for e in (a, b):
        try:
            if e.store._persistent_conn is not None:
                e.store._persistent_conn.close()
        except Exception:  # noqa: BLE001
            pass
    return v


def work(case: Any) -> Any:
    prefix, depth, alphabet = case
    v: list[Any] = []
    n = 0
    nontriv = 0
    bad: set[tuple[str, ...]] = set()
    for rest in itertools.chain.from_iterable(itertools.product(alphabet, repeat=k) for k in range(0, depth)):
        seq = tuple(prefix) + rest
        if any(seq[:j] in bad for j in range(1, len(seq))):
            continue
        vv = run_sequence(seq)
        n += 1
        if len(seq) > 1:
            nontriv += 1
        if vv:
            bad.add(seq)
        v += [(c, w, d, {"seq": list(seq)}) for c, w, d in vv]
    seen = set()
    out = []
    for c, w, d, r in v:
        key = (c, repr(sorted(w.items())))
        if key not in seen:
            seen.add(key)
            out.append((c, w, d, r))
    return n, nontriv, out, {"prefix": list(prefix), "sequences": n}, n * (len(prefix) + depth - 1)


RULE = ("every sequence (length <= 3 over all 28 operations; length <= 5 inside the tick family incl. a tick stream left open "
        "across appends, and length 4 over state-store x other-family operations) of handler upserts / queries / deletes / "
        "status updates, event appends / queries, tick appends / reads / paged streams and state-store operations (set, get, "
        "get_state, set_state - also with an incompatible model and with an unserializable value, both of which raise -, clear, edit_state, seeding a second run from the first) and 'reopen' (the process ends without "
        "a shutdown call, a new store opens the same file and reads everything back) on two real DB files: "
        "single_connection=True vs per-call connections; results and raised exceptions compared after every step; "
        "non-trivial = sequences of length >= 2")
from vmc.tables import _ROUND6 as _R6  # noqa: E402

RULE += _R6["C21"]
from vmc.tables import _ROUND7 as _R7  # noqa: E402

RULE += _R7["C21"]
from vmc.tables import _ROUND8 as _R8  # noqa: E402

RULE += _R8["C21"]



def run(tier: str, seed: int) -> Any:
    cases: list[Any] = []
    for a in ALL_OPS:
        cases.append(([a], 3 if tier != "quick" else 2, ALL_OPS))
    # deeper inside families whose operations interact
    tick_al = TICK_OPS
    for a in tick_al:
        cases.append(([a], 5 if tier != "quick" else 4, tick_al))
    mixed = ["state_set", "state_set_state_bad", "state_set_unserializable", "state_get_state", "state_edit", "state_clear", "upsert_running", "query_all", "append_event", "query_events",
             "append_tick", "get_ticks", "status_idle", "reopen"]
    for a in mixed:
        cases.append(([a], 4 if tier != "quick" else 3, mixed))
    legacy = ["upsert_running", "legacy_ctx_bad_bytes", "legacy_ctx_valid", "legacy_ctx_missing", "query_all", "append_event", "query_events", "append_tick", "get_ticks",
              "stream_ticks_all", "state_get_state"]
    for a in legacy:
        cases.append(([a], 4 if tier != "quick" else 3, legacy))
    failing = ["append_tick", "append_tick_bad", "get_ticks", "append_event", "append_event_bad", "query_events", "reopen"]
    for a in failing:
        cases.append(([a], 4 if tier != "quick" else 3, failing))
    many = ["upsert_running", "upsert_other", "query_many_a", "query_many_b", "delete_many_b", "query_many_runs", "query_all"]
    for a in many:
        cases.append(([a], 5 if tier != "quick" else 4, many))
    return run_grid(PID, RULE, cases, work, seed=seed, chunksize=1, assumptions=[
        "_TICK_PAGE_SIZE is set to 2 by the harness (a configuration constant) so that short tick logs span several pages",
        "single process, no concurrent writers (the AgentCore configuration the property names)"],
        extra={"operations": len(ALL_OPS)})


def replay(rec: dict[str, Any]) -> tuple[bool, str]:
    v = run_sequence(tuple(rec["seq"]))
    return (not v), f"seq={rec['seq']}\n" + "\n".join(f"VIOLATED {c} {w}: {d}" for c, w, d in v)
